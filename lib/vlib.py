"""Shared machinery for /verif checks: scratch space, Go builds from /repo's
working tree, TLC runs, evidence files, known findings, verdict lines.

Verdict rules (DESIGN.md section 3.2) are enforced here:
  * exit 1 + "VIOLATION property=<id> replay=<path>" only through violation(),
    which is only called with an observation made on the real code;
  * every infrastructure failure raises Infra -> exit 2, never a VIOLATION line.
"""
import atexit
import glob
import json
import os
import re
import shutil
import subprocess
import sys
import tempfile
import time

VERIF = os.path.dirname(os.path.dirname(os.path.abspath(__file__)))
REPO = os.environ.get("VERIF_REPO", "/repo")
SPEC = os.path.join(VERIF, "spec")
HARNESS = os.path.join(VERIF, "harness")
EVID = os.environ.get("VERIF_EVID") or os.path.join(VERIF, "evidence")
TLAJAR = "/opt/veriftools/tla/tla2tools.jar:/opt/veriftools/tla/CommunityModules-deps.jar"
NCPU = os.cpu_count() or 4


class Infra(Exception):
    """Machinery failure: exit 2, never a verdict."""


_scratch = None


def scratch():
    global _scratch
    if _scratch is None:
        _scratch = tempfile.mkdtemp(prefix="verif-")
        atexit.register(lambda: shutil.rmtree(_scratch, ignore_errors=True))
    return _scratch


def seed():
    try:
        return int(os.environ.get("VERIF_SEED", "1"))
    except ValueError:
        return 1


def goenv():
    e = dict(os.environ)
    e.update(GOFLAGS="-mod=mod", GOPROXY="off", GOSUMDB="off", GOTOOLCHAIN="local",
             CGO_ENABLED=e.get("CGO_ENABLED", "1"))
    return e


def sync_gosum():
    """harness/go.sum follows /repo/go.sum (offline: nothing else can supply sums)."""
    src = os.path.join(REPO, "go.sum")
    dst = os.path.join(HARNESS, "go.sum")
    want = open(src).read() if os.path.exists(src) else ""
    have = open(dst).read() if os.path.exists(dst) else ""
    missing = [l for l in want.splitlines() if l and l not in have]
    if missing:
        with open(dst, "a") as f:
            f.write("\n".join(missing) + "\n")


def go_build(pkg, name=None, tags="verif", race=False):
    """Build harness command `pkg` against /repo's current working tree."""
    sync_gosum()
    hdir = HARNESS
    if os.path.abspath(REPO) != "/repo":
        # developer convenience: check a scratch worktree instead of /repo
        hdir = os.path.join(scratch(), "harness-alt")
        if not os.path.exists(hdir):
            shutil.copytree(HARNESS, hdir)
            gm = open(os.path.join(hdir, "go.mod")).read().replace("=> /repo", "=> " + os.path.abspath(REPO))
            open(os.path.join(hdir, "go.mod"), "w").write(gm)
    out = os.path.join(scratch(), name or os.path.basename(pkg))
    cmd = ["go", "build", "-o", out]
    if tags:
        cmd += ["-tags", tags]
    if race:
        cmd += ["-race"]
    cmd += ["./" + pkg]
    p = subprocess.run(cmd, cwd=hdir, env=goenv(), capture_output=True, text=True)
    if p.returncode != 0:
        raise Infra("go build %s failed:\n%s%s" % (pkg, p.stdout, p.stderr))
    return out


def run(cmd, timeout=3600, env=None, cwd=None, stdin=None, check=True):
    t0 = time.time()
    try:
        p = subprocess.run(cmd, cwd=cwd, env=env or goenv(), capture_output=True, text=True,
                           timeout=timeout, input=stdin)
    except subprocess.TimeoutExpired:
        raise Infra("timeout after %ss: %s" % (timeout, " ".join(map(str, cmd))[:300]))
    if check and p.returncode != 0:
        raise Infra("command failed (%d): %s\n%s\n%s" % (
            p.returncode, " ".join(map(str, cmd))[:300], p.stdout[-4000:], p.stderr[-4000:]))
    p.wall = time.time() - t0
    return p


# --------------------------------------------------------------------------
# TLC
# --------------------------------------------------------------------------

class TLCResult:
    def __init__(self):
        self.ok = False
        self.generated = 0
        self.distinct = 0
        self.depth = 0
        self.printed = []       # values printed with PrintT (parsed JSON where possible)
        self.violated = None    # name of violated invariant/property, if any
        self.error = None       # TLC/evaluation error text, if any
        self.raw = ""
        self.wall = 0.0
        self.coverage = {}      # action -> (distinct, total) when -coverage is on
        self.trace = []         # counterexample state dumps (text), if any


_state_re = re.compile(r"^(\d+) states generated, (\d+) distinct states found", re.M)
_depth_re = re.compile(r"The depth of the complete state graph search is (\d+)")
_inv_re = re.compile(r"Invariant (\S+) is violated")
_prop_re = re.compile(r"(Temporal properties were violated|Action property (\S+) is violated|"
                      r"Deadlock reached|The postcondition \S* ?evaluated to FALSE|"
                      r"Assumption .* is false)")
_cov_re = re.compile(r"^<(\w+) line \d+, col \d+ to line \d+, col \d+ of module (\w+)>: (\d+):(\d+)", re.M)


def tlc(module, cfg, files=None, workers=None, heap="2g", timeout=1800, extra=None,
        data=None, coverage=False, deadlock=False, simulate=None, depth=None, tlc_seed=None,
        defines=None):
    """Run TLC on spec/<module>.tla with spec/<cfg> in a fresh scratch copy.

    files: extra spec files to copy (default: every *.tla in spec/).
    data:  dict name -> path of data files (traces) to place next to the spec.
    Returns TLCResult; raises Infra on anything that is neither success nor a
    property violation.
    """
    wd = tempfile.mkdtemp(prefix="tlc-", dir=scratch())
    for f in glob.glob(os.path.join(SPEC, "*.tla")):
        shutil.copy(f, wd)
    shutil.copy(os.path.join(SPEC, cfg), os.path.join(wd, "MC.cfg"))
    for name, path in (data or {}).items():
        dst = os.path.join(wd, name)
        if os.path.abspath(path) != dst:
            try:
                os.link(path, dst)
            except OSError:
                shutil.copy(path, dst)
    meta = os.path.join(wd, "meta")
    cmd = ["java", "-XX:+UseParallelGC", "-XX:ParallelGCThreads=4", "-Xss256m",
           "-Xms256m", "-Xmx" + heap, "-Djava.io.tmpdir=" + wd]     # SANY's temp directories go with the scratch copy
    for k, v in (defines or {}).items():
        cmd.append("-D%s=%s" % (k, v))
    cmd += ["-cp", TLAJAR, "tlc2.TLC", "-workers", str(workers or NCPU), "-metadir", meta,
            "-config", "MC.cfg", "-nowarning"]
    if not deadlock:
        cmd.append("-deadlock")       # -deadlock DISABLES deadlock checking
    if coverage:
        cmd += ["-coverage", "1"]
    if simulate:
        cmd += ["-simulate", simulate]
    if depth:
        cmd += ["-depth", str(depth)]
    if tlc_seed is not None:
        cmd += ["-seed", str(tlc_seed)]
    cmd += (extra or []) + [module]
    env = dict(os.environ)
    env.pop("JAVA_TOOL_OPTIONS", None)
    t0 = time.time()
    try:
        p = subprocess.run(cmd, cwd=wd, env=env, capture_output=True, text=True, timeout=timeout)
    except subprocess.TimeoutExpired:
        shutil.rmtree(wd, ignore_errors=True)
        raise Infra("TLC timeout (%ss) on %s/%s" % (timeout, module, cfg))
    r = TLCResult()
    r.wall = time.time() - t0
    r.raw = p.stdout + p.stderr
    out = p.stdout
    m = None
    for m in _state_re.finditer(out):
        pass
    if m:
        r.generated, r.distinct = int(m.group(1)), int(m.group(2))
    m = _depth_re.search(out)
    if m:
        r.depth = int(m.group(1))
    for line in out.splitlines():
        s = line.strip()
        if s.startswith('"{') or s.startswith('"['):
            try:
                r.printed.append(json.loads(json.loads(s)))
                continue
            except Exception:
                pass
    for m in _cov_re.finditer(out):
        r.coverage[m.group(2) + "!" + m.group(1)] = (int(m.group(3)), int(m.group(4)))
    mi = _inv_re.search(out)
    mp = _prop_re.search(out)
    if mi:
        r.violated = mi.group(1)
    elif mp:
        r.violated = mp.group(0)
    if r.violated:
        r.trace = re.findall(r"^State \d+:.*?(?=^State \d+:|^\d+ states generated|\Z)", out, re.M | re.S)
    finished = "Model checking completed. No error has been found." in out or \
               (simulate and "states generated" in out and p.returncode == 0) or \
               (simulate and "Progress" in out and p.returncode == 0)
    if finished and not r.violated:
        r.ok = True
    elif not r.violated:
        i = out.find("Error:")
        r.error = (out[i:i + 3000] if i >= 0 else out[-3000:]) + p.stderr[-2000:]
        shutil.rmtree(wd, ignore_errors=True)
        raise Infra("TLC failed on %s/%s (exit %d):\n%s" % (module, cfg, p.returncode, r.error))
    shutil.rmtree(wd, ignore_errors=True)
    return r


def tlc_parallel(jobs, max_procs=None):
    """Run several tlc() jobs concurrently (each a dict of kwargs). Returns results in order."""
    from concurrent.futures import ThreadPoolExecutor
    with ThreadPoolExecutor(max_workers=max_procs or max(1, NCPU // 2)) as ex:
        futs = [ex.submit(tlc, **j) for j in jobs]
        return [f.result() for f in futs]


def require_coverage(res, actions, module=None):
    """Anti-vacuity: every named action must have been taken at least once."""
    missing = []
    for a in actions:
        hit = [v for k, v in res.coverage.items() if k.endswith("!" + a) and (module is None or k.startswith(module + "!"))]
        if not hit or all(h[1] == 0 for h in hit):
            missing.append(a)
    if missing:
        raise Infra("vacuous model run: actions never taken: %s" % ", ".join(missing))


# --------------------------------------------------------------------------
# evidence / findings / verdicts
# --------------------------------------------------------------------------

def known_findings():
    path = os.path.join(VERIF, "known_findings.json")
    if not os.path.exists(path):
        return {"findings": [], "fixed": []}
    return json.load(open(path))


def findings_for(pid):
    return [f for f in known_findings().get("findings", []) if f.get("property") == pid]


class Run:
    """One check run: collects coverage, violations, known findings; writes evidence."""

    def __init__(self, pid, tier, level="model_checking"):
        self.pid, self.tier, self.level = pid, tier, level
        self.t0 = time.time()
        self.cov = {"states": 0, "transitions": 0, "traces_validated_against_impl": 0,
                    "samples": [], "bounds": {}, "models": [], "exhaustive": False}
        self.assumptions = []
        self.violations = []
        self.known_seen = []
        self.notes = []

    def add_tlc(self, name, res, bounds=None):
        self.cov["states"] += res.distinct
        self.cov["transitions"] += res.generated
        self.cov["models"].append({"model": name, "distinct_states": res.distinct,
                                   "states_generated": res.generated, "depth": res.depth,
                                   "wall_s": round(res.wall, 2), "bounds": bounds or {}})

    def sample(self, obj, cap=6):
        if len(self.cov["samples"]) < cap:
            self.cov["samples"].append(obj)

    def note(self, s):
        self.notes.append(s)
        print("NOTE:", s)

    def violation(self, replay_obj, what):
        """Record a violation observed on the real code. Known findings are matched by key."""
        key = replay_obj.get("finding_key")
        for f in findings_for(self.pid):
            if key and f.get("key") == key:
                if key not in [k["key"] for k in self.known_seen]:
                    self.known_seen.append({"key": key, "what": f.get("what", what)})
                return
        self.violations.append((replay_obj, what))

    def finish(self):
        os.makedirs(os.path.join(EVID, "replay"), exist_ok=True)
        for old in glob.glob(os.path.join(EVID, "replay", self.pid + "-*.json")):
            os.remove(old)
        for k in self.known_seen:
            print("KNOWN-FINDING: property=%s %s" % (self.pid, k["what"]))
        paths = []
        for n, (obj, what) in enumerate(self.violations[:20]):
            path = os.path.join(EVID, "replay", "%s-%d.json" % (self.pid, n))
            obj = dict(obj)
            obj["what"] = what
            obj["property"] = self.pid
            json.dump(obj, open(path, "w"), indent=1)
            paths.append(path)
        ev = {
            "property_id": self.pid, "tier": self.tier, "seed": seed(), "level": self.level,
            "coverage": self.cov, "assumptions": self.assumptions,
            "wall_s": round(time.time() - self.t0, 2), "violations": len(self.violations),
        }
        if self.notes:
            ev["coverage"]["notes"] = self.notes
        if self.known_seen:
            ev["coverage"]["known_findings_seen"] = self.known_seen
        if not ev["coverage"]["samples"]:
            ev["coverage"]["samples"] = ["(none recorded)"]
        os.makedirs(EVID, exist_ok=True)
        json.dump(ev, open(os.path.join(EVID, self.pid + ".json"), "w"), indent=1)
        if self.violations:
            for (obj, what), path in zip(self.violations, paths):
                print("VIOLATION property=%s replay=%s   # %s" % (self.pid, path, what))
            return 1
        print("OK property=%s tier=%s states=%d traces=%d wall=%.1fs" % (
            self.pid, self.tier, self.cov["states"], self.cov["traces_validated_against_impl"],
            time.time() - self.t0))
        return 0


def main(fn):
    """Wrap a check entry point: Infra -> exit 2."""
    try:
        sys.exit(fn())
    except Infra as e:
        print("ERROR (machinery, not a verdict): %s" % e, file=sys.stderr)
        sys.exit(2)
    except SystemExit:
        raise
    except BaseException:
        import traceback
        traceback.print_exc()
        print("ERROR (machinery, not a verdict): unexpected exception in the check script", file=sys.stderr)
        sys.exit(2)


# --------------------------------------------------------------------------
# trace validation (binding T), sharded over JVMs
# --------------------------------------------------------------------------

def validate_trace(module, cfg, trace_path, shards=4, heap="3g", timeout=1800, workers=4,
                   trace_name="trace.ndjson", extra_data=None):
    """Validate an ndjson trace against spec/<module>.tla.  The trace spec explores
    one state per event (+ root) and prints {"reject": n, ...} for every event its
    Accept predicate rejects.  Returns (results, rejects) where rejects are 0-based
    global line numbers.  Raises Infra if the state count does not equal
    1 + #events (anti-vacuity: every line was judged)."""
    # split on "\n" only: str.splitlines() also splits on U+0085, U+2028 ... which may occur inside JSON strings
    lines = [l for l in open(trace_path, encoding="utf-8", errors="surrogateescape").read().split("\n") if l]
    n = len(lines)
    if n == 0:
        raise Infra("empty trace %s" % trace_path)
    shards = max(1, min(shards, (n + 199) // 200))
    # a shard's events live in the JVM as TLC values (~10x their JSON): keep shards below ~700k events
    # so that they fit the heap instead of thrashing it; tlc_parallel runs NCPU/2 of them at a time
    shards = max(shards, (n + 699999) // 700000)
    jobs, maps = [], []
    for s in range(shards):
        idx = list(range(s, n, shards))          # round-robin: balances heterogeneous traces
        if not idx:
            continue
        p = os.path.join(scratch(), "shard-%s-%d-%d.ndjson" % (module, os.getpid(), s))
        with open(p, "w") as f:
            f.write("\n".join(lines[i] for i in idx) + "\n")
        jobs.append(dict(module=module, cfg=cfg, data=dict(extra_data or {}, **{trace_name: p}), heap=heap,
                         timeout=timeout, workers=workers))
        maps.append(idx)
    results = tlc_parallel(jobs, max_procs=min(len(jobs), max(1, NCPU // 2)))
    rejects = []
    for r, idx in zip(results, maps):
        if r.violated:
            raise Infra("trace spec %s raised %s (trace specs only print rejects)" % (module, r.violated))
        if r.distinct != len(idx) + 1:
            raise Infra("trace spec %s judged %d of %d events (vacuous or broken trace)" % (
                module, r.distinct - 1, len(idx)))
        for pr in r.printed:
            if isinstance(pr, dict) and "reject" in pr:
                rejects.append((idx[int(pr["reject"]) - 1], pr))
    rejects.sort(key=lambda x: x[0])
    return results, rejects, lines
