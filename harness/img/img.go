// Package img builds real image.Image values of every standard type for the
// image-transform and conversion checks (C10, C15).
package img

import (
	"image"
	"image/color"
	"image/draw"
)

// Opaque hides the concrete type of an image (forces generic code paths).
type Opaque struct{ image.Image }

// OpaqueDraw hides the concrete type of a draw.Image.
type OpaqueDraw struct{ draw.Image }

var SrcKinds = []string{"RGBA64", "NRGBA64", "RGBA", "NRGBA", "YCbCr444", "YCbCr422", "YCbCr420", "YCbCr440",
	"YCbCr411", "YCbCr410", "Gray", "Gray16", "CMYK", "Paletted", "Opaque", "Alpha", "Alpha16", "NYCbCrA", "Uniform"}

// The 16 source types C10 lists come first; the rest are extra standard types for C15.
const NListedSrcKinds = 15

var DstKinds = []string{"RGBA64", "RGBA", "NRGBA", "NRGBA64", "OpaqueDraw"}

var ratios = map[string]image.YCbCrSubsampleRatio{
	"YCbCr444": image.YCbCrSubsampleRatio444, "YCbCr422": image.YCbCrSubsampleRatio422,
	"YCbCr420": image.YCbCrSubsampleRatio420, "YCbCr440": image.YCbCrSubsampleRatio440,
	"YCbCr411": image.YCbCrSubsampleRatio411, "YCbCr410": image.YCbCrSubsampleRatio410,
}

type rng struct{ x uint32 }

func (r *rng) next() byte {
	r.x ^= r.x << 13
	r.x ^= r.x >> 17
	r.x ^= r.x << 5
	return byte(r.x >> 9)
}

func fill(p []byte, seed uint32, extremes bool) {
	r := rng{seed*2654435761 + 12345}
	for i := range p {
		b := r.next()
		if extremes {
			switch r.next() % 5 {
			case 0:
				b = 0
			case 1:
				b = 255
			}
		}
		p[i] = b
	}
}

// premultiply makes channel <= alpha hold for premultiplied 8-bit layouts.
func premul8(p []byte) {
	for i := 0; i+3 < len(p); i += 4 {
		a := p[i+3]
		for c := 0; c < 3; c++ {
			if p[i+c] > a {
				p[i+c] = byte(uint16(p[i+c]) * uint16(a) / 255)
			}
		}
	}
}
func premul16(p []byte) {
	for i := 0; i+7 < len(p); i += 8 {
		a := uint32(p[i+6])<<8 | uint32(p[i+7])
		for c := 0; c < 3; c++ {
			v := uint32(p[i+2*c])<<8 | uint32(p[i+2*c+1])
			if v > a {
				v = v * a / 65535
				p[i+2*c], p[i+2*c+1] = byte(v>>8), byte(v)
			}
		}
	}
}

// New builds an image of the named kind covering r inside a parent that is
// larger by margins (l, t, r, b); the returned image is the sub-image for r and
// parent is the whole thing (they are identical when all margins are zero).
// Pixel contents are pseudo-random from seed (valid premultiplied data where
// the type requires it).
func New(kind string, r image.Rectangle, ml, mt, mr, mb int, seed uint32, extremes bool) (sub image.Image, parent image.Image) {
	pr := image.Rect(r.Min.X-ml, r.Min.Y-mt, r.Max.X+mr, r.Max.Y+mb)
	type subImager interface {
		SubImage(image.Rectangle) image.Image
	}
	var p image.Image
	switch kind {
	case "RGBA64":
		m := image.NewRGBA64(pr)
		fill(m.Pix, seed, extremes)
		premul16(m.Pix)
		p = m
	case "NRGBA64":
		m := image.NewNRGBA64(pr)
		fill(m.Pix, seed, extremes)
		p = m
	case "RGBA", "Opaque", "OpaqueDraw":
		m := image.NewRGBA(pr)
		fill(m.Pix, seed, extremes)
		premul8(m.Pix)
		p = m
	case "NRGBA":
		m := image.NewNRGBA(pr)
		fill(m.Pix, seed, extremes)
		p = m
	case "Gray":
		m := image.NewGray(pr)
		fill(m.Pix, seed, extremes)
		p = m
	case "Gray16":
		m := image.NewGray16(pr)
		fill(m.Pix, seed, extremes)
		p = m
	case "Alpha":
		m := image.NewAlpha(pr)
		fill(m.Pix, seed, extremes)
		p = m
	case "Alpha16":
		m := image.NewAlpha16(pr)
		fill(m.Pix, seed, extremes)
		p = m
	case "CMYK":
		m := image.NewCMYK(pr)
		fill(m.Pix, seed, extremes)
		p = m
	case "Paletted":
		pal := make(color.Palette, 0, 256)
		g := rng{seed + 77}
		for i := 0; i < 256; i++ {
			a := g.next()
			if i%3 == 0 {
				a = 255
			}
			pal = append(pal, color.NRGBA{g.next(), g.next(), g.next(), a})
		}
		m := image.NewPaletted(pr, pal)
		fill(m.Pix, seed, extremes)
		p = m
	case "NYCbCrA":
		m := image.NewNYCbCrA(pr, image.YCbCrSubsampleRatio420)
		fill(m.Y, seed, extremes)
		fill(m.Cb, seed+1, extremes)
		fill(m.Cr, seed+2, extremes)
		fill(m.A, seed+3, extremes)
		p = m
	case "Uniform":
		g := rng{seed}
		return image.NewUniform(color.NRGBA{g.next(), g.next(), g.next(), g.next()}), nil
	default:
		ratio, ok := ratios[kind]
		if !ok {
			panic("img: unknown kind " + kind)
		}
		m := image.NewYCbCr(pr, ratio)
		fill(m.Y, seed, extremes)
		fill(m.Cb, seed+1, extremes)
		fill(m.Cr, seed+2, extremes)
		p = m
	}
	s := p
	if pr != r {
		s = p.(subImager).SubImage(r)
	}
	switch kind {
	case "Opaque":
		return Opaque{s}, Opaque{p}
	case "OpaqueDraw":
		return OpaqueDraw{s.(draw.Image)}, OpaqueDraw{p.(draw.Image)}
	}
	return s, p
}

// Pix returns the backing bytes of the (parent) image, for byte-exact comparison.
func Pix(m image.Image) []byte {
	switch v := m.(type) {
	case *image.RGBA64:
		return v.Pix
	case *image.NRGBA64:
		return v.Pix
	case *image.RGBA:
		return v.Pix
	case *image.NRGBA:
		return v.Pix
	case *image.Gray:
		return v.Pix
	case *image.Gray16:
		return v.Pix
	case *image.CMYK:
		return v.Pix
	case *image.Paletted:
		return v.Pix
	case *image.Alpha:
		return v.Pix
	case *image.Alpha16:
		return v.Pix
	case *image.YCbCr:
		return append(append(append([]byte{}, v.Y...), v.Cb...), v.Cr...)
	case *image.NYCbCrA:
		return append(append(append(append([]byte{}, v.Y...), v.Cb...), v.Cr...), v.A...)
	case Opaque:
		return Pix(v.Image)
	case OpaqueDraw:
		return Pix(v.Image)
	}
	return nil
}

// BytesPerPixel of the interleaved layouts used as destinations.
func BytesPerPixel(m image.Image) int {
	switch v := m.(type) {
	case *image.RGBA64, *image.NRGBA64:
		return 8
	case *image.RGBA, *image.NRGBA:
		return 4
	case OpaqueDraw:
		return BytesPerPixel(v.Image)
	case Opaque:
		return BytesPerPixel(v.Image)
	}
	return 0
}
