// Package obs runs the real prism loaders against instrumented sources and
// projects what happened onto the abstract observations the TLA+ contracts
// (spec/LoadContract.tla) are written in.
package obs

import (
	"bytes"
	"errors"
	"fmt"
	"hash/fnv"
	"io"
	"runtime"
	"sync/atomic"
	"time"

	"github.com/mandykoh/prism/meta"
	"github.com/mandykoh/prism/meta/autometa"
	"github.com/mandykoh/prism/meta/jpegmeta"
	"github.com/mandykoh/prism/meta/pngmeta"
	"github.com/mandykoh/prism/meta/webpmeta"
)

// ErrInjected is the I/O error an instrumented source fails with.
var ErrInjected = errors.New("verif: injected I/O error")

type LoaderFn func(io.Reader) (*meta.Data, io.Reader, error)

var Loaders = map[string]LoaderFn{
	"png":  pngmeta.Load,
	"jpeg": jpegmeta.Load,
	"webp": webpmeta.Load,
	"auto": autometa.Load,
}

var LoaderNames = []string{"png", "jpeg", "webp", "auto"}

// Sched describes how a source segments its data.
//
//	Sizes: segment sizes, used cyclically when Cyclic, else the last one repeats
//	        (a trailing 0 means "whatever is asked for").
//	WithErr: the call that delivers the last byte also returns the terminal error.
type Sched struct {
	Name    string
	Sizes   []int
	Cyclic  bool
	WithErr bool
	Offset  int // Sizes apply from this stream offset on; before it reads are full
	// IdleEvery > 0: every IdleEvery-th call returns (0, nil) before anything else happens - allowed by
	// the io.Reader contract ("callers should treat a return of 0 and nil as indicating that nothing
	// happened"), and never twice in a row
	IdleEvery int
	IdleFirst bool // the very first call returns (0, nil): a source that has nothing yet, and says so politely
}

var Full = Sched{Name: "full"}

// Source is an instrumented io.Reader over data[:Cut] followed by Fail.
type Source struct {
	Data           []byte
	Tail           int // virtual bytes after Data (position-coded), for huge pixel payloads
	Cut            int // bytes delivered before the terminal condition
	Fail           error
	S              Sched
	Pos            int
	NReads         int
	MaxReq         int
	idx            int
	ZeroNil        int    // number of (0, nil) results returned (never, by construction)
	Rich           bool   // present as RichSource
	Pre            []byte // foreign bytes before the call position (rich only)
	Extra          int    // calls of methods other than Read
	DrainBuf       int    // size of the reads used to drain the returned stream (0: 32 KiB + 7)
	DrainCopyAfter int    // -1: Read to the end; k >= 0: Read k bytes, then io.Copy the rest
	Deliv          int    // bytes handed out in total, by whatever method (a rewound source has Pos < Deliv)
	TailFF         bool   // the virtual tail is a run of 0xFF bytes (JPEG fill bytes) instead of position-coded ones
}

func NewSource(data []byte, cut int, fail error, s Sched) *Source {
	if cut < 0 || cut > len(data) {
		cut = len(data)
	}
	if fail == nil {
		fail = io.EOF
	}
	return &Source{Data: data, Cut: cut, Fail: fail, S: s, DrainCopyAfter: -1}
}

// TailByte is the content of the virtual tail (never 0xFF, so it is inert
// inside JPEG entropy-coded data).
func TailByte(i int) byte { return byte((i*131 + 7) % 251) }

func (s *Source) at(i int) byte {
	if i < len(s.Data) {
		return s.Data[i]
	}
	if s.TailFF {
		return 0xFF
	}
	return TailByte(i - len(s.Data))
}

func (s *Source) Read(p []byte) (int, error) {
	s.NReads++
	if len(p) > s.MaxReq {
		s.MaxReq = len(p)
	}
	if s.Pos >= s.Cut {
		return 0, s.Fail
	}
	if len(p) == 0 {
		return 0, nil
	}
	if (s.S.IdleEvery > 0 && s.NReads%s.S.IdleEvery == 0) || (s.S.IdleFirst && s.NReads == 1) {
		s.ZeroNil++
		return 0, nil
	}
	n := len(p)
	if s.Pos >= s.S.Offset && len(s.S.Sizes) > 0 {
		var k int
		if s.S.Cyclic {
			k = s.S.Sizes[s.idx%len(s.S.Sizes)]
		} else if s.idx < len(s.S.Sizes) {
			k = s.S.Sizes[s.idx]
		} else {
			k = s.S.Sizes[len(s.S.Sizes)-1]
		}
		s.idx++
		if k > 0 && k < n {
			n = k
		}
	} else if s.Pos < s.S.Offset && s.Pos+n > s.S.Offset {
		n = s.S.Offset - s.Pos
	}
	if s.Pos+n > s.Cut {
		n = s.Cut - s.Pos
	}
	if s.Pos+n <= len(s.Data) {
		copy(p, s.Data[s.Pos:s.Pos+n])
	} else {
		for i := 0; i < n; i++ {
			p[i] = s.at(s.Pos + i)
		}
	}
	s.Pos += n
	s.Deliv += n
	if s.Pos == s.Cut && s.S.WithErr {
		return n, s.Fail
	}
	return n, nil
}

// RichSource is the same instrumented source presented the way *bytes.Reader and *os.File
// present themselves: besides io.Reader it offers Seek, ReadAt, WriteTo, ReadByte/UnreadByte,
// Len and Size, and it may be positioned after Pre bytes that are not part of the input (an
// image embedded in a larger stream).  "The original source" (C07) is what it yields from its
// position at the time of the call: offsets in Source stay relative to that position, and a
// loader that rewinds or re-reads through one of the extra methods gets exactly what such a
// source would give it.
type RichSource struct {
	*Source
	Pre []byte
}

func (r RichSource) Read(p []byte) (int, error) {
	if r.Pos < 0 {
		n := copy(p, r.Pre[len(r.Pre)+r.Pos:])
		r.Pos += n
		r.NReads++
		r.Deliv += n
		return n, nil
	}
	return r.Source.Read(p)
}

func (r RichSource) Seek(off int64, whence int) (int64, error) {
	r.Extra++
	base := int64(len(r.Pre))
	var abs int64
	switch whence {
	case io.SeekStart:
		abs = off
	case io.SeekCurrent:
		abs = base + int64(r.Pos) + off
	case io.SeekEnd:
		abs = base + int64(r.Cut) + off
	default:
		return 0, errors.New("verif: bad whence")
	}
	if abs < 0 {
		return 0, errors.New("verif: negative position")
	}
	r.Pos = int(abs - base)
	return abs, nil
}

func (r RichSource) ReadAt(p []byte, off int64) (int, error) {
	r.Extra++
	n := 0
	for ; n < len(p); n++ {
		i := int(off) + n - len(r.Pre)
		switch {
		case i < 0:
			p[n] = r.Pre[len(r.Pre)+i]
		case i < r.Cut:
			p[n] = r.at(i)
			r.Deliv++
		default:
			return n, r.Fail
		}
	}
	return n, nil
}

func (r RichSource) WriteTo(w io.Writer) (int64, error) {
	r.Extra++
	var total int64
	buf := make([]byte, 4096)
	for {
		n, err := r.Read(buf)
		if n > 0 {
			m, werr := w.Write(buf[:n])
			total += int64(m)
			if werr != nil {
				return total, werr
			}
		}
		if err == io.EOF {
			return total, nil
		}
		if err != nil {
			return total, err
		}
	}
}

func (r RichSource) ReadByte() (byte, error) {
	var b [1]byte
	for {
		n, err := r.Read(b[:])
		if n == 1 {
			return b[0], nil // (an error delivered with the byte is met again on the next call)
		}
		if err != nil {
			return 0, err
		}
	}
}

func (r RichSource) UnreadByte() error {
	r.Extra++
	if r.Pos+len(r.Pre) <= 0 {
		return errors.New("verif: at beginning")
	}
	r.Pos--
	return nil
}

func (r RichSource) Len() int {
	if r.Pos >= r.Cut {
		return 0
	}
	return r.Cut - r.Pos
}
func (r RichSource) Size() int64 { return int64(len(r.Pre) + r.Cut) }

// Reader is the value handed to the loader: the plain source, or its rich presentation.
func (s *Source) Reader() io.Reader {
	if s.Rich {
		return RichSource{s, s.Pre}
	}
	return s
}

// WithShape selects the presentation: "plain", "rich0" (rich, at offset 0), "rich5" (rich,
// positioned after five foreign bytes).
func (s *Source) WithShape(shape string) *Source {
	switch shape {
	case "rich0":
		s.Rich = true
	case "rich5":
		s.Rich, s.Pre = true, []byte{0x89, 'P', 'N', 'G', 0xff}
	}
	return s
}

// Obs is the abstract observation of one Load call (+ optional drain).
type Obs struct {
	Loader    string `json:"loader"`
	OK        bool   `json:"ok"`
	Err       string `json:"err,omitempty"`
	HasMD     bool   `json:"has_md"`
	Format    string `json:"format"`
	W         uint32 `json:"w"`
	H         uint32 `json:"h"`
	BPC       uint32 `json:"bpc"`
	ICC       string `json:"icc"` // "none" | "data" | "err" | "n/a"
	ICCLen    int    `json:"icc_len"`
	ICCHash   string `json:"icc_hash"`
	ICCErr    string `json:"icc_err,omitempty"`
	Pulled    int    `json:"pulled"`
	NReads    int    `json:"nreads"`
	MaxReq    int    `json:"maxreq"`
	Panic     string `json:"panic,omitempty"`
	StreamNil bool   `json:"stream_nil"`
	// drain
	Drained   bool   `json:"drained"`
	ReplayLen int    `json:"replay_len"`
	Prefix    int    `json:"prefix"`    // length of the common prefix of replay and original
	FinalErr  string `json:"final_err"` // "eof" | "ioerr" | "livelock" | "overrun" | "other:..."
	// resources
	AllocBytes uint64 `json:"alloc"`
	WallNs     int64  `json:"wall_ns"`
	iccData    []byte
	md         *meta.Data
}

func (o *Obs) ICCData() []byte { return o.iccData }
func (o *Obs) MD() *meta.Data  { return o.md }
func hashBytes(b []byte) string {
	h := fnv.New64a()
	h.Write(b)
	return fmt.Sprintf("%016x", h.Sum64())
}
func HashBytes(b []byte) string { return hashBytes(b) }

// Outcome is the schedule-independent part of an observation (C08, C19).
func (o *Obs) Outcome() string {
	if o.Panic != "" {
		return "panic"
	}
	if !o.OK {
		return "error"
	}
	return fmt.Sprintf("%s/%d/%d/%d/%s/%d/%s", o.Format, o.W, o.H, o.BPC, o.ICC, o.ICCLen, o.ICCHash)
}

func errKind(err error, fail error) string {
	switch {
	case err == io.EOF:
		return "eof"
	case err == ErrInjected || errors.Is(err, ErrInjected):
		return "ioerr"
	case err == nil:
		return "nil"
	case err == io.ErrUnexpectedEOF:
		return "uxeof"
	case err == io.ErrClosedPipe:
		return "closedpipe"
	}
	return "other:" + err.Error()
}

// Run calls the loader on src, optionally measuring allocation, and drains the
// returned stream when drain is set.
// LoadTimeout bounds one Load call (the largest inputs, 64 MiB delivered a byte at a time, take seconds).
var LoadTimeout = 150 * time.Second
var hangs int64

func Run(loader string, src *Source, drain bool, measure bool) (o Obs) {
	o.Loader = loader
	o.ICC = "n/a"
	fn := Loaders[loader]
	var md *meta.Data
	var stream io.Reader
	var err error
	var m0, m1 runtime.MemStats
	if measure {
		runtime.ReadMemStats(&m0)
	}
	t0 := time.Now()
	// the call runs under a watchdog: a Load that does not return (it returns in milliseconds when it
	// does) is recorded like a panic of the call; its goroutine is abandoned and no result of it is read
	type result struct {
		md     *meta.Data
		stream io.Reader
		err    error
		pan    string
	}
	timeout := LoadTimeout
	if n := atomic.LoadInt64(&hangs); n >= 20 {
		o.Panic = "not run: 20 earlier calls in this process did not return"
		o.StreamNil = true
		return
	} else if n > 0 {
		timeout = 5 * time.Second // the process is already known to hang: do not spend 150 s on every further case
	}
	done := make(chan result, 1)
	go func() {
		var r result
		defer func() {
			if rec := recover(); rec != nil {
				r.pan = fmt.Sprint(rec)
			}
			done <- r
		}()
		r.md, r.stream, r.err = fn(src.Reader())
	}()
	select {
	case r := <-done:
		md, stream, err, o.Panic = r.md, r.stream, r.err, r.pan
	case <-time.After(timeout):
		atomic.AddInt64(&hangs, 1)
		o.Panic = fmt.Sprintf("the call did not return within %v", timeout)
		o.WallNs = time.Since(t0).Nanoseconds()
		o.StreamNil = true
		return // src is still in use by the abandoned goroutine: its counters are not read
	}
	o.WallNs = time.Since(t0).Nanoseconds()
	if measure {
		runtime.ReadMemStats(&m1)
		o.AllocBytes = m1.TotalAlloc - m0.TotalAlloc
	}
	o.Pulled, o.NReads, o.MaxReq = src.Deliv, src.NReads, src.MaxReq // everything handed out, also what a rewind gave back
	if o.Panic != "" {
		o.StreamNil = true
		return
	}
	o.OK = err == nil
	if err != nil {
		o.Err = err.Error()
	}
	o.md = md
	if md != nil {
		o.HasMD = true
		o.Format, o.W, o.H, o.BPC = string(md.Format), md.PixelWidth, md.PixelHeight, md.BitsPerComponent
		data, ierr := md.ICCProfileData()
		switch {
		case ierr != nil:
			o.ICC, o.ICCErr = "err", ierr.Error()
			if data != nil {
				o.ICC = "err+data"
			}
		case data != nil:
			o.ICC, o.ICCLen, o.ICCHash, o.iccData = "data", len(data), hashBytes(data), data
		default:
			o.ICC = "none"
		}
		// the two accessors do not disturb one another: asking for the parsed profile (whether or not
		// the bytes parse) leaves the raw bytes and their error what they were
		var parsed interface{}
		var perr error
		parsedNil := true
		func() {
			defer func() { recover() }()
			p, e := md.ICCProfile()
			parsed, perr, parsedNil = p, e, p == nil
		}()
		_ = parsed
		data2, ierr2 := md.ICCProfileData()
		if (ierr2 == nil) != (ierr == nil) || !bytes.Equal(data2, data) {
			o.ICC = "mutated-after-later-loads"
			o.ICCErr = "ICCProfileData() differs after ICCProfile() was called on the same value"
		}
		// a damaged embedding is an error through either accessor; no embedding is (nil, nil) through both
		if (ierr != nil && data == nil && perr == nil) || (ierr == nil && data == nil && !(parsedNil && perr == nil)) {
			o.ICC = "mutated-after-later-loads"
			o.ICCErr = fmt.Sprintf("ICCProfile() gives (nil: %v, err: %v) where ICCProfileData() gives (nil, %v)", parsedNil, perr, ierr)
		}
		// the bytes handed out are the caller's: writing to them before the stream is read does not
		// change what the stream replays (the hash and the observation's copy are taken first)
		if drain && stream != nil && len(data) > 0 {
			o.iccData = append([]byte(nil), data...)
			for i := range data {
				data[i] ^= 0xA5
			}
		}
	}
	o.StreamNil = stream == nil
	if drain && stream != nil {
		Drain(&o, stream, src)
	}
	return
}

// RunReader calls the loader on an arbitrary reader and projects the outcome (no source
// statistics, no drain).
func RunReader(loader string, r io.Reader) (o Obs) {
	o.Loader = loader
	o.ICC = "n/a"
	var md *meta.Data
	var err error
	func() {
		defer func() {
			if r := recover(); r != nil {
				o.Panic = fmt.Sprint(r)
			}
		}()
		md, _, err = Loaders[loader](r)
	}()
	if o.Panic != "" {
		return
	}
	o.OK = err == nil
	if md != nil {
		o.HasMD = true
		o.Format, o.W, o.H, o.BPC = string(md.Format), md.PixelWidth, md.PixelHeight, md.BitsPerComponent
		data, ierr := md.ICCProfileData()
		switch {
		case ierr != nil:
			o.ICC = "err"
		case data != nil:
			o.ICC, o.ICCLen, o.ICCHash = "data", len(data), hashBytes(data)
		default:
			o.ICC = "none"
		}
	}
	return
}

// Drain reads the replay stream to its end, comparing with the original.
func Drain(o *Obs, stream io.Reader, src *Source) {
	o.Drained = true
	defer func() {
		if r := recover(); r != nil {
			o.Panic = "drain: " + fmt.Sprint(r)
		}
	}()
	bs := src.DrainBuf
	if bs <= 0 {
		bs = 32*1024 + 7
	}
	buf := make([]byte, bs)
	pos, match, zero := 0, true, 0
	limit := src.Cut + (1 << 20)
	check := func(b []byte) {
		for i := range b {
			if match && (pos+i >= src.Cut || b[i] != src.at(pos+i)) {
				match = false
				o.Prefix = pos + i
			}
		}
		pos += len(b)
	}
	// DrainCopyAfter >= 0: read that many bytes with Read, then hand the rest to io.Copy (which
	// uses the stream's WriteTo when it offers one) - the caller may consume the stream any way
	for src.DrainCopyAfter < 0 || pos < src.DrainCopyAfter {
		want := buf
		if src.DrainCopyAfter >= 0 && src.DrainCopyAfter-pos < len(want) {
			want = want[:src.DrainCopyAfter-pos]
		}
		n, err := stream.Read(want)
		check(want[:n])
		if err != nil {
			o.FinalErr = errKind(err, src.Fail)
			o.ReplayLen = pos
			if match {
				o.Prefix = pos
			}
			return
		}
		if n == 0 {
			zero++
			if zero > 1000 {
				o.FinalErr = "livelock"
				break
			}
		} else {
			zero = 0
		}
		if pos > limit {
			o.FinalErr = "overrun"
			break
		}
	}
	if o.FinalErr == "" {
		w := &checkWriter{check: check, limit: limit, pos: &pos}
		_, err := io.Copy(w, stream)
		switch {
		case err == errOverrun:
			o.FinalErr = "overrun"
		case err == nil:
			o.FinalErr = "eof" // io.Copy reports a clean end of stream as nil
		default:
			o.FinalErr = errKind(err, src.Fail)
		}
	}
	o.ReplayLen = pos
	if match {
		o.Prefix = pos
	}
}

var errOverrun = errors.New("verif: replay longer than the input")

type checkWriter struct {
	check func([]byte)
	limit int
	pos   *int
}

func (w *checkWriter) Write(b []byte) (int, error) {
	w.check(b)
	if *w.pos > w.limit {
		return len(b), errOverrun
	}
	return len(b), nil
}

// Compositions enumerates all ordered compositions of n (2^(n-1) of them) as
// segment-size lists; the final 0 lets the rest of the stream flow freely.
func Compositions(n int) [][]int {
	var out [][]int
	for mask := 0; mask < 1<<(n-1); mask++ {
		var parts []int
		run := 1
		for i := 0; i < n-1; i++ {
			if mask>>i&1 == 1 {
				parts = append(parts, run)
				run = 1
			} else {
				run++
			}
		}
		parts = append(parts, run, 0)
		out = append(out, parts)
	}
	return out
}
