// Package obs runs the real prism loaders against instrumented sources and
// projects what happened onto the abstract observations the TLA+ contracts
// (spec/LoadContract.tla) are written in.
package obs

import (
	"errors"
	"fmt"
	"hash/fnv"
	"io"
	"runtime"
	"time"

	"github.com/mandykoh/prism/meta"
	"github.com/mandykoh/prism/meta/autometa"
	"github.com/mandykoh/prism/meta/jpegmeta"
	"github.com/mandykoh/prism/meta/pngmeta"
	"github.com/mandykoh/prism/meta/webpmeta"
)

// ErrInjected is the I/O error an instrumented source fails with.
var ErrInjected = errors.New("verif: injected I/O error")

type LoaderFn func(io.Reader) (*meta.Data, io.Reader, error)

var Loaders = map[string]LoaderFn{
	"png":  pngmeta.Load,
	"jpeg": jpegmeta.Load,
	"webp": webpmeta.Load,
	"auto": autometa.Load,
}

var LoaderNames = []string{"png", "jpeg", "webp", "auto"}

// Sched describes how a source segments its data.
//
//	Sizes: segment sizes, used cyclically when Cyclic, else the last one repeats
//	        (a trailing 0 means "whatever is asked for").
//	WithErr: the call that delivers the last byte also returns the terminal error.
type Sched struct {
	Name    string
	Sizes   []int
	Cyclic  bool
	WithErr bool
	Offset  int // Sizes apply from this stream offset on; before it reads are full
}

var Full = Sched{Name: "full"}

// Source is an instrumented io.Reader over data[:Cut] followed by Fail.
type Source struct {
	Data    []byte
	Tail    int // virtual bytes after Data (position-coded), for huge pixel payloads
	Cut     int // bytes delivered before the terminal condition
	Fail    error
	S       Sched
	Pos     int
	NReads  int
	MaxReq  int
	idx     int
	ZeroNil int // number of (0, nil) results returned (never, by construction)
}

func NewSource(data []byte, cut int, fail error, s Sched) *Source {
	if cut < 0 || cut > len(data) {
		cut = len(data)
	}
	if fail == nil {
		fail = io.EOF
	}
	return &Source{Data: data, Cut: cut, Fail: fail, S: s}
}

// TailByte is the content of the virtual tail (never 0xFF, so it is inert
// inside JPEG entropy-coded data).
func TailByte(i int) byte { return byte((i*131 + 7) % 251) }

func (s *Source) at(i int) byte {
	if i < len(s.Data) {
		return s.Data[i]
	}
	return TailByte(i - len(s.Data))
}

func (s *Source) Read(p []byte) (int, error) {
	s.NReads++
	if len(p) > s.MaxReq {
		s.MaxReq = len(p)
	}
	if s.Pos >= s.Cut {
		return 0, s.Fail
	}
	if len(p) == 0 {
		return 0, nil
	}
	n := len(p)
	if s.Pos >= s.S.Offset && len(s.S.Sizes) > 0 {
		var k int
		if s.S.Cyclic {
			k = s.S.Sizes[s.idx%len(s.S.Sizes)]
		} else if s.idx < len(s.S.Sizes) {
			k = s.S.Sizes[s.idx]
		} else {
			k = s.S.Sizes[len(s.S.Sizes)-1]
		}
		s.idx++
		if k > 0 && k < n {
			n = k
		}
	} else if s.Pos < s.S.Offset && s.Pos+n > s.S.Offset {
		n = s.S.Offset - s.Pos
	}
	if s.Pos+n > s.Cut {
		n = s.Cut - s.Pos
	}
	if s.Pos+n <= len(s.Data) {
		copy(p, s.Data[s.Pos:s.Pos+n])
	} else {
		for i := 0; i < n; i++ {
			p[i] = s.at(s.Pos + i)
		}
	}
	s.Pos += n
	if s.Pos == s.Cut && s.S.WithErr {
		return n, s.Fail
	}
	return n, nil
}

// Obs is the abstract observation of one Load call (+ optional drain).
type Obs struct {
	Loader    string `json:"loader"`
	OK        bool   `json:"ok"`
	Err       string `json:"err,omitempty"`
	HasMD     bool   `json:"has_md"`
	Format    string `json:"format"`
	W         uint32 `json:"w"`
	H         uint32 `json:"h"`
	BPC       uint32 `json:"bpc"`
	ICC       string `json:"icc"` // "none" | "data" | "err" | "n/a"
	ICCLen    int    `json:"icc_len"`
	ICCHash   string `json:"icc_hash"`
	ICCErr    string `json:"icc_err,omitempty"`
	Pulled    int    `json:"pulled"`
	NReads    int    `json:"nreads"`
	MaxReq    int    `json:"maxreq"`
	Panic     string `json:"panic,omitempty"`
	StreamNil bool   `json:"stream_nil"`
	// drain
	Drained   bool   `json:"drained"`
	ReplayLen int    `json:"replay_len"`
	Prefix    int    `json:"prefix"`    // length of the common prefix of replay and original
	FinalErr  string `json:"final_err"` // "eof" | "ioerr" | "livelock" | "overrun" | "other:..."
	// resources
	AllocBytes uint64 `json:"alloc"`
	WallNs     int64  `json:"wall_ns"`
	iccData    []byte
	md         *meta.Data
}

func (o *Obs) ICCData() []byte   { return o.iccData }
func (o *Obs) MD() *meta.Data    { return o.md }
func hashBytes(b []byte) string {
	h := fnv.New64a()
	h.Write(b)
	return fmt.Sprintf("%016x", h.Sum64())
}
func HashBytes(b []byte) string { return hashBytes(b) }

// Outcome is the schedule-independent part of an observation (C08, C19).
func (o *Obs) Outcome() string {
	if o.Panic != "" {
		return "panic"
	}
	if !o.OK {
		return "error"
	}
	return fmt.Sprintf("%s/%d/%d/%d/%s/%d/%s", o.Format, o.W, o.H, o.BPC, o.ICC, o.ICCLen, o.ICCHash)
}

func errKind(err error, fail error) string {
	switch {
	case err == io.EOF:
		return "eof"
	case err == ErrInjected || errors.Is(err, ErrInjected):
		return "ioerr"
	case err == nil:
		return "nil"
	}
	return "other:" + err.Error()
}

// Run calls the loader on src, optionally measuring allocation, and drains the
// returned stream when drain is set.
func Run(loader string, src *Source, drain bool, measure bool) (o Obs) {
	o.Loader = loader
	o.ICC = "n/a"
	fn := Loaders[loader]
	var md *meta.Data
	var stream io.Reader
	var err error
	var m0, m1 runtime.MemStats
	if measure {
		runtime.ReadMemStats(&m0)
	}
	t0 := time.Now()
	func() {
		defer func() {
			if r := recover(); r != nil {
				o.Panic = fmt.Sprint(r)
			}
		}()
		md, stream, err = fn(src)
	}()
	o.WallNs = time.Since(t0).Nanoseconds()
	if measure {
		runtime.ReadMemStats(&m1)
		o.AllocBytes = m1.TotalAlloc - m0.TotalAlloc
	}
	o.Pulled, o.NReads, o.MaxReq = src.Pos, src.NReads, src.MaxReq
	if o.Panic != "" {
		o.StreamNil = true
		return
	}
	o.OK = err == nil
	if err != nil {
		o.Err = err.Error()
	}
	o.md = md
	if md != nil {
		o.HasMD = true
		o.Format, o.W, o.H, o.BPC = string(md.Format), md.PixelWidth, md.PixelHeight, md.BitsPerComponent
		data, ierr := md.ICCProfileData()
		switch {
		case ierr != nil:
			o.ICC, o.ICCErr = "err", ierr.Error()
			if data != nil {
				o.ICC = "err+data"
			}
		case data != nil:
			o.ICC, o.ICCLen, o.ICCHash, o.iccData = "data", len(data), hashBytes(data), data
		default:
			o.ICC = "none"
		}
	}
	o.StreamNil = stream == nil
	if drain && stream != nil {
		Drain(&o, stream, src)
	}
	return
}

// Drain reads the replay stream to its end, comparing with the original.
func Drain(o *Obs, stream io.Reader, src *Source) {
	o.Drained = true
	defer func() {
		if r := recover(); r != nil {
			o.Panic = "drain: " + fmt.Sprint(r)
		}
	}()
	buf := make([]byte, 32*1024+7)
	pos, match, zero := 0, true, 0
	limit := src.Cut + (1 << 20)
	for {
		n, err := stream.Read(buf)
		for i := 0; i < n; i++ {
			if match && (pos+i >= src.Cut || buf[i] != src.at(pos+i)) {
				match = false
				o.Prefix = pos + i
			}
		}
		pos += n
		if err != nil {
			o.FinalErr = errKind(err, src.Fail)
			break
		}
		if n == 0 {
			zero++
			if zero > 1000 {
				o.FinalErr = "livelock"
				break
			}
		} else {
			zero = 0
		}
		if pos > limit {
			o.FinalErr = "overrun"
			break
		}
	}
	o.ReplayLen = pos
	if match {
		o.Prefix = pos
	}
}

// Compositions enumerates all ordered compositions of n (2^(n-1) of them) as
// segment-size lists; the final 0 lets the rest of the stream flow freely.
func Compositions(n int) [][]int {
	var out [][]int
	for mask := 0; mask < 1<<(n-1); mask++ {
		var parts []int
		run := 1
		for i := 0; i < n-1; i++ {
			if mask>>i&1 == 1 {
				parts = append(parts, run)
				run = 1
			} else {
				run++
			}
		}
		parts = append(parts, run, 0)
		out = append(out, parts)
	}
	return out
}
