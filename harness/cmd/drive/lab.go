package main

import (
	"flag"
	"fmt"
	"math"
	"math/big"
	"math/rand"
	"path/filepath"

	"github.com/mandykoh/prism/cielab"
	"github.com/mandykoh/prism/ciexyz"

	"verif/harness/numlog"
)

func init() { commands["lab"] = labCmd }

func dy3(a, b, c float32) []dy {
	return []dy{dyadic(float64(a)), dyadic(float64(b)), dyadic(float64(c))}
}

func finite3(a, b, c float32) bool {
	for _, v := range []float32{a, b, c} {
		if math.IsNaN(float64(v)) || math.IsInf(float64(v), 0) {
			return false
		}
	}
	return true
}

func labCmd(args []string) error {
	fs := flag.NewFlagSet("lab", flag.ExitOnError)
	outDir := fs.String("out", "", "")
	tier := fs.String("tier", "quick", "")
	seed := fs.Int64("seed", 1, "")
	fs.Parse(args)
	sink, done, err := newSink(filepath.Join(*outDir, "c13.ndjson"))
	if err != nil {
		return err
	}
	defer done()
	rng := rand.New(rand.NewSource(*seed))
	whites := []ciexyz.Color{ciexyz.D50, ciexyz.D65}
	nw := 2
	if *tier == "thorough" {
		nw = 8
	}
	for i := 0; i < nw; i++ {
		whites = append(whites, ciexyz.Color{X: 0.5 + rng.Float32(), Y: 0.6 + 0.8*rng.Float32(), Z: 0.3 + 1.2*rng.Float32()})
	}
	emitLab := func(c, w ciexyz.Color, prev *float32) float32 {
		l := c.ToLAB(w)
		hint := func(v, wp float32) []int { // untrusted estimate of floor(cbrt(v/wp) * 10^10)
			r := float64(v) / float64(wp)
			if !(r > 0) {
				return []int{}
			}
			return numlog.Limbs(new(big.Int).SetUint64(uint64(math.Cbrt(r) * 1e10)))
		}
		ev := dy{"kind": "lab", "v": dy3(c.X, c.Y, c.Z), "w": dy3(w.X, w.Y, w.Z), "o": obs3(l.L, l.A, l.B),
			"hint":      [][]int{hint(c.X, w.X), hint(c.Y, w.Y), hint(c.Z, w.Z)},
			"nonfinite": !finite3(l.L, l.A, l.B), "has_prev": prev != nil, "prev_l": obsv(0)}
		if prev != nil {
			ev["prev_l"] = obsv(float64(*prev))
		}
		sink.put(ev)
		// and back
		x := ciexyz.ColorFromLAB(l, w)
		sink.put(dy{"kind": "labrt", "v": dy3(c.X, c.Y, c.Z), "w": dy3(w.X, w.Y, w.Z), "o": obs3(x.X, x.Y, x.Z), "nonfinite": !finite3(x.X, x.Y, x.Z)})
		return l.L
	}
	emitInv := func(l cielab.Color, w ciexyz.Color) {
		x := ciexyz.ColorFromLAB(l, w)
		sink.put(dy{"kind": "labinv", "lab": dy3(l.L, l.A, l.B), "w": dy3(w.X, w.Y, w.Z), "o": obs3(x.X, x.Y, x.Z), "nonfinite": !finite3(x.X, x.Y, x.Z)})
	}
	nl, ns := 6, 400
	if *tier == "thorough" {
		nl, ns = 24, 20000
	}
	const r0 = 216.0 / 24389.0
	// the same colour under one white after another, and the same Lab value back under one white
	// after another (a conversion is a function of BOTH its arguments, whatever came before)
	for i := 0; i < 60; i++ {
		c := ciexyz.Color{X: rng.Float32() * 1.2, Y: rng.Float32() * 1.2, Z: rng.Float32() * 1.2}
		if i%4 == 0 {
			c = whites[i/4%len(whites)] // each white as a colour: (100, 0, 0) under itself only
		}
		for _, w := range whites {
			emitLab(c, w, nil)
		}
		l := cielab.Color{L: 100 * rng.Float32(), A: 100*rng.Float32() - 50, B: 100*rng.Float32() - 50}
		for _, w := range whites {
			emitInv(l, w)
		}
	}
	for _, w := range whites {
		// the white itself, multiples of it (greys), black
		for _, t := range []float32{1, 0, 0.5, 0.18, 2, 0.001, float32(r0), 0.0088, 0.0089} {
			emitLab(ciexyz.Color{X: t * w.X, Y: t * w.Y, Z: t * w.Z}, w, nil)
		}
		// near-neutral colours: a multiple of the white with one component off by a few parts in 10^5
		// (true a*, b* between 1e-3 and 1e-2: not zero, and not to be rounded to zero)
		for i := 0; i < 120; i++ {
			t := 0.05 + 1.2*rng.Float32()
			c := ciexyz.Color{X: t * w.X, Y: t * w.Y, Z: t * w.Z}
			d := 1 + float32(1+rng.Intn(40))*1e-5*float32(1-2*(i%2))
			switch i % 3 {
			case 0:
				c.X *= d
			case 1:
				c.Y *= d
			case 2:
				c.Z *= d
			}
			emitLab(c, w, nil)
		}
		// lattice over [-0.5, 2]^3
		for i := 0; i < nl; i++ {
			for j := 0; j < nl; j++ {
				for k := 0; k < nl; k++ {
					f := func(n int) float32 { return float32(-0.5 + 2.5*float64(n)/float64(nl-1)) }
					emitLab(ciexyz.Color{X: f(i), Y: f(j), Z: f(k)}, w, nil)
				}
			}
		}
		for i := 0; i < ns; i++ {
			emitLab(ciexyz.Color{X: rng.Float32()*2.5 - 0.5, Y: rng.Float32()*2.5 - 0.5, Z: rng.Float32()*2.5 - 0.5}, w, nil)
		}
		// dense sweeps through the junction ratio on each axis, with L monotone in Y
		steps := 200
		if *tier == "thorough" {
			steps = 2000
		}
		for axis := 0; axis < 3; axis++ {
			var prev *float32
			for s := -steps / 2; s <= steps/2; s++ {
				r := r0 + 1e-6*float64(s)/float64(steps/2)
				c := ciexyz.Color{X: 0.3 * w.X, Y: 0.3 * w.Y, Z: 0.3 * w.Z}
				switch axis {
				case 0:
					c.X = float32(r * float64(w.X))
				case 1:
					c.Y = float32(r * float64(w.Y))
				case 2:
					c.Z = float32(r * float64(w.Z))
				}
				l := emitLab(c, w, prev)
				if axis == 1 {
					lv := l
					prev = &lv
				}
			}
			// float32 neighbours of the junction
			base := float32(r0 * float64([]float32{w.X, w.Y, w.Z}[axis]))
			b := math.Float32bits(base)
			for d := -32; d <= 32; d++ {
				c := ciexyz.Color{X: 0.4 * w.X, Y: 0.4 * w.Y, Z: 0.4 * w.Z}
				v := math.Float32frombits(uint32(int64(b) + int64(d)))
				switch axis {
				case 0:
					c.X = v
				case 1:
					c.Y = v
				case 2:
					c.Z = v
				}
				emitLab(c, w, nil)
			}
		}
		// L monotone in Y over the whole range
		var prev *float32
		for s := 0; s <= 400; s++ {
			y := float32(-0.5 + 2.5*float64(s)/400)
			l := emitLab(ciexyz.Color{X: 0.4, Y: y, Z: 0.6}, w, prev)
			lv := l
			prev = &lv
		}
		// Lab -> XYZ against the definition: lattice over L in [-10,110], a, b in [-200,200]
		for i := 0; i < nl; i++ {
			for j := 0; j < nl; j++ {
				for k := 0; k < nl; k++ {
					emitInv(cielab.Color{L: float32(-10 + 120*float64(i)/float64(nl-1)), A: float32(-200 + 400*float64(j)/float64(nl-1)), B: float32(-200 + 400*float64(k)/float64(nl-1))}, w)
				}
			}
		}
		for i := 0; i < ns; i++ {
			emitInv(cielab.Color{L: rng.Float32()*120 - 10, A: rng.Float32()*400 - 200, B: rng.Float32()*400 - 200}, w)
		}
		for _, l := range []float32{8, 7.9999995, 8.000001, 0, 100, -10, 110} {
			emitInv(cielab.Color{L: l, A: 0, B: 0}, w)
		}
	}
	fmt.Printf("{\"c13\":%d}\n", sink.n)
	return nil
}
