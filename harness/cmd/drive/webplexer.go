package main

import (
	"bufio"
	"bytes"
	"encoding/binary"
	"encoding/json"
	"flag"
	"fmt"
	"io"
	"os"
	"testing/iotest"

	"github.com/mandykoh/prism/meta"
	"github.com/mandykoh/prism/meta/autometa"
	"github.com/mandykoh/prism/meta/webpmeta"
)

func init() { commands["webplexer"] = webpLexerCmd }

// webpLexerCmd replays the cases printed by spec/WebpLexer.tla on the real WebP loader (and the
// auto loader): fixed byte layouts per kind of chunk, the input cut after `cut` bytes, a source
// that delivers one byte per Read so that the bytes taken from it are the parser's own.
func webpLexerCmd(args []string) error {
	fs := flag.NewFlagSet("webplexer", flag.ExitOnError)
	casesPath := fs.String("cases", "", "ndjson printed by TLC")
	fs.Parse(args)
	f, err := os.Open(*casesPath)
	if err != nil {
		return err
	}
	defer f.Close()
	type wcase struct {
		Tag    string `json:"tag"`
		Form   string `json:"form"`
		First  string `json:"first"`
		Second string `json:"second"`
		Cut    int    `json:"cut"`
		Res    string `json:"res"`
		W      uint32 `json:"w"`
		H      uint32 `json:"h"`
		Icc    string `json:"icc"`
		Taken  int    `json:"taken"`
	}
	chunk := func(typ string, declared int, payload []byte) []byte {
		var b bytes.Buffer
		b.WriteString(typ)
		binary.Write(&b, binary.LittleEndian, uint32(declared))
		b.Write(payload)
		return b.Bytes()
	}
	profiles := map[string][]byte{"q3": {0x31, 0x32, 0x33}, "q4": {0x41, 0x42, 0x43, 0x44}}
	firsts := map[string][]byte{
		"VP8ok":     chunk("VP8 ", 12, []byte{0x10, 0x02, 0x00, 0x9d, 0x01, 0x2a, 0x34, 0x52, 0x21, 0x83, 0xEE, 0xEF}),
		"VP8bad":    chunk("VP8 ", 12, []byte{0x10, 0x02, 0x00, 0x9d, 0x01, 0x2b, 0x34, 0x52, 0x21, 0x83, 0xEE, 0xEF}),
		"VP8Lok":    chunk("VP8L", 6, []byte{0x2f, 0x55, 0x81, 0xAA, 0x10, 0xEE}),
		"VP8Lbad":   chunk("VP8L", 6, []byte{0x2e, 0x55, 0x81, 0xAA, 0x10, 0xEE}),
		"VP8Xicc":   chunk("VP8X", 10, []byte{0x20, 0, 0, 0, 0x03, 0x02, 0x01, 0x06, 0x05, 0x04}),
		"VP8Xnoicc": chunk("VP8X", 10, []byte{0x10, 0, 0, 0, 0x03, 0x02, 0x01, 0x06, 0x05, 0x04}),
		"VP8X12":    chunk("VP8X", 12, []byte{0x20, 0, 0, 0, 0x03, 0x02, 0x01, 0x06, 0x05, 0x04, 0, 0}),
		"JUNK":      chunk("ABCD", 4, []byte{1, 2, 3, 4}),
	}
	seconds := map[string][]byte{
		"none":  nil,
		"ICCP3": chunk("ICCP", 3, append(append([]byte{}, profiles["q3"]...), 0)), // odd length: one pad byte
		"ICCP4": chunk("ICCP", 4, profiles["q4"]),
		"EXIF2": chunk("EXIF", 2, []byte{0x4d, 0x4d}),
	}
	type loader struct {
		name string
		load func(io.Reader) (*meta.Data, io.Reader, error)
	}
	loaders := []loader{{"webpmeta", webpmeta.Load}, {"autometa", autometa.Load}}
	mism, ncases, nloads := 0, 0, 0
	sc := bufio.NewScanner(f)
	sc.Buffer(make([]byte, 1<<20), 1<<24)
	for sc.Scan() {
		var c wcase
		if err := json.Unmarshal(sc.Bytes(), &c); err != nil {
			return err
		}
		ncases++
		f1, ok1 := firsts[c.First]
		f2, ok2 := seconds[c.Second]
		if !ok1 || !ok2 {
			return fmt.Errorf("unknown chunk kind in %s", sc.Text())
		}
		body := append(append([]byte{}, f1...), f2...)
		var b bytes.Buffer
		b.WriteString(c.Tag)
		binary.Write(&b, binary.LittleEndian, uint32(4+len(body)))
		b.WriteString(c.Form)
		b.Write(body)
		data := b.Bytes()
		if c.Cut > len(data) {
			return fmt.Errorf("cut %d beyond the %d bytes of the input: the layouts disagree with the specification's sizes", c.Cut, len(data))
		}
		data = data[:c.Cut]
		for _, ld := range loaders {
			nloads++
			under := bytes.NewReader(data)
			md, stream, err := ld.load(iotest.OneByteReader(under))
			taken := len(data) - under.Len()
			got := wcase{Res: "ok", Icc: "none", Taken: taken}
			if err != nil || md == nil {
				got.Res = "fail"
				if (err == nil) != (md != nil) {
					got.Res = "inconsistent"
				}
			} else {
				got.W, got.H = md.PixelWidth, md.PixelHeight
				if md.BitsPerComponent != 8 || md.Format != webpmeta.Format {
					got.Res = fmt.Sprintf("ok-but-depth-%d-format-%s", md.BitsPerComponent, md.Format)
				}
				p, perr := md.ICCProfileData()
				switch {
				case perr != nil:
					got.Icc = "err"
				case p == nil:
					got.Icc = "none"
				case bytes.Equal(p, profiles["q3"]):
					got.Icc = "q3"
				case bytes.Equal(p, profiles["q4"]):
					got.Icc = "q4"
				default:
					got.Icc = fmt.Sprintf("other:%x", p)
				}
			}
			ok := got.Res == c.Res && got.W == c.W && got.H == c.H && got.Icc == c.Icc
			if ld.name == "webpmeta" {
				ok = ok && taken == c.Taken
			} else if c.Res == "ok" {
				ok = ok && taken >= c.Taken
			}
			rest, rerr := io.ReadAll(stream)
			ok = ok && rerr == nil && bytes.Equal(rest, data)
			if !ok {
				if mism++; mism <= 40 {
					js, _ := json.Marshal(map[string]interface{}{"mismatch": map[string]interface{}{"loader": ld.name,
						"got": got, "want": c, "replayed": len(rest), "err": fmt.Sprint(err)}})
					fmt.Println(string(js))
				}
			}
		}
	}
	js, _ := json.Marshal(map[string]interface{}{"summary": true, "cases": ncases, "loads": nloads, "mismatches": mism})
	fmt.Println(string(js))
	return nil
}
