package main

import (
	"bufio"
	"bytes"
	"encoding/json"
	"flag"
	"fmt"
	"io"
	"os"
	"strings"
	"testing/iotest"

	"github.com/mandykoh/prism/meta/jpegmeta"
)

func init() { commands["jpeglexer"] = jpegLexerCmd }

// jpegLexerCmd replays the sessions printed by spec/JpegLexer.tla on the real segment reader
// (jpegmeta.NewSegmentReader): every ReadSegment call's marker code, declared data length, data
// bytes, error class and the number of bytes consumed so far must be the model's.
func jpegLexerCmd(args []string) error {
	fs := flag.NewFlagSet("jpeglexer", flag.ExitOnError)
	casesPath := fs.String("cases", "", "ndjson printed by TLC")
	fs.Parse(args)
	f, err := os.Open(*casesPath)
	if err != nil {
		return err
	}
	defer f.Close()
	type call struct {
		Code int    `json:"code"`
		DLen int    `json:"dlen"`
		Data []int  `json:"data"`
		Err  string `json:"err"`
		Pos  int    `json:"pos"`
	}
	type lcase struct {
		Inp   []int  `json:"inp"`
		Calls []call `json:"calls"`
	}
	errClass := func(e error) string {
		switch {
		case e == nil:
			return "nil"
		case e == io.EOF:
			return "eof"
		case e == io.ErrUnexpectedEOF:
			return "uxeof"
		case strings.HasPrefix(e.Error(), "invalid marker identifier"):
			return "invalid"
		case strings.HasPrefix(e.Error(), "unrecognised marker type"):
			return "unrecognised"
		}
		return "other:" + e.Error()
	}
	mism, ncases, ncalls := 0, 0, 0
	sc := bufio.NewScanner(f)
	sc.Buffer(make([]byte, 1<<20), 1<<24)
	for sc.Scan() {
		var c lcase
		if err := json.Unmarshal(sc.Bytes(), &c); err != nil {
			return err
		}
		ncases++
		data := make([]byte, len(c.Inp))
		for i, v := range c.Inp {
			data[i] = byte(v)
		}
		for _, kind := range []string{"bytes.Reader", "bufio/1"} {
			under := bytes.NewReader(data)
			var br *bufio.Reader
			consumed := func() int { return len(data) - under.Len() }
			var read func() (code, dlen int, dat []byte, err error)
			if kind == "bytes.Reader" {
				r := jpegmeta.NewSegmentReader(under)
				read = func() (int, int, []byte, error) {
					seg, err := r.ReadSegment()
					return int(seg.Marker.Type), seg.Marker.DataLength, seg.Data, err
				}
			} else {
				br = bufio.NewReader(iotest.OneByteReader(under))
				r := jpegmeta.NewSegmentReader(br)
				read = func() (int, int, []byte, error) {
					seg, err := r.ReadSegment()
					return int(seg.Marker.Type), seg.Marker.DataLength, seg.Data, err
				}
				consumed = func() int { return len(data) - under.Len() - br.Buffered() }
			}
			for ci, cl := range c.Calls {
				ncalls++
				code, dlen, dat, err := read()
				want := make([]byte, len(cl.Data))
				for i, v := range cl.Data {
					want[i] = byte(v)
				}
				ok := errClass(err) == cl.Err && consumed() == cl.Pos
				if cl.Err == "nil" {
					ok = ok && code == cl.Code && dlen == cl.DLen && bytes.Equal(dat, want)
				}
				if !ok {
					if mism++; mism <= 40 {
						js, _ := json.Marshal(map[string]interface{}{"mismatch": map[string]interface{}{"inp": c.Inp, "reader": kind, "call": ci + 1,
							"got":  map[string]interface{}{"code": code, "dlen": dlen, "data": dat, "err": errClass(err), "consumed": consumed()},
							"want": map[string]interface{}{"code": cl.Code, "dlen": cl.DLen, "data": want, "err": cl.Err, "consumed": cl.Pos}}})
						fmt.Println(string(js))
					}
					break
				}
			}
		}
	}
	js, _ := json.Marshal(map[string]interface{}{"summary": true, "cases": ncases, "calls": ncalls, "mismatches": mism})
	fmt.Println(string(js))
	return nil
}
