package main

import (
	"bytes"
	"flag"
	"fmt"
	"image"
	"image/color"
	"image/draw"
	"os"
	"path/filepath"
	"reflect"
	"strings"
	"time"

	"github.com/mandykoh/prism"

	"verif/harness/img"
)

func init() { commands["imageconv"] = imageconvCmd }

type helper struct {
	name string
	dk   string
	run  func(m image.Image, par int) image.Image
	mk   func(r image.Rectangle) draw.Image
}

var helpers = []helper{
	{"ConvertImageToNRGBA", "NRGBA", func(m image.Image, p int) image.Image { return prism.ConvertImageToNRGBA(m, p) },
		func(r image.Rectangle) draw.Image { return image.NewNRGBA(r) }},
	{"ConvertImageToRGBA", "RGBA", func(m image.Image, p int) image.Image { return prism.ConvertImageToRGBA(m, p) },
		func(r image.Rectangle) draw.Image { return image.NewRGBA(r) }},
	{"ConvertImageToRGBA64", "RGBA64", func(m image.Image, p int) image.Image { return prism.ConvertImageToRGBA64(m, p) },
		func(r image.Rectangle) draw.Image { return image.NewRGBA64(r) }},
}

// srcPixel renders the source pixel at (x, y) as the tuple PixelConv!ToRGBA16 expects,
// together with the kind name the specification uses.
func srcPixel(m image.Image, x, y int) (string, []int) {
	switch v := m.(type) {
	case img.Opaque:
		return srcPixel(v.Image, x, y)
	case *image.RGBA64:
		c := v.RGBA64At(x, y)
		return "RGBA64", []int{int(c.R), int(c.G), int(c.B), int(c.A)}
	case *image.NRGBA64:
		c := v.NRGBA64At(x, y)
		return "NRGBA64", []int{int(c.R), int(c.G), int(c.B), int(c.A)}
	case *image.RGBA:
		c := v.RGBAAt(x, y)
		return "RGBA", []int{int(c.R), int(c.G), int(c.B), int(c.A)}
	case *image.NRGBA:
		c := v.NRGBAAt(x, y)
		return "NRGBA", []int{int(c.R), int(c.G), int(c.B), int(c.A)}
	case *image.Gray:
		return "Gray", []int{int(v.GrayAt(x, y).Y)}
	case *image.Gray16:
		return "Gray16", []int{int(v.Gray16At(x, y).Y)}
	case *image.Alpha:
		return "Alpha", []int{int(v.AlphaAt(x, y).A)}
	case *image.Alpha16:
		return "Alpha16", []int{int(v.Alpha16At(x, y).A)}
	case *image.CMYK:
		c := v.CMYKAt(x, y)
		return "CMYK", []int{int(c.C), int(c.M), int(c.Y), int(c.K)}
	case *image.YCbCr:
		c := v.YCbCrAt(x, y)
		return "YCbCr", []int{int(c.Y), int(c.Cb), int(c.Cr)}
	case *image.NYCbCrA:
		c := v.NYCbCrAAt(x, y)
		return "NYCbCrA", []int{int(c.Y), int(c.Cb), int(c.Cr), int(c.A)}
	case *image.Paletted:
		switch c := v.Palette[v.ColorIndexAt(x, y)].(type) {
		case color.NRGBA:
			return "PalNRGBA", []int{int(c.R), int(c.G), int(c.B), int(c.A)}
		}
	}
	panic(fmt.Sprintf("srcPixel: unsupported %T", m))
}

func dstPixel(m image.Image, x, y int) []int {
	switch v := m.(type) {
	case *image.RGBA64:
		c := v.RGBA64At(x, y)
		return []int{int(c.R), int(c.G), int(c.B), int(c.A)}
	case *image.RGBA:
		c := v.RGBAAt(x, y)
		return []int{int(c.R), int(c.G), int(c.B), int(c.A)}
	case *image.NRGBA:
		c := v.NRGBAAt(x, y)
		return []int{int(c.R), int(c.G), int(c.B), int(c.A)}
	}
	panic("dstPixel")
}

func samePix(a, b []int) bool {
	if len(a) != len(b) {
		return false
	}
	for i := range a {
		if a[i] != b[i] {
			return false
		}
	}
	return true
}

// sweepImages builds the exhaustive / dense pixel-content images of C15.
func sweepImages() map[string]image.Image {
	out := map[string]image.Image{}
	r := image.Rect(0, 0, 256, 256)
	nr := image.NewNRGBA(r)
	pr := image.NewRGBA(r)
	y1 := image.NewYCbCr(r, image.YCbCrSubsampleRatio444)
	y2 := image.NewYCbCr(r, image.YCbCrSubsampleRatio444)
	cm := image.NewCMYK(r)
	r64 := image.NewRGBA64(r)
	n64 := image.NewNRGBA64(r)
	g16 := image.NewGray16(r)
	a16 := image.NewAlpha16(r)
	nya := image.NewNYCbCrA(r, image.YCbCrSubsampleRatio444)
	for y := 0; y < 256; y++ {
		for x := 0; x < 256; x++ {
			// every (channel, alpha) pair of NRGBA
			nr.SetNRGBA(x, y, color.NRGBA{uint8(x), uint8(255 - x), uint8(x * 7), uint8(y)})
			// every valid premultiplied (channel <= alpha) pair of RGBA
			c := x
			if c > y {
				c = y - (x - y)
				if c < 0 {
					c = 0
				}
			}
			pr.SetRGBA(x, y, color.RGBA{uint8(c), uint8(y), uint8(y / 2), uint8(y)})
			// R over all (Y, Cr); B over all (Y, Cb)
			y1.Y[y1.YOffset(x, y)], y1.Cb[y1.COffset(x, y)], y1.Cr[y1.COffset(x, y)] = uint8(x), uint8((x*5+y*3)&255), uint8(y)
			y2.Y[y2.YOffset(x, y)], y2.Cb[y2.COffset(x, y)], y2.Cr[y2.COffset(x, y)] = uint8(x), uint8(y), uint8((x*3+y*7)&255)
			cm.SetCMYK(x, y, color.CMYK{uint8(x), uint8(255 - x), uint8(x ^ y), uint8(y)})
			a := uint16(y*257) | uint16(x&3)
			v := uint32(x*257 + y)
			if v > 65535 {
				v = 65535
			}
			ch := uint16(v * uint32(a) / 65535) // <= a: valid premultiplied colours only
			r64.SetRGBA64(x, y, color.RGBA64{ch, a, ch / 3, a})
			n64.SetNRGBA64(x, y, color.NRGBA64{uint16(x*257 + y), uint16(65535 - x*251), uint16(y * 255), uint16(y*257) ^ uint16(x)})
			g16.SetGray16(x, y, color.Gray16{uint16(x*256 + y)})
			a16.SetAlpha16(x, y, color.Alpha16{uint16(y*256 + x)})
			nya.Y[nya.YOffset(x, y)], nya.Cb[nya.COffset(x, y)], nya.Cr[nya.COffset(x, y)], nya.A[nya.AOffset(x, y)] = uint8(x), uint8(x^y), uint8(255-y), uint8(y)
		}
	}
	// every byte value in every channel position, alpha included - also pixels that are not valid
	// premultiplied colours (channel > alpha, colour under alpha 0): legal image content.  Judged for
	// the premultiplied targets, where conversion is a plain widening / narrowing of the stored values.
	praw := image.NewRGBA(r)
	r64raw := image.NewRGBA64(r)
	for y := 0; y < 256; y++ {
		for x := 0; x < 256; x++ {
			praw.SetRGBA(x, y, color.RGBA{uint8(x), uint8(255 - x), uint8(x*7 + y), uint8(y)})
			r64raw.SetRGBA64(x, y, color.RGBA64{uint16(x*257 + y), uint16(65535 - x*251), uint16(y*255 + x), uint16(y*257) ^ uint16(x&1)})
		}
	}
	out["RGBA-raw"], out["RGBA64-raw"] = praw, r64raw
	out["NRGBA"], out["RGBA"], out["YCbCr-a"], out["YCbCr-b"], out["CMYK"] = nr, pr, y1, y2, cm
	out["RGBA64"], out["NRGBA64"], out["Gray16"], out["Alpha16"], out["NYCbCrA"] = r64, n64, g16, a16, nya
	g := image.NewGray(image.Rect(0, 0, 256, 1))
	al := image.NewAlpha(image.Rect(0, 0, 256, 1))
	pal := make(color.Palette, 256)
	for i := 0; i < 256; i++ {
		g.Pix[i], al.Pix[i] = uint8(i), uint8(i)
		pal[i] = color.NRGBA{uint8(i), uint8(i * 3), uint8(255 - i), uint8((i * 37) & 255)}
	}
	pm := image.NewPaletted(image.Rect(0, 0, 256, 1), pal)
	for i := 0; i < 256; i++ {
		pm.Pix[i] = uint8(255 - i)
	}
	out["Gray"], out["Alpha"], out["Paletted"] = g, al, pm
	return out
}

func imageconvCmd(args []string) error {
	fs := flag.NewFlagSet("imageconv", flag.ExitOnError)
	outDir := fs.String("out", "", "")
	tier := fs.String("tier", "quick", "")
	seed := fs.Int64("seed", 1, "")
	structOnly := fs.Bool("structonly", false, "only the structural part (bounds, origins, parallelism, identity)")
	serial := fs.String("serial", "", "run the structural jobs one at a time, writing a marker line to this file before each (crash forensics)")
	outName := fs.String("name", "c15.ndjson", "")
	fs.Parse(args)
	sink, done, err := newSink(filepath.Join(*outDir, *outName))
	if err != nil {
		return err
	}
	defer done()
	stride := 5
	if *tier == "thorough" {
		stride = 1
	}
	pars := []int{1, 2, 3, 7, 16}
	// ---- pixel semantics over dense / exhaustive pixel contents ----
	sw := sweepImages()
	names := []string{"RGBA-raw", "RGBA64-raw", "NRGBA", "RGBA", "YCbCr-a", "YCbCr-b", "CMYK", "RGBA64", "NRGBA64", "Gray16", "Alpha16", "NYCbCrA", "Gray", "Alpha", "Paletted"}
	type job struct {
		name string
		h    helper
		par  int
	}
	var jobs []job
	for i, n := range names {
		if *structOnly {
			break
		}
		for k, h := range helpers {
			if strings.HasSuffix(n, "-raw") && h.dk == "NRGBA" {
				continue // un-premultiplying an invalid colour is outside what draw.Draw and Convert agree on
			}
			jobs = append(jobs, job{n, h, pars[(i+k)%len(pars)]})
		}
	}
	parallel(len(jobs), func(ji int) {
		j := jobs[ji]
		src := sw[j.name]
		out := j.h.run(src, j.par)
		ref := j.h.mk(src.Bounds())
		draw.Draw(ref, ref.Bounds(), src, src.Bounds().Min, draw.Src)
		b := src.Bounds()
		off := (ji*7 + int(*seed)) % stride
		cnt := 0
		for y := b.Min.Y; y < b.Max.Y; y++ {
			for x := b.Min.X; x < b.Max.X; x++ {
				cnt++
				edge := x == 0 || y == 0 || x == 255 || y == 255 || x == y || x == y+1 || x+1 == y
				if (cnt+off)%stride != 0 && !(edge && stride > 1 && cnt%3 == 0) {
					continue
				}
				sk, in := srcPixel(src, x, y)
				o := dstPixel(out, x, y)
				sink.put(map[string]interface{}{"kind": "pixel", "helper": j.h.name, "s": sk, "d": j.h.dk, "i": in, "o": o,
					"dd": samePix(o, dstPixel(ref, x, y)), "par": j.par, "img": j.name, "x": x, "y": y})
			}
		}
	})
	// ---- structure: bounds, origins, sub-images, parallelism, identity, input untouched ----
	rects := []image.Rectangle{image.Rect(0, 0, 5, 4), image.Rect(-3, 2, 4, 9), image.Rect(7, -5, 8, 6), image.Rect(2, 2, 9, 3),
		image.Rect(0, 0, 0, 0), image.Rect(4, 4, 4, 9), image.Rect(10, 20, 27, 33)}
	kinds := append([]string{}, img.SrcKinds[:len(img.SrcKinds)-1]...) // all but Uniform (unbounded)
	type sjob struct {
		kind string
		r    image.Rectangle
		m    [4]int
		h    helper
		par  int
	}
	var sjobs []sjob
	n := 0
	for _, k := range kinds {
		for ri, r := range rects {
			// (ml, mt, mr, mb): whole image; margins all round; right of the parent's left edge with its last
			// row the parent's last; full-width bands with rows below / above
			for _, m := range [][4]int{{0, 0, 0, 0}, {1, 2, 3, 1}, {2, 0, 0, 0}, {0, 0, 0, 2}, {3, 1, 0, 0}} {
				for hi, h := range helpers {
					n++
					par := []int{1, 2, 3, 7, 16, r.Dy() + 5}[(n+ri+hi)%6]
					sjobs = append(sjobs, sjob{k, r, m, h, par})
				}
			}
		}
	}
	// strips of more than 65,536 rows (any queue, counter or index sized for 16 bits gives way here)
	for _, k := range kinds {
		if k != "RGBA64" && k != "NRGBA" && k != "RGBA" && k != "YCbCr444" && k != "YCbCr420" && k != "Gray" {
			continue
		}
		for ri, r := range []image.Rectangle{image.Rect(0, 0, 1, 65537), image.Rect(3, 0, 5, 70001)} {
			for hi, h := range helpers {
				sjobs = append(sjobs, sjob{k, r, [4]int{0, 0, 0, 0}, h, []int{1, 3, 16}[(ri+hi)%3]})
			}
		}
	}
	// few rows, many columns, far more workers than rows: the call returns only when all its own
	// workers have finished (the result is compared the moment it returns)
	for _, k := range kinds {
		if k != "RGBA64" && k != "NRGBA" && k != "RGBA" && k != "YCbCr444" && k != "YCbCr420" {
			continue
		}
		for hi, h := range helpers {
			sjobs = append(sjobs, sjob{k, image.Rect(0, 0, 30000, 3), [4]int{0, 0, 0, 0}, h, []int{64, 16, 33}[hi%3]})
		}
	}
	runStruct := parallel
	if *serial != "" {
		mf, err := os.Create(*serial)
		if err != nil {
			return err
		}
		defer mf.Close()
		runStruct = func(n int, fn func(int)) {
			for i := 0; i < n; i++ {
				j := sjobs[i]
				fmt.Fprintf(mf, "{\"job\":%d,\"helper\":%q,\"src\":%q,\"rect\":%q,\"margins\":\"%v\",\"par\":%d}\n", i, j.h.name, j.kind, j.r.String(), j.m, j.par)
				mf.Sync()
				fn(i)
			}
		}
	}
	runStruct(len(sjobs), func(i int) {
		j := sjobs[i]
		r := j.r
		sub := (j.kind[:2] == "YC" || j.kind == "NYCbCrA") && j.kind != "YCbCr444"
		if sub && (r.Min.X < 0 || r.Min.Y < 0) {
			r = r.Add(image.Pt(6, 6)) // image.YCbCr itself mis-indexes subsampled planes at negative origins
		}
		src, parent := img.New(j.kind, r, j.m[0], j.m[1], j.m[2], j.m[3], uint32(i)+uint32(*seed), true)
		before := append([]byte{}, img.Pix(parent)...)
		var out image.Image
		pan := ""
		finished := make(chan struct{})
		go func() {
			defer close(finished)
			defer func() {
				if rr := recover(); rr != nil {
					pan = fmt.Sprint(rr)
				}
			}()
			out = j.h.run(src, j.par)
		}()
		select {
		case <-finished:
		case <-time.After(90 * time.Second):
			// the call has not returned (alone it takes milliseconds): recorded like a panic; its
			// goroutines are abandoned
			pan = "the conversion did not return within 90 s"
		}
		ev := map[string]interface{}{"kind": "struct", "helper": j.h.name, "src": j.kind, "rect": []int{r.Min.X, r.Min.Y, r.Max.X, r.Max.Y},
			"margins": j.m, "par": j.par, "panic": pan != ""}
		if pan != "" {
			ev["panic_text"] = pan
			ev["bounds_equal"], ev["src_unchanged"], ev["same_instance"], ev["expect_same"], ev["dd"] = false, false, false, false, false
			sink.put(ev)
			return
		}
		ev["bounds_equal"] = out.Bounds() == src.Bounds()
		ev["src_unchanged"] = bytes.Equal(before, img.Pix(parent))
		_, isOpaque := src.(img.Opaque)
		expectSame := !isOpaque && reflect.TypeOf(src) == reflect.TypeOf(out)
		same := false
		if expectSame || reflect.TypeOf(src) == reflect.TypeOf(out) {
			same = reflect.ValueOf(src).Pointer() == reflect.ValueOf(out).Pointer()
		}
		ev["expect_same"], ev["same_instance"] = expectSame, same
		ref := j.h.mk(src.Bounds())
		draw.Draw(ref, ref.Bounds(), src, src.Bounds().Min, draw.Src)
		dd := out.Bounds() == ref.Bounds()
		if dd {
			b := ref.Bounds()
			for y := b.Min.Y; y < b.Max.Y && dd; y++ {
				for x := b.Min.X; x < b.Max.X; x++ {
					if !samePix(dstPixel(out, x, y), dstPixel(ref, x, y)) {
						dd = false
						ev["first_diff"] = []int{x, y}
						break
					}
				}
			}
		}
		ev["dd"] = dd
		sink.put(ev)
		// a few of its pixels also go through the pixel contract
		if !isOpaque || true {
			b := src.Bounds()
			k := 0
			for y := b.Min.Y; y < b.Max.Y; y++ {
				for x := b.Min.X; x < b.Max.X; x++ {
					k++
					if k%5 != 0 {
						continue
					}
					sk, in := srcPixel(src, x, y)
					o := dstPixel(out, x, y)
					sink.put(map[string]interface{}{"kind": "pixel", "helper": j.h.name, "s": sk, "d": j.h.dk, "i": in, "o": o,
						"dd": samePix(o, dstPixel(ref, x, y)), "par": j.par, "img": j.kind, "x": x, "y": y})
				}
			}
		}
	})
	fmt.Printf("{\"events\":%d}\n", sink.n)
	return nil
}
