package main

import (
	"flag"
	"fmt"
	"image/color"
	"math/rand"
	"path/filepath"

	"github.com/mandykoh/prism/adobergb"
	"github.com/mandykoh/prism/ciexyy"
	"github.com/mandykoh/prism/ciexyz"
	"github.com/mandykoh/prism/displayp3"
	"github.com/mandykoh/prism/prophotorgb"
	"github.com/mandykoh/prism/srgb"
)

func init() { commands["pipeline"] = pipelineCmd }

type pspace struct {
	name  string
	white ciexyy.Color
	toXYZ func(color.NRGBA) (ciexyz.Color, float32)
	from  func(ciexyz.Color, float32) color.NRGBA
}

var pspaces = []pspace{
	{"srgb", srgb.StandardWhitePoint,
		func(c color.NRGBA) (ciexyz.Color, float32) { x, a := srgb.ColorFromNRGBA(c); return x.ToXYZ(), a },
		func(c ciexyz.Color, a float32) color.NRGBA { return srgb.ColorFromXYZ(c).ToNRGBA(a) }},
	{"adobergb", adobergb.StandardWhitePoint,
		func(c color.NRGBA) (ciexyz.Color, float32) { x, a := adobergb.ColorFromNRGBA(c); return x.ToXYZ(), a },
		func(c ciexyz.Color, a float32) color.NRGBA { return adobergb.ColorFromXYZ(c).ToNRGBA(a) }},
	{"prophotorgb", prophotorgb.StandardWhitePoint,
		func(c color.NRGBA) (ciexyz.Color, float32) {
			x, a := prophotorgb.ColorFromNRGBA(c)
			return x.ToXYZ(), a
		},
		func(c ciexyz.Color, a float32) color.NRGBA { return prophotorgb.ColorFromXYZ(c).ToNRGBA(a) }},
	{"displayp3", displayp3.StandardWhitePoint,
		func(c color.NRGBA) (ciexyz.Color, float32) { x, a := displayp3.ColorFromNRGBA(c); return x.ToXYZ(), a },
		func(c ciexyz.Color, a float32) color.NRGBA { return displayp3.ColorFromXYZ(c).ToNRGBA(a) }},
}

// convert is the documented pipeline (README: colour conversion / chromatic adaptation).
func convert(s, d pspace, in color.NRGBA) color.NRGBA {
	xyz, alpha := s.toXYZ(in)
	if s.white != d.white {
		xyz = ciexyz.AdaptBetweenXYYWhitePoints(s.white, d.white).Apply(xyz)
	}
	return d.from(xyz, alpha)
}

func pipelineCmd(args []string) error {
	fs := flag.NewFlagSet("pipeline", flag.ExitOnError)
	outDir := fs.String("out", "", "")
	tier := fs.String("tier", "quick", "")
	seed := fs.Int64("seed", 1, "")
	light := fs.Bool("light", false, "greys, gamut edges and the alpha sweep only (second pass under another GOMAXPROCS)")
	outName := fs.String("name", "c04.ndjson", "")
	fs.Parse(args)
	if err := writeSpaces(*outDir); err != nil {
		return err
	}
	sink, done, err := newSink(filepath.Join(*outDir, *outName))
	if err != nil {
		return err
	}
	defer done()
	rng := rand.New(rand.NewSource(*seed))
	nl, ngrey, nedge, nseed := 5, 32, 16, 250
	if *tier == "thorough" {
		nl, ngrey, nedge, nseed = 17, 256, 256, 12000 // ~307k events: 35 min of TLC at the measured 150 events/s/core
	}
	if *light {
		nl, ngrey, nedge, nseed = 2, 32, 16, 20
	}
	var pix []color.NRGBA
	lv := func(i, n int) uint8 { return uint8((i*255 + (n-1)/2) / (n - 1)) }
	for i := 0; i < nl; i++ {
		for j := 0; j < nl; j++ {
			for k := 0; k < nl; k++ {
				pix = append(pix, color.NRGBA{lv(i, nl), lv(j, nl), lv(k, nl), 255})
			}
		}
	}
	for i := 0; i < ngrey; i++ {
		g := lv(i, ngrey)
		pix = append(pix, color.NRGBA{g, g, g, 255})
	}
	for i := 0; i < nedge; i++ { // gamut-edge colours: the six edges of the cube through the primaries / secondaries
		v := lv(i, nedge)
		pix = append(pix, color.NRGBA{255, v, 0, 255}, color.NRGBA{v, 255, 0, 255}, color.NRGBA{0, 255, v, 255},
			color.NRGBA{0, v, 255, 255}, color.NRGBA{v, 0, 255, 255}, color.NRGBA{255, 0, v, 255})
	}
	for i := 0; i < nseed; i++ {
		pix = append(pix, color.NRGBA{uint8(rng.Intn(256)), uint8(rng.Intn(256)), uint8(rng.Intn(256)), 255})
	}
	// alpha sweep on a few colours
	for a := 0; a < 256; a++ {
		step := 1
		if *tier != "thorough" {
			step = 5
		}
		if a%step == 0 || a == 255 {
			pix = append(pix, color.NRGBA{200, 30, uint8(a), uint8(a)}, color.NRGBA{uint8(255 - a), 128, 7, uint8(a)})
		}
	}
	type job struct{ s, d int }
	var jobs []job
	for s := range pspaces {
		for d := range pspaces {
			jobs = append(jobs, job{s, d})
		}
	}
	parallel(len(jobs), func(ji int) {
		s, d := pspaces[jobs[ji].s], pspaces[jobs[ji].d]
		for _, in := range pix {
			out := convert(s, d, in)
			sink.put(dy{"kind": "pixel", "src": s.name, "dst": d.name, "in": []int{int(in.R), int(in.G), int(in.B), int(in.A)},
				"out": []int{int(out.R), int(out.G), int(out.B), int(out.A)}})
		}
	})
	fmt.Printf("{\"c04\":%d}\n", sink.n)
	return nil
}
