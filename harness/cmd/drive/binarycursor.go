package main

import (
	"bufio"
	"bytes"
	"encoding/json"
	"errors"
	"flag"
	"fmt"
	"io"
	"math/rand"
	"os"
	"strings"
	"testing/iotest"

	"github.com/mandykoh/prism/meta/binary"
)

func init() { commands["binarycursor"] = binaryCursorCmd }

// binaryCursorCmd replays the behaviours printed by spec/BinaryCursor.tla on package
// meta/binary: every call's value, error and the number of bytes consumed so far must be the
// model's.  Mismatches are printed as JSON lines {"mismatch": ...}; the last line is a summary.
func binaryCursorCmd(args []string) error {
	fs := flag.NewFlagSet("binarycursor", flag.ExitOnError)
	casesPath := fs.String("cases", "", "ndjson printed by TLC")
	seed := fs.Int64("seed", 1, "")
	fs.Parse(args)
	raw, err := os.ReadFile(*casesPath)
	if err != nil {
		return err
	}
	type call struct {
		Op  string `json:"op"`
		Pos int    `json:"pos"`
		Val []int  `json:"val"`
		Err string `json:"err"`
	}
	type bcase struct {
		N     int    `json:"n"`
		Calls []call `json:"calls"`
		Write map[string][]int
	}
	rng := rand.New(rand.NewSource(*seed))
	mism, ncases, ncalls, nwrites := 0, 0, 0, 0
	report := func(m map[string]interface{}) {
		if mism++; mism <= 40 {
			js, _ := json.Marshal(map[string]interface{}{"mismatch": m})
			fmt.Println(string(js))
		}
	}
	errName := func(e error) string {
		switch {
		case e == nil:
			return "nil"
		case e == io.EOF:
			return "eof"
		case e == io.ErrUnexpectedEOF:
			return "uxeof"
		}
		return "other:" + e.Error()
	}
	for _, line := range strings.Split(strings.TrimSpace(string(raw)), "\n") {
		var c bcase
		if err := json.Unmarshal([]byte(line), &c); err != nil {
			return err
		}
		if c.Write != nil {
			// the writers: byte k of the output is byte order[k] of the value (1 = most significant)
			vals := []uint32{0, 1, 0xFF, 0x100, 0x80000000, 0xFFFFFFFF, 0x01020304, 0x7FFFFFFF, 0xFF000000, 0x00FF0000, 0x0000FF00}
			for i := 0; i < 4000; i++ {
				vals = append(vals, rng.Uint32())
			}
			for op, order := range c.Write {
				w := binary.WriteU32Big
				rd := binary.ReadU32Big
				if op == "w32l" {
					w, rd = binary.WriteU32Little, binary.ReadU32Little
				}
				for _, v := range vals {
					nwrites++
					var buf bytes.Buffer
					buf.WriteByte(0xEE) // appended, not overwritten
					if err := w(&buf, v); err != nil {
						report(map[string]interface{}{"op": op, "v": v, "err": err.Error()})
						continue
					}
					want := []byte{0xEE}
					for _, k := range order {
						want = append(want, byte(v>>(8*uint(4-k))))
					}
					if !bytes.Equal(buf.Bytes(), want) {
						report(map[string]interface{}{"op": op, "v": v, "got": buf.Bytes(), "want": want})
					}
					// what the matching reader makes of it
					back, err := rd(bytes.NewReader(buf.Bytes()[1:]))
					if err != nil || back != v {
						report(map[string]interface{}{"op": op + " then read", "v": v, "got": back, "err": errName(err)})
					}
				}
				// a writer that fails hands its error back
				boom := errors.New("boom")
				if err := w(failWriter{boom}, 7); err != boom {
					report(map[string]interface{}{"op": op, "failing_writer": true, "err": errName(err)})
				}
			}
			continue
		}
		ncases++
		for variant := 0; variant < 4; variant++ {
			data := make([]byte, c.N)
			for i := range data {
				switch variant {
				case 0:
					data[i] = byte(rng.Intn(256))
				case 1:
					data[i] = 0xFF
				case 2:
					data[i] = 0x80 | byte(i+1)
				default:
					data[i] = byte(i + 1)
				}
			}
			for _, kind := range []string{"bytes.Reader", "bufio/1", "bufio/dataerr", "bufio16/half"} {
				under := bytes.NewReader(data)
				var rd binary.Reader
				var br *bufio.Reader
				switch kind {
				case "bytes.Reader":
					rd = under
				case "bufio/1":
					br = bufio.NewReader(iotest.OneByteReader(under))
					rd = br
				case "bufio/dataerr":
					br = bufio.NewReader(iotest.DataErrReader(under))
					rd = br
				default:
					br = bufio.NewReaderSize(iotest.HalfReader(under), 16)
					rd = br
				}
				consumed := func() int {
					if br != nil {
						return c.N - under.Len() - br.Buffered()
					}
					return c.N - under.Len()
				}
				for ci, cl := range c.Calls {
					ncalls++
					var gotV uint64
					var gotB []byte
					var err error
					switch cl.Op {
					case "u16b":
						var v uint16
						v, err = binary.ReadU16Big(rd)
						gotV = uint64(v)
					case "u24l":
						var v uint32
						v, err = binary.ReadU24Little(rd)
						gotV = uint64(v)
					case "u32b":
						var v uint32
						v, err = binary.ReadU32Big(rd)
						gotV = uint64(v)
					case "u32l":
						var v uint32
						v, err = binary.ReadU32Little(rd)
						gotV = uint64(v)
					case "u64b":
						gotV, err = binary.ReadU64Big(rd)
					default:
						var n uint32
						fmt.Sscanf(cl.Op, "bytes%d", &n)
						gotB, err = binary.ReadBytes(rd, n)
					}
					var wantV uint64
					var wantB []byte
					for _, id := range cl.Val {
						wantV = wantV<<8 | uint64(data[id-1])
						wantB = append(wantB, data[id-1])
					}
					ok := errName(err) == cl.Err && consumed() == cl.Pos
					if strings.HasPrefix(cl.Op, "bytes") {
						ok = ok && bytes.Equal(gotB, wantB)
					} else {
						ok = ok && gotV == wantV
					}
					if !ok {
						report(map[string]interface{}{"n": c.N, "data": data, "reader": kind, "call": ci + 1, "op": cl.Op,
							"got":  map[string]interface{}{"value": gotV, "bytes": gotB, "err": errName(err), "consumed": consumed()},
							"want": map[string]interface{}{"value": wantV, "bytes": wantB, "err": cl.Err, "consumed": cl.Pos}})
						break // later calls of this behaviour start from a different state
					}
				}
			}
		}
	}
	js, _ := json.Marshal(map[string]interface{}{"summary": true, "cases": ncases, "calls": ncalls, "writes": nwrites, "mismatches": mism})
	fmt.Println(string(js))
	return nil
}

type failWriter struct{ err error }

func (f failWriter) Write(p []byte) (int, error) { return 0, f.err }
