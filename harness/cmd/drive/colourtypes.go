package main

import (
	"image/color"

	"github.com/mandykoh/prism/adobergb"
	"github.com/mandykoh/prism/displayp3"
	"github.com/mandykoh/prism/linear"
	"github.com/mandykoh/prism/prophotorgb"
	"github.com/mandykoh/prism/srgb"
)

type linearRGB struct{ R, G, B float32 }

func (c linearRGB) toRGBA64(space string, alpha float32) color.RGBA64 {
	lr := linear.RGB{R: c.R, G: c.G, B: c.B}
	switch space {
	case "srgb":
		return srgb.Color{RGB: lr}.ToRGBA64(alpha)
	case "adobergb":
		return adobergb.Color{RGB: lr}.ToRGBA64(alpha)
	case "prophotorgb":
		return prophotorgb.Color{RGB: lr}.ToRGBA64(alpha)
	}
	return displayp3.Color{RGB: lr}.ToRGBA64(alpha)
}

func (c linearRGB) toNRGBA(space string, alpha float32) color.NRGBA {
	lr := linear.RGB{R: c.R, G: c.G, B: c.B}
	switch space {
	case "srgb":
		return srgb.Color{RGB: lr}.ToNRGBA(alpha)
	case "adobergb":
		return adobergb.Color{RGB: lr}.ToNRGBA(alpha)
	case "prophotorgb":
		return prophotorgb.Color{RGB: lr}.ToNRGBA(alpha)
	}
	return displayp3.Color{RGB: lr}.ToNRGBA(alpha)
}

func (c linearRGB) toRGBA(space string, alpha float32) color.RGBA {
	lr := linear.RGB{R: c.R, G: c.G, B: c.B}
	switch space {
	case "srgb":
		return srgb.Color{RGB: lr}.ToRGBA(alpha)
	case "adobergb":
		return adobergb.Color{RGB: lr}.ToRGBA(alpha)
	case "prophotorgb":
		return prophotorgb.Color{RGB: lr}.ToRGBA(alpha)
	}
	return displayp3.Color{RGB: lr}.ToRGBA(alpha)
}
