package main

import (
	"image/color"

	"github.com/mandykoh/prism/adobergb"
	"github.com/mandykoh/prism/displayp3"
	"github.com/mandykoh/prism/linear"
	"github.com/mandykoh/prism/prophotorgb"
	"github.com/mandykoh/prism/srgb"
)

type linearRGB struct{ R, G, B float32 }

func (c linearRGB) toRGBA64(space string, alpha float32) color.RGBA64 {
	lr := linear.RGB{R: c.R, G: c.G, B: c.B}
	switch space {
	case "srgb":
		return srgb.Color{RGB: lr}.ToRGBA64(alpha)
	case "adobergb":
		return adobergb.Color{RGB: lr}.ToRGBA64(alpha)
	case "prophotorgb":
		return prophotorgb.Color{RGB: lr}.ToRGBA64(alpha)
	}
	return displayp3.Color{RGB: lr}.ToRGBA64(alpha)
}

func (c linearRGB) toNRGBA(space string, alpha float32) color.NRGBA {
	lr := linear.RGB{R: c.R, G: c.G, B: c.B}
	switch space {
	case "srgb":
		return srgb.Color{RGB: lr}.ToNRGBA(alpha)
	case "adobergb":
		return adobergb.Color{RGB: lr}.ToNRGBA(alpha)
	case "prophotorgb":
		return prophotorgb.Color{RGB: lr}.ToNRGBA(alpha)
	}
	return displayp3.Color{RGB: lr}.ToNRGBA(alpha)
}

func (c linearRGB) toRGBA(space string, alpha float32) color.RGBA {
	lr := linear.RGB{R: c.R, G: c.G, B: c.B}
	switch space {
	case "srgb":
		return srgb.Color{RGB: lr}.ToRGBA(alpha)
	case "adobergb":
		return adobergb.Color{RGB: lr}.ToRGBA(alpha)
	case "prophotorgb":
		return prophotorgb.Color{RGB: lr}.ToRGBA(alpha)
	}
	return displayp3.Color{RGB: lr}.ToRGBA(alpha)
}

// plainColor is a colour type of the harness's own: nothing can type-switch on it.
type plainColor struct{ r, g, b, a uint32 }

func (c plainColor) RGBA() (uint32, uint32, uint32, uint32) { return c.r, c.g, c.b, c.a }

// colourZoo returns colours of every dynamic type the standard library has (and one it has
// not), derived from four seed bytes; opaque ones and translucent ones.
func colourZoo(r, g, b, a uint8) []color.Color {
	r16, g16, b16, a16 := uint16(r)*257^uint16(b), uint16(g)*257^uint16(r), uint16(b)*257^uint16(g), uint16(a)*257
	min16 := func(x, y uint16) uint16 {
		if x < y {
			return x
		}
		return y
	}
	min8 := func(x, y uint8) uint8 {
		if x < y {
			return x
		}
		return y
	}
	return []color.Color{
		color.NRGBA{r, g, b, 255}, color.RGBA{r, g, b, 255}, color.NRGBA64{r16, g16, b16, 65535}, color.RGBA64{r16, g16, b16, 65535},
		color.Gray{g}, color.Gray16{g16}, color.YCbCr{r, g, b}, color.CMYK{r, g, b, a}, color.Alpha{255}, color.Alpha16{65535},
		plainColor{uint32(r16), uint32(g16), uint32(b16), 65535}, plainColor{uint32(r) * 257, uint32(r) * 257, uint32(r) * 257, 65535},
		// translucent
		color.NRGBA{r, g, b, a}, color.RGBA{min8(r, a), min8(g, a), min8(b, a), a}, color.NRGBA64{r16, g16, b16, a16},
		color.RGBA64{min16(r16, a16), min16(g16, a16), min16(b16, a16), a16}, color.NYCbCrA{color.YCbCr{r, g, b}, a}, color.Alpha{a}, color.Alpha16{a16},
		plainColor{uint32(min16(r16, a16)), uint32(min16(g16, a16)), uint32(min16(b16, a16)), uint32(a16)},
	}
}
