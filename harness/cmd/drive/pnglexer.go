package main

import (
	"bufio"
	"bytes"
	"encoding/binary"
	"encoding/json"
	"flag"
	"fmt"
	"hash/adler32"
	"hash/crc32"
	"io"
	"os"
	"testing/iotest"

	"github.com/mandykoh/prism/meta"
	"github.com/mandykoh/prism/meta/autometa"
	"github.com/mandykoh/prism/meta/pngmeta"
)

func init() { commands["pnglexer"] = pngLexerCmd }

// pngLexerCmd replays the cases printed by spec/PngLexer.tla on the real PNG loader: the tokens
// are laid out as the specification's comments say (fixed byte layouts, real CRCs, zlib streams
// made of stored blocks so that their length is known to the model), the input is cut after
// `cut` bytes and handed to pngmeta.Load and autometa.Load through a source that delivers one
// byte per Read - bufio then takes from it exactly what the parser asks for, so the number of
// bytes the loader has taken when it returns is the model's `taken`.
func pngLexerCmd(args []string) error {
	fs := flag.NewFlagSet("pnglexer", flag.ExitOnError)
	casesPath := fs.String("cases", "", "ndjson printed by TLC")
	fs.Parse(args)
	f, err := os.Open(*casesPath)
	if err != nil {
		return err
	}
	defer f.Close()
	type pcase struct {
		Toks  []string `json:"toks"`
		Cut   int      `json:"cut"`
		Res   string   `json:"res"`
		W     uint32   `json:"w"`
		H     uint32   `json:"h"`
		D     uint32   `json:"d"`
		Icc   string   `json:"icc"`
		Taken int      `json:"taken"`
	}
	chunk := func(typ string, data []byte) []byte {
		var b bytes.Buffer
		binary.Write(&b, binary.BigEndian, uint32(len(data)))
		b.WriteString(typ)
		b.Write(data)
		binary.Write(&b, binary.BigEndian, crc32.ChecksumIEEE(append([]byte(typ), data...)))
		return b.Bytes()
	}
	stored := func(p []byte, damage bool) []byte { // a zlib stream of one stored block: 2 + 5 + len(p) + 4 bytes
		b := []byte{0x78, 0x01, 0x01, byte(len(p)), 0, ^byte(len(p)), 0xFF}
		b = append(b, p...)
		var a [4]byte
		binary.BigEndian.PutUint32(a[:], adler32.Checksum(p))
		if damage {
			a[3] ^= 0x5A
		}
		return append(b, a[:]...)
	}
	profiles := map[string][]byte{"p1": {0x11, 0x12, 0x13}, "p2": {0x21, 0x22, 0x23}}
	iccp := func(method byte, z []byte) []byte { return chunk("iCCP", append([]byte{'a', 0, method}, z...)) }
	ihdr := func(w, h uint32, d byte, rest []byte) []byte {
		var b bytes.Buffer
		binary.Write(&b, binary.BigEndian, w)
		binary.Write(&b, binary.BigEndian, h)
		b.WriteByte(d)
		b.Write(rest)
		return chunk("IHDR", b.Bytes())
	}
	layout := map[string][]byte{
		"IHDRa":   ihdr(11, 12, 8, []byte{6, 0, 0, 0}),
		"IHDRb":   ihdr(21, 22, 16, nil),
		"IHDR5":   chunk("IHDR", []byte{0, 0, 0, 31, 0}),
		"iCCP1":   iccp(0, stored(profiles["p1"], false)),
		"iCCP2":   iccp(0, stored(profiles["p2"], false)),
		"iCCPbad": iccp(0, stored(profiles["p1"], true)),
		"iCCPm1":  iccp(1, stored(profiles["p1"], false)),
		"iCCP3":   chunk("iCCP", []byte{'a', 0, 0}),
		"iCCPn79": chunk("iCCP", append(append(bytes.Repeat([]byte{'n'}, 79), 0, 0), stored(profiles["p1"], false)...)),
		"iCCPn80": chunk("iCCP", append(bytes.Repeat([]byte{'n'}, 80), stored(profiles["p1"], false)...)),
		"tEXt":    chunk("tEXt", []byte{'k', 0}),
		"IDAT":    chunk("IDAT", nil),
		"IEND":    chunk("IEND", nil),
	}
	sig := []byte{0x89, 'P', 'N', 'G', 0x0D, 0x0A, 0x1A, 0x0A}
	type loader struct {
		name string
		load func(io.Reader) (*meta.Data, io.Reader, error)
	}
	loaders := []loader{{"pngmeta", pngmeta.Load}, {"autometa", autometa.Load}}
	mism, ncases, nloads := 0, 0, 0
	sc := bufio.NewScanner(f)
	sc.Buffer(make([]byte, 1<<20), 1<<24)
	for sc.Scan() {
		var c pcase
		if err := json.Unmarshal(sc.Bytes(), &c); err != nil {
			return err
		}
		ncases++
		data := append([]byte{}, sig...)
		for _, t := range c.Toks {
			b, ok := layout[t]
			if !ok {
				return fmt.Errorf("unknown token %q", t)
			}
			data = append(data, b...)
		}
		if c.Cut > len(data) {
			return fmt.Errorf("cut %d beyond the %d bytes of %v: the layouts disagree with the specification's sizes", c.Cut, len(data), c.Toks)
		}
		data = data[:c.Cut]
		for _, ld := range loaders {
			nloads++
			under := bytes.NewReader(data)
			md, stream, err := ld.load(iotest.OneByteReader(under))
			taken := len(data) - under.Len()
			got := pcase{Res: "ok", Icc: "none", Taken: taken}
			if err != nil || md == nil {
				got.Res = "fail"
				if (err == nil) != (md != nil) {
					got.Res = "inconsistent"
				}
			} else {
				got.W, got.H, got.D = md.PixelWidth, md.PixelHeight, md.BitsPerComponent
				p, perr := md.ICCProfileData()
				switch {
				case perr != nil:
					got.Icc = "err"
				case p == nil:
					got.Icc = "none"
				case bytes.Equal(p, profiles["p1"]):
					got.Icc = "p1"
				case bytes.Equal(p, profiles["p2"]):
					got.Icc = "p2"
				default:
					got.Icc = fmt.Sprintf("other:%x", p)
				}
			}
			ok := got.Res == c.Res && got.W == c.W && got.H == c.H && got.D == c.D && got.Icc == c.Icc
			// bytes taken from the source: the specific loader takes what the model says; the auto
			// loader tries the other formats on the replayed bytes first and after a PNG failure, so
			// only "never less than the PNG parser needed" is required of it when PNG succeeds
			if ld.name == "pngmeta" {
				ok = ok && taken == c.Taken
			} else if c.Res == "ok" {
				ok = ok && taken >= c.Taken
			}
			// the stream replays the whole input whatever happened (C07's contract, here for free)
			rest, rerr := io.ReadAll(stream)
			ok = ok && rerr == nil && bytes.Equal(rest, data)
			if !ok {
				if mism++; mism <= 40 {
					js, _ := json.Marshal(map[string]interface{}{"mismatch": map[string]interface{}{"toks": c.Toks, "cut": c.Cut, "loader": ld.name,
						"got": got, "want": c, "replayed": len(rest), "err": fmt.Sprint(err)}})
					fmt.Println(string(js))
				}
			}
		}
	}
	js, _ := json.Marshal(map[string]interface{}{"summary": true, "cases": ncases, "loads": nloads, "mismatches": mism})
	fmt.Println(string(js))
	return nil
}
