package main

import (
	"bufio"
	"bytes"
	"encoding/binary"
	"encoding/json"
	"flag"
	"fmt"
	"math/rand"
	"os"
	"path/filepath"
	"runtime"
	"sort"
	"strconv"
	"strings"
	"time"

	"github.com/mandykoh/prism/meta/icc"

	"verif/harness/gen"
	"verif/harness/obs"
)

func init() { commands["hostile"] = hostileCmd }

// fpos locates one length/count/offset field inside a seed.
type fpos struct {
	Off, Width int
	Little     bool
}

type hseed struct {
	Name   string
	Struct string // png|jpeg|webp|icc
	Data   []byte
	Fields map[string][]fpos
}

func (f fpos) get(d []byte) uint64 {
	var v uint64
	for i := 0; i < f.Width; i++ {
		if f.Little {
			v |= uint64(d[f.Off+i]) << (8 * i)
		} else {
			v = v<<8 | uint64(d[f.Off+i])
		}
	}
	return v
}
func (f fpos) put(d []byte, v uint64) {
	for i := 0; i < f.Width; i++ {
		if f.Little {
			d[f.Off+i] = byte(v >> (8 * i))
		} else {
			d[f.Off+i] = byte(v >> (8 * (f.Width - 1 - i)))
		}
	}
}

func walkPNG(d []byte) map[string][]fpos {
	m := map[string][]fpos{}
	pos := 8
	for pos+8 <= len(d) {
		n := int(binary.BigEndian.Uint32(d[pos:]))
		t := string(d[pos+4 : pos+8])
		name := "len_anc"
		switch t {
		case "IHDR", "iCCP", "IDAT", "IEND":
			name = "len_" + t
		}
		m[name] = append(m[name], fpos{pos, 4, false})
		pos += 12 + n
	}
	return m
}

func walkJPEG(d []byte) map[string][]fpos {
	m := map[string][]fpos{}
	pos := 2
	for pos+4 <= len(d) && d[pos] == 0xFF {
		mk := d[pos+1]
		if mk == 0xD9 {
			break
		}
		n := int(binary.BigEndian.Uint16(d[pos+2:]))
		name := ""
		switch {
		case mk == 0xE0:
			name = "len_APP0"
		case mk == 0xE1:
			name = "len_APP1"
		case mk == 0xDB:
			name = "len_DQT"
		case mk == 0xC0 || mk == 0xC2:
			name = "len_SOF"
			m["sof_ncomp"] = append(m["sof_ncomp"], fpos{pos + 9, 1, false})
		case mk == 0xC4:
			name = "len_DHT"
		case mk == 0xDA:
			name = "len_SOS"
		case mk == 0xE2:
			name = "len_ICC"
			m["icc_seq"] = append(m["icc_seq"], fpos{pos + 4 + 12, 1, false})
			m["icc_total"] = append(m["icc_total"], fpos{pos + 4 + 13, 1, false})
		}
		if name != "" {
			m[name] = append(m[name], fpos{pos + 2, 2, false})
		}
		if mk == 0xDA {
			break
		}
		pos += 2 + n
	}
	return m
}

func walkWebP(d []byte) map[string][]fpos {
	m := map[string][]fpos{"riff_size": {{4, 4, true}}}
	pos := 12
	for pos+8 <= len(d) {
		t := string(d[pos : pos+4])
		n := int(binary.LittleEndian.Uint32(d[pos+4:]))
		name := map[string]string{"VP8X": "len_VP8X", "ICCP": "len_ICCP", "VP8 ": "len_VP8", "VP8L": "len_VP8L"}[t]
		if name != "" {
			m[name] = append(m[name], fpos{pos + 4, 4, true})
		}
		pos += 8 + n + n%2
	}
	return m
}

func walkICC(d []byte) map[string][]fpos {
	m := map[string][]fpos{"profile_size": {{0, 4, false}}, "tag_count": {{128, 4, false}}}
	n := int(binary.BigEndian.Uint32(d[128:]))
	for i := 0; i < n; i++ {
		e := 132 + 12*i
		sig := string(d[e : e+4])
		off := int(binary.BigEndian.Uint32(d[e+4:]))
		if sig == "desc" {
			m["tag_off_desc"] = append(m["tag_off_desc"], fpos{e + 4, 4, false})
			m["tag_size_desc"] = append(m["tag_size_desc"], fpos{e + 8, 4, false})
			switch string(d[off : off+4]) {
			case "desc":
				m["desc_count"] = append(m["desc_count"], fpos{off + 8, 4, false})
				// the Unicode part after the ASCII string: language code (4), count of code units (4)
				if uc := off + 12 + int(binary.BigEndian.Uint32(d[off+8:])) + 4; uc+4 <= len(d) && uc > 0 {
					m["desc_ucount"] = append(m["desc_ucount"], fpos{uc, 4, false})
				}
			case "mluc":
				m["mluc_count"] = append(m["mluc_count"], fpos{off + 8, 4, false})
				m["mluc_recsize"] = append(m["mluc_recsize"], fpos{off + 12, 4, false})
				rc := int(binary.BigEndian.Uint32(d[off+8:]))
				rs := int(binary.BigEndian.Uint32(d[off+12:]))
				for r := 0; r < rc; r++ {
					m["mluc_len"] = append(m["mluc_len"], fpos{off + 16 + r*rs + 4, 4, false})
					m["mluc_off"] = append(m["mluc_off"], fpos{off + 16 + r*rs + 8, 4, false})
				}
			}
		} else {
			m["tag_off_other"] = append(m["tag_off_other"], fpos{e + 4, 4, false})
			m["tag_size_other"] = append(m["tag_size_other"], fpos{e + 8, 4, false})
		}
	}
	return m
}

func iccSeeds() []hseed {
	v2 := gen.BuildICC(func() []byte { h := gen.ICCHeader(0); h[8], h[9] = 2, 0x40; return h }(),
		[]gen.ICCTag{{"desc", 0}, {"cprt", 1}, {"wtpt", 2}},
		[]gen.ICCBlock{{Data: gen.TextDesc("Hostile v2 seed")}, {Data: gen.Payload(24, 1, true)}, {Data: gen.Payload(20, 2, true)}}, nil, nil)
	ml, _ := gen.Mluc([]gen.MlucRec{{"de", "DE", "Beschreibung"}, {"en", "US", "Description"}}, "table", 12)
	v4 := gen.BuildICC(nil, []gen.ICCTag{{"cprt", 1}, {"desc", 0}},
		[]gen.ICCBlock{{Data: ml}, {Data: gen.Payload(40, 3, true), Gap: 2}}, []int{1, 0}, nil)
	// 20,000 tags all pointing at one 2 MiB block (overlapping tags are legal): memory must stay
	// linear in the ~2.3 MB input, not tags x size
	var mt []gen.ICCTag
	mt = append(mt, gen.ICCTag{Sig: "desc", Block: 0})
	for i := 0; i < 20000; i++ {
		mt = append(mt, gen.ICCTag{Sig: fmt.Sprintf("%c%c%c%c", 'A'+i%26, 'a'+(i/26)%26, 'a'+(i/676)%26, '0'+(i/17576)%10), Block: 1})
	}
	many := gen.BuildICC(nil, mt, []gen.ICCBlock{{Data: gen.TextDesc("many shared tags")}, {Data: gen.Payload(2<<20, 4, false)}}, nil, nil)
	// long (legal) descriptions, 150 KB of ASCII and 150 KB of UTF-16: the cost of reading them is
	// linear in their length
	longV2 := gen.BuildICC(func() []byte { h := gen.ICCHeader(0); h[8], h[9] = 2, 0x40; return h }(),
		[]gen.ICCTag{{"desc", 0}, {"cprt", 1}},
		[]gen.ICCBlock{{Data: gen.TextDesc(strings.Repeat("a long description. ", 7500))}, {Data: gen.Payload(24, 1, true)}}, nil, nil)
	mlLong, _ := gen.Mluc([]gen.MlucRec{{"en", "US", strings.Repeat("eine lange Beschreibung ", 3200)}}, "table", 12)
	longV4 := gen.BuildICC(nil, []gen.ICCTag{{"desc", 0}, {"cprt", 1}},
		[]gen.ICCBlock{{Data: mlLong}, {Data: gen.Payload(40, 3, true)}}, nil, nil)
	// a v2 description whose ASCII part is empty and whose Unicode part is not (20 code units, none null)
	ud := gen.TextDescRaw(1, []byte{0}, false)
	ud = append(ud, 0, 0, 0, 0, 0, 0, 0, 20)
	for _, r := range "Unicode description!" {
		ud = append(ud, 0, byte(r))
	}
	// ... and the same tag ending with its last code unit (no script-code part, nothing null after it)
	v2e := gen.BuildICC(func() []byte { h := gen.ICCHeader(0); h[8], h[9] = 2, 0x40; return h }(),
		[]gen.ICCTag{{"cprt", 1}, {"desc", 0}}, []gen.ICCBlock{{Data: append([]byte{}, ud...)}, {Data: gen.Payload(24, 1, true)}}, []int{1, 0}, nil)
	ud = append(ud, make([]byte, 2+1+67)...)
	v2u := gen.BuildICC(func() []byte { h := gen.ICCHeader(0); h[8], h[9] = 2, 0x40; return h }(),
		[]gen.ICCTag{{"desc", 0}, {"cprt", 1}}, []gen.ICCBlock{{Data: ud}, {Data: gen.Payload(24, 1, true)}}, nil, nil)
	// a description stored as a plain 'text' element (some v2 writers do that)
	td := append([]byte{'t', 'e', 'x', 't', 0, 0, 0, 0}, []byte("A description in a text element\x00")...)
	v2t := gen.BuildICC(func() []byte { h := gen.ICCHeader(0); h[8], h[9] = 2, 0x40; return h }(),
		[]gen.ICCTag{{"desc", 0}, {"cprt", 1}}, []gen.ICCBlock{{Data: td}, {Data: gen.Payload(24, 1, true)}}, nil, nil)
	return []hseed{{"icc-v2", "icc", v2, walkICC(v2)}, {"icc-v4", "icc", v4, walkICC(v4)},
		{"icc-v2-desc-as-text-element", "icc", v2t, walkICC(v2t)},
		{"icc-v2-unicode-only", "icc", v2u, walkICC(v2u)}, {"icc-v2-unicode-to-end", "icc", v2e, walkICC(v2e)},
		{"icc-many-shared-tags", "icc", many, map[string][]fpos{"profile_size": {{0, 4, false}}}},
		{"icc-long-v2-description", "icc", longV2, map[string][]fpos{"profile_size": {{0, 4, false}}}},
		{"icc-long-v4-description", "icc", longV4, map[string][]fpos{"profile_size": {{0, 4, false}}}}}
}

func containerSeeds(profile []byte) []hseed {
	var out []hseed
	p1, _ := gen.BuildPNG([]gen.PNGChunk{gen.IHDR(33, 44, 8, 6, 0), gen.Chunk("gAMA", []byte{0, 0, 0xb1, 0x8f}),
		gen.ICCP("prof", 0, gen.Deflate(profile, 6)), gen.Chunk("tEXt", gen.Payload(60, 1, true)),
		gen.Chunk("IDAT", gen.Payload(80, 2, false)), gen.Chunk("IEND", nil)})
	out = append(out, hseed{"png-a", "png", p1, walkPNG(p1)})
	big := gen.SimpleProfile(6000, "big", true, 9)
	p2, _ := gen.BuildPNG([]gen.PNGChunk{gen.IHDR(1, 2, 16, 2, 1), gen.Chunk("tEXt", gen.Payload(5000, 1, true)),
		gen.ICCP("p", 0, gen.Deflate(big, 0)), gen.Chunk("IDAT", gen.Payload(20, 2, false)), gen.Chunk("IEND", nil)})
	out = append(out, hseed{"png-b", "png", p2, walkPNG(p2)})
	parts := gen.SplitICC(profile, 2)
	j1, _ := gen.BuildJPEG([]gen.JSeg{gen.SOI(), gen.JFIF(), gen.APP(1, gen.Payload(30, 1, true)), gen.DQT(0),
		gen.SOF(0xC0, 8, 21, 34, gen.StdComps(3, 0x22)), gen.ICCSeg(1, 2, parts[0]), gen.ICCSeg(2, 2, parts[1]),
		gen.DHT(0, 0), gen.SOS(3, gen.EntropyBytes(120, 5)), gen.EOI()})
	out = append(out, hseed{"jpeg-a", "jpeg", j1, walkJPEG(j1)})
	j2, _ := gen.BuildJPEG([]gen.JSeg{gen.SOI(), gen.ICCSeg(1, 1, profile), gen.APP(1, gen.Payload(5000, 1, true)), gen.DQT(0), gen.DHT(0, 0),
		gen.SOF(0xC2, 8, 2, 3, gen.StdComps(1, 0x11)), gen.SOS(1, gen.EntropyBytes(40, 6)), gen.EOI()})
	out = append(out, hseed{"jpeg-b", "jpeg", j2, walkJPEG(j2)})
	// the legal maximum of 255 ICC chunks, all present (counters that are one byte wide)
	{
		segs := []gen.JSeg{gen.SOI(), gen.JFIF()}
		p255 := gen.SplitICC(gen.Payload(255*9, 11, false), 255)
		for q := 0; q < 255; q++ {
			segs = append(segs, gen.ICCSeg(byte(q+1), 255, p255[q]))
		}
		segs = append(segs, gen.DQT(0), gen.SOF(0xC0, 8, 2, 3, gen.StdComps(1, 0x11)), gen.SOS(1, gen.EntropyBytes(40, 6)), gen.EOI())
		j3, _ := gen.BuildJPEG(segs)
		out = append(out, hseed{"jpeg-255", "jpeg", j3, walkJPEG(j3)})
	}
	w1, _ := gen.BuildWebP([]gen.WChunk{gen.VP8X(gen.VP8XICC, 55, 66), gen.WC("ICCP", profile), gen.VP8(55, 66, 0, 0, gen.VP8Body(40))}, -1)
	out = append(out, hseed{"webp-x", "webp", w1, walkWebP(w1)})
	w2, _ := gen.BuildWebP([]gen.WChunk{gen.VP8(7, 9, 1, 2, gen.VP8Body(40))}, -1)
	out = append(out, hseed{"webp-vp8", "webp", w2, walkWebP(w2)})
	w3, _ := gen.BuildWebP([]gen.WChunk{gen.VP8L(7, 9, true, gen.Payload(30, 1, false))}, -1)
	out = append(out, hseed{"webp-vp8l", "webp", w3, walkWebP(w3)})
	return out
}

// embed places an ICC profile in each container so that the metadata accessors are exercised.
func embed(profile []byte, which int) (string, []byte) {
	switch which % 3 {
	case 0:
		d, _ := gen.BuildPNG([]gen.PNGChunk{gen.IHDR(3, 4, 8, 2, 0), gen.ICCP("p", 0, gen.Deflate(profile, 6)), gen.Chunk("IDAT", []byte{1}), gen.Chunk("IEND", nil)})
		return "png", d
	case 1:
		d, _ := gen.BuildJPEG([]gen.JSeg{gen.SOI(), gen.ICCSeg(1, 1, profile), gen.SOF(0xC0, 8, 4, 3, gen.StdComps(3, 0x11)), gen.SOS(3, []byte{1, 2}), gen.EOI()})
		return "jpeg", d
	}
	d, _ := gen.BuildWebP([]gen.WChunk{gen.VP8X(gen.VP8XICC, 3, 4), gen.WC("ICCP", profile), gen.VP8(3, 4, 0, 0, gen.VP8Body(16))}, -1)
	return "webp", d
}

type hclass struct {
	Kind string
	D    int64
}

func (c *hclass) UnmarshalJSON(b []byte) error {
	var t []json.RawMessage
	if err := json.Unmarshal(b, &t); err != nil {
		return err
	}
	json.Unmarshal(t[0], &c.Kind)
	return json.Unmarshal(t[1], &c.D)
}

type hcase struct {
	Kind   string `json:"kind"`
	Struct string `json:"struct"`
	Field  string `json:"field"`
	Class  hclass `json:"class"`
	Field2 string `json:"field2"`
	Class2 hclass `json:"class2"`
}

func resolve(c hclass, v uint64, width int, a uint64) uint64 {
	W := uint64(1) << (8 * width)
	var r int64
	switch c.Kind {
	case "const":
		r = c.D
	case "v":
		r = int64(v) + c.D
	case "max":
		r = int64(W) - 1 + c.D
	case "half":
		r = int64(W/2) + c.D
	case "wrap_v":
		r = int64(W) - int64(v) + c.D
	case "wrap_a":
		r = int64(W) - int64(a) + c.D
	}
	return uint64(r) & (W - 1)
}

// callTimeout bounds one call: the failure mode excluded by C09's time clause
// is work proportional to a declared number (2^32 iterations), which takes
// minutes; a call that has not returned by then is reported as hung and the
// worker is restarted (the runaway goroutine cannot be stopped).
const callTimeout = 6 * time.Second

// measured runs fn, returning allocation in bytes, wall time, and an escaped panic.
func measured(fn func()) (alloc uint64, wall time.Duration, pan string, hung bool) {
	var m0, m1 runtime.MemStats
	runtime.ReadMemStats(&m0)
	t0 := time.Now()
	done := make(chan string, 1)
	go func() {
		p := ""
		defer func() {
			if r := recover(); r != nil {
				p = fmt.Sprint(r)
			}
			done <- p
		}()
		fn()
	}()
	select {
	case pan = <-done:
	case <-time.After(callTimeout):
		hung = true
	}
	wall = time.Since(t0)
	runtime.ReadMemStats(&m1)
	return m1.TotalAlloc - m0.TotalAlloc, wall, pan, hung
}

// exercise runs every public entry point reachable for the input and returns one event per entry point.
func exercise(structName string, data []byte, tag map[string]interface{}, emit func(map[string]interface{})) {
	type call struct {
		via string
		fn  func()
	}
	var calls []call
	descOf := func(p *icc.Profile) {
		if p != nil {
			p.Description()
		}
	}
	if structName == "icc" {
		calls = append(calls, call{"icc.ReadProfile+Description", func() {
			p, _ := icc.NewProfileReader(bytes.NewReader(data)).ReadProfile()
			descOf(p)
		}})
		for w := 0; w < 3; w++ {
			name, cd := embed(data, w)
			loader := name
			if w == int(len(data))%3 {
				loader = "auto"
			}
			cdata := cd
			calls = append(calls, call{"Load(" + loader + ")+ICCProfile+Description in " + name, func() {
				md, _, _ := obs.Loaders[loader](bytes.NewReader(cdata))
				if md != nil {
					p, _ := md.ICCProfile()
					descOf(p)
				}
			}})
		}
	} else {
		loaders := []string{structName, "auto"}
		if structName == "any" { // an input of unknown kind (fuzzing corpus): everything that takes bytes
			loaders = obs.LoaderNames
			calls = append(calls, call{"icc.ReadProfile+Description", func() {
				p, _ := icc.NewProfileReader(bytes.NewReader(data)).ReadProfile()
				descOf(p)
			}})
		}
		for _, loader := range loaders {
			l := loader
			calls = append(calls, call{"Load(" + l + ")+ICCProfile+Description", func() {
				md, stream, _ := obs.Loaders[l](bytes.NewReader(data))
				if md != nil {
					p, _ := md.ICCProfile()
					descOf(p)
				}
				_ = stream
			}})
		}
	}
	for _, c := range calls {
		n := len(data)
		alloc, wall, pan, hung := measured(c.fn)
		budgetMs := int64(1000 + 2*(n/1024))
		for try := 0; try < 3 && !hung && wall.Milliseconds() > budgetMs; try++ {
			_, w2, _, h2 := measured(c.fn) // time only: take the fastest of up to 4 runs
			if h2 {
				hung = true
			} else if w2 < wall {
				wall = w2
			}
		}
		ev := map[string]interface{}{"via": c.via, "n": n, "alloc_kib": int64(alloc / 1024), "wall_ms": wall.Milliseconds(),
			"panic": pan != "", "died": false}
		if pan != "" {
			ev["panic_text"] = pan
		}
		if hung {
			ev["hung"] = true
		}
		for k, v := range tag {
			ev[k] = v
		}
		emit(ev)
		if hung {
			hungExit()
		}
	}
}

// hungExit is set by hostileCmd: flush what has been recorded and leave, so that
// the orchestrator restarts the worker after the job that hung.
var hungExit = func() {}

func hostileCmd(args []string) error {
	fs := flag.NewFlagSet("hostile", flag.ExitOnError)
	in := fs.String("cases", "", "TLC-printed case matrix")
	out := fs.String("out", "", "events file")
	shard := fs.Int("shard", 0, "")
	shards := fs.Int("shards", 1, "")
	tier := fs.String("tier", "quick", "")
	seed := fs.Int64("seed", 1, "")
	from := fs.Int("from", 0, "skip jobs numbered <= from (restart after a crash)")
	dumpCase := fs.Int("dump", -1, "write the mutated input of job N to -dumpfile and exit")
	dumpFile := fs.String("dumpfile", "", "")
	corpus := fs.String("corpus", "", "directory of inputs found by coverage-guided fuzzing (thorough tier): each is exercised and judged like the rest")
	fs.Parse(args)
	runtime.GOMAXPROCS(2)
	f, err := os.Open(*in)
	if err != nil {
		return err
	}
	var cases []hcase
	sc := bufio.NewScanner(f)
	sc.Buffer(make([]byte, 1<<20), 1<<24)
	for sc.Scan() {
		var c hcase
		if err := json.Unmarshal(sc.Bytes(), &c); err != nil {
			return err
		}
		cases = append(cases, c)
	}
	f.Close()
	sort.SliceStable(cases, func(a, b int) bool {
		ka := fmt.Sprint(cases[a])
		kb := fmt.Sprint(cases[b])
		return ka < kb
	})
	seeds := iccSeeds()
	seeds = append(seeds, containerSeeds(seeds[0].Data)...)
	seeds = append(seeds, containerSeeds(seeds[1].Data)[0:1]...)

	of, err := os.Create(*out)
	if err != nil {
		return err
	}
	defer of.Close()
	w := bufio.NewWriter(of)
	defer w.Flush()
	emit := func(ev map[string]interface{}) {
		js, _ := json.Marshal(ev)
		w.Write(js)
		w.WriteByte('\n')
	}
	job := 0
	hungExit = func() {
		fmt.Fprintf(w, "#HUNG %d\n", job)
		w.Flush()
		of.Close()
		os.Exit(7)
	}
	mine := func() bool { job++; return (job-1)%*shards == *shard && job > *from }
	begin := func(desc string) {
		// crash forensics: the last BEGIN without a result names the input that killed the process
		fmt.Fprintf(w, "#BEGIN %d %s\n", job, desc)
		w.Flush()
	}
	// (0) every seed as it is (the matrix only ever runs mutated copies)
	for _, s := range seeds {
		if !mine() {
			continue
		}
		begin("seed " + s.Name)
		exercise(s.Struct, s.Data, map[string]interface{}{"src": "seed", "seed": s.Name, "job": job}, emit)
	}
	// (a) the field x boundary-value matrix from the specification
	for ci, c := range cases {
		for _, s := range seeds {
			if s.Struct != c.Struct {
				continue
			}
			ps := s.Fields[c.Field]
			for occ, p := range ps {
				if len(ps) > 6 && occ >= 3 && occ < len(ps)-3 {
					continue // a field with hundreds of occurrences: the first and the last three
				}
				if !mine() {
					continue
				}
				d := append([]byte{}, s.Data...)
				v := p.get(d)
				nv := resolve(c.Class, v, p.Width, 0)
				p.put(d, nv)
				tag := map[string]interface{}{"src": "matrix", "case": ci, "seed": s.Name, "field": c.Field, "occ": occ, "value": nv, "job": job}
				if c.Kind == "pair" {
					p2s := s.Fields[c.Field2]
					if len(p2s) == 0 {
						continue
					}
					p2 := p2s[occ%len(p2s)]
					nv2 := resolve(c.Class2, p2.get(d), p2.Width, nv)
					p2.put(d, nv2)
					tag["field2"], tag["value2"] = c.Field2, nv2
				}
				if *dumpCase == job {
					return os.WriteFile(*dumpFile, d, 0o644)
				}
				begin(fmt.Sprintf("matrix %s %s=%d", s.Name, c.Field, nv))
				exercise(s.Struct, d, tag, emit)
			}
		}
	}
	// (b) seeded structure-aware mutation, (c) truncations
	rng := rand.New(rand.NewSource(*seed))
	nmut := 1500
	if *tier == "thorough" {
		nmut = 12000
	}
	boundary := []uint64{0, 1, 8, 9, 12, 13, 0x7fffffff, 0x80000000, 0xffffffff, 0xffffff7c, 0xfffffff0, 255, 256, 65535, 65536}
	for _, s := range seeds {
		names := make([]string, 0, len(s.Fields))
		for k := range s.Fields {
			names = append(names, k)
		}
		sort.Strings(names)
		nm := nmut
		if len(s.Data) > 1<<20 {
			nm = nmut / 20 // the multi-MiB seed: each mutant costs megabytes of copying and deflating
		}
		for m := 0; m < nm; m++ {
			d := append([]byte{}, s.Data...)
			nops := 1 + rng.Intn(3)
			var ops []string
			for o := 0; o < nops; o++ {
				switch rng.Intn(5) {
				case 0, 1: // set-field
					fn := names[rng.Intn(len(names))]
					p := s.Fields[fn][rng.Intn(len(s.Fields[fn]))]
					if p.Off+p.Width <= len(d) {
						v := boundary[rng.Intn(len(boundary))]
						if rng.Intn(3) == 0 {
							v = p.get(d) + uint64(rng.Intn(5)) - 2
						}
						p.put(d, v)
						ops = append(ops, fmt.Sprintf("%s=%d", fn, v&(1<<(8*p.Width)-1)))
					}
				case 2: // truncate
					if len(d) > 1 {
						d = d[:rng.Intn(len(d))]
						ops = append(ops, fmt.Sprintf("trunc%d", len(d)))
					}
				case 3: // duplicate a slice of the file in place
					if len(d) > 16 {
						a := rng.Intn(len(d) - 8)
						b := a + 1 + rng.Intn(len(d)-a-1)
						d = append(append(append([]byte{}, d[:b]...), d[a:b]...), d[b:]...)
						ops = append(ops, fmt.Sprintf("dup%d-%d", a, b))
					}
				case 4: // flip a byte
					if len(d) > 0 {
						i := rng.Intn(len(d))
						d[i] ^= byte(1 << rng.Intn(8))
						ops = append(ops, fmt.Sprintf("flip%d", i))
					}
				}
			}
			if !mine() {
				continue
			}
			if *dumpCase == job {
				return os.WriteFile(*dumpFile, d, 0o644)
			}
			begin(fmt.Sprintf("mutant %s %v", s.Name, ops))
			exercise(s.Struct, d, map[string]interface{}{"src": "mutation", "seed": s.Name, "ops": fmt.Sprint(ops), "job": job}, emit)
		}
		step := 1 + len(s.Data)/120
		if *tier == "thorough" {
			step = 1 + len(s.Data)/6000 // every cut of the ordinary seeds; 6000 cuts of the multi-MiB one
		}
		for cut := 0; cut < len(s.Data); cut += step {
			if !mine() {
				continue
			}
			if *dumpCase == job {
				return os.WriteFile(*dumpFile, s.Data[:cut], 0o644)
			}
			begin(fmt.Sprintf("truncation %s at %d", s.Name, cut))
			exercise(s.Struct, s.Data[:cut], map[string]interface{}{"src": "truncation", "seed": s.Name, "cut": cut, "job": job}, emit)
		}
	}
	// (d) long runs of one byte value (fill bytes, zero padding) at structure boundaries: depth of
	// recursion, per-byte work and per-byte memory must stay harmless however long the run is
	runLen := 24 << 20
	for _, s := range seeds {
		if s.Struct == "icc" {
			continue
		}
		sigEnd := map[string]int{"png": 8, "jpeg": 2, "webp": 12}[s.Struct]
		positions := []int{sigEnd, len(s.Data)}
		names := make([]string, 0, len(s.Fields))
		for k := range s.Fields {
			names = append(names, k)
		}
		sort.Strings(names)
		for _, fn := range names { // in front of (the length field of) every kind of structure
			positions = append(positions, s.Fields[fn][0].Off)
		}
		if *tier != "thorough" && len(positions) > 4 {
			positions = append(positions[:2], positions[2+rng.Intn(len(positions)-2)], positions[2+rng.Intn(len(positions)-2)])
		}
		for _, pos := range positions {
			for _, bv := range []byte{0xFF, 0x00} {
				if !mine() {
					continue
				}
				if pos > len(s.Data) {
					pos = len(s.Data)
				}
				d := make([]byte, 0, len(s.Data)+runLen)
				d = append(d, s.Data[:pos]...)
				for i := 0; i < runLen; i++ {
					d = append(d, bv)
				}
				d = append(d, s.Data[pos:]...)
				if *dumpCase == job {
					return os.WriteFile(*dumpFile, d, 0o644)
				}
				begin(fmt.Sprintf("run of %d x %#02x in %s at %d", runLen, bv, s.Name, pos))
				exercise(s.Struct, d, map[string]interface{}{"src": "longrun", "seed": s.Name, "at": pos, "byte": int(bv), "len": runLen, "job": job}, emit)
			}
		}
	}
	// (e) inputs found by Go's coverage-guided fuzzing of the same entry points (thorough tier)
	if *corpus != "" {
		ents, _ := os.ReadDir(*corpus)
		for _, e := range ents {
			if e.IsDir() || !mine() {
				continue
			}
			d, err := os.ReadFile(filepath.Join(*corpus, e.Name()))
			if err != nil {
				continue
			}
			// Go's corpus file format: "go test fuzz v1" then one line []byte("...") per argument
			if lines := strings.SplitN(string(d), "\n", 3); len(lines) >= 2 && strings.HasPrefix(lines[0], "go test fuzz v1") {
				l := strings.TrimSpace(lines[1])
				if strings.HasPrefix(l, "[]byte(") && strings.HasSuffix(l, ")") {
					if q, err := strconv.Unquote(l[7 : len(l)-1]); err == nil {
						d = []byte(q)
					}
				}
			}
			if *dumpCase == job {
				return os.WriteFile(*dumpFile, d, 0o644)
			}
			begin("fuzz corpus " + e.Name())
			exercise("any", d, map[string]interface{}{"src": "fuzzing", "seed": e.Name(), "job": job}, emit)
		}
	}
	fmt.Fprintf(w, "#END %d\n", job)
	return nil
}
