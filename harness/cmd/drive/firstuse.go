package main

import (
	"encoding/binary"
	"encoding/json"
	"flag"
	"fmt"
	"hash/fnv"
	"image"
	"image/color"
	"image/draw"
	"math"
	"os"

	"github.com/mandykoh/prism/adobergb"
	"github.com/mandykoh/prism/displayp3"
	"github.com/mandykoh/prism/prophotorgb"
	"github.com/mandykoh/prism/srgb"
)

func init() { commands["firstuse"] = firstuseCmd }

// One public entry point as THE FIRST call this process makes into the library (spec/LazyLut:
// lazy initialisation is unobservable - whichever entry point triggers it).  The result of that
// first call, of the same call repeated once everything has certainly been built, and where there
// is one the result assembled from the per-component functions, are recorded; a panic is an
// observation.
type fuSpace struct {
	from16   func(uint16) float32
	to16     func(float32) uint16
	fromEnc  func(color.Color) (r, g, b, a float32)
	linCol   func(color.Color) color.RGBA64
	encCol   func(color.Color) color.RGBA64
	toRGBA64 func(r, g, b, a float32) color.RGBA64
	linImg   func(dst draw.Image, src image.Image, par int)
	encImg   func(dst draw.Image, src image.Image, par int)
}

var fuSpaces = map[string]fuSpace{
	"srgb": {srgb.From16Bit, srgb.To16Bit,
		func(c color.Color) (float32, float32, float32, float32) {
			x, a := srgb.ColorFromEncodedColor(c)
			return x.R, x.G, x.B, a
		},
		srgb.LineariseColor, srgb.EncodeColor,
		func(r, g, b, a float32) color.RGBA64 { return srgb.ColorFromLinear(r, g, b).ToRGBA64(a) },
		srgb.LineariseImage, srgb.EncodeImage},
	"adobergb": {adobergb.From16Bit, adobergb.To16Bit,
		func(c color.Color) (float32, float32, float32, float32) {
			x, a := adobergb.ColorFromEncodedColor(c)
			return x.R, x.G, x.B, a
		},
		adobergb.LineariseColor, adobergb.EncodeColor,
		func(r, g, b, a float32) color.RGBA64 { return adobergb.ColorFromLinear(r, g, b).ToRGBA64(a) },
		adobergb.LineariseImage, adobergb.EncodeImage},
	"prophotorgb": {prophotorgb.From16Bit, prophotorgb.To16Bit,
		func(c color.Color) (float32, float32, float32, float32) {
			x, a := prophotorgb.ColorFromEncodedColor(c)
			return x.R, x.G, x.B, a
		},
		prophotorgb.LineariseColor, prophotorgb.EncodeColor,
		func(r, g, b, a float32) color.RGBA64 { return prophotorgb.ColorFromLinear(r, g, b).ToRGBA64(a) },
		prophotorgb.LineariseImage, prophotorgb.EncodeImage},
	"displayp3": {srgb.From16Bit, srgb.To16Bit, // Display P3 borrows the sRGB curve
		func(c color.Color) (float32, float32, float32, float32) {
			x, a := displayp3.ColorFromEncodedColor(c)
			return x.R, x.G, x.B, a
		},
		displayp3.LineariseColor, displayp3.EncodeColor,
		func(r, g, b, a float32) color.RGBA64 { return displayp3.ColorFromLinear(r, g, b).ToRGBA64(a) },
		displayp3.LineariseImage, displayp3.EncodeImage},
}

// the 8-bit entry points of each space (constant tables today; nothing says they stay that way)
type fu8 struct {
	from8     func(uint8) float32
	to8       func(float32) uint8
	fromRGBA  func(color.RGBA) (r, g, b, a float32)
	fromNRGBA func(color.NRGBA) (r, g, b, a float32)
	toNRGBA   func(r, g, b, a float32) color.NRGBA
	toRGBA    func(r, g, b, a float32) color.RGBA
}

var fu8Spaces = map[string]fu8{
	"srgb": {srgb.From8Bit, srgb.To8Bit,
		func(c color.RGBA) (float32, float32, float32, float32) {
			x, a := srgb.ColorFromRGBA(c)
			return x.R, x.G, x.B, a
		},
		func(c color.NRGBA) (float32, float32, float32, float32) {
			x, a := srgb.ColorFromNRGBA(c)
			return x.R, x.G, x.B, a
		},
		func(r, g, b, a float32) color.NRGBA { return srgb.ColorFromLinear(r, g, b).ToNRGBA(a) },
		func(r, g, b, a float32) color.RGBA { return srgb.ColorFromLinear(r, g, b).ToRGBA(a) }},
	"adobergb": {adobergb.From8Bit, adobergb.To8Bit,
		func(c color.RGBA) (float32, float32, float32, float32) {
			x, a := adobergb.ColorFromRGBA(c)
			return x.R, x.G, x.B, a
		},
		func(c color.NRGBA) (float32, float32, float32, float32) {
			x, a := adobergb.ColorFromNRGBA(c)
			return x.R, x.G, x.B, a
		},
		func(r, g, b, a float32) color.NRGBA { return adobergb.ColorFromLinear(r, g, b).ToNRGBA(a) },
		func(r, g, b, a float32) color.RGBA { return adobergb.ColorFromLinear(r, g, b).ToRGBA(a) }},
	"prophotorgb": {prophotorgb.From8Bit, prophotorgb.To8Bit,
		func(c color.RGBA) (float32, float32, float32, float32) {
			x, a := prophotorgb.ColorFromRGBA(c)
			return x.R, x.G, x.B, a
		},
		func(c color.NRGBA) (float32, float32, float32, float32) {
			x, a := prophotorgb.ColorFromNRGBA(c)
			return x.R, x.G, x.B, a
		},
		func(r, g, b, a float32) color.NRGBA { return prophotorgb.ColorFromLinear(r, g, b).ToNRGBA(a) },
		func(r, g, b, a float32) color.RGBA { return prophotorgb.ColorFromLinear(r, g, b).ToRGBA(a) }},
	"displayp3": {srgb.From8Bit, srgb.To8Bit, // Display P3 borrows the sRGB curve
		func(c color.RGBA) (float32, float32, float32, float32) {
			x, a := displayp3.ColorFromRGBA(c)
			return x.R, x.G, x.B, a
		},
		func(c color.NRGBA) (float32, float32, float32, float32) {
			x, a := displayp3.ColorFromNRGBA(c)
			return x.R, x.G, x.B, a
		},
		func(r, g, b, a float32) color.NRGBA { return displayp3.ColorFromLinear(r, g, b).ToNRGBA(a) },
		func(r, g, b, a float32) color.RGBA { return displayp3.ColorFromLinear(r, g, b).ToRGBA(a) }},
}

// FirstUseEntries lists the entry points (d*: reach the 16-bit decode table, e*: the encode table).
var FirstUseEntries = []string{"d-from16", "d-enc-nrgba64", "d-enc-rgba64", "d-enc-gray16", "d-enc-nrgba", "d-enc-gray", "d-lin-nrgba64",
	"d-lin-rgba64", "d-lin-gray", "d-linimg", "e-to16", "e-enc-rgba64", "e-enc-nrgba64", "e-enc-translucent", "e-enc-gray16", "e-torgba64",
	"e-torgba64-half", "e-encimg",
	"d-from8", "d-fromrgba8", "d-fromnrgba8", "e-to8", "e-tonrgba8", "e-torgba8"}

func b32(f float32) int        { return int(math.Float32bits(f)) }
func c64(c color.RGBA64) []int { return []int{int(c.R), int(c.G), int(c.B), int(c.A)} }

func init() { commands["tablehash"] = tablehashCmd }

// tablehashCmd prints digests of the whole 16-bit encode and decode tables of a space, as this
// process sees them after the history given by -pre (what it did before the tables were built).
func tablehashCmd(args []string) error {
	fs := flag.NewFlagSet("tablehash", flag.ExitOnError)
	spName := fs.String("space", "srgb", "")
	pre := fs.String("pre", "none", "none | decode (the decode table is complete before the first encode) | encode | images")
	fs.Parse(args)
	sp := fuSpaces[*spName]
	switch *pre {
	case "decode":
		sp.from16(1234)
		sp.linCol(color.NRGBA64{R: 5, G: 6, B: 7, A: 65535})
	case "encode":
		sp.to16(0.5)
		sp.encCol(color.RGBA64{R: 5, G: 6, B: 7, A: 65535})
	case "images":
		m := image.NewRGBA64(image.Rect(0, 0, 3, 3))
		sp.encImg(m, m, 2)
		sp.linImg(m, m, 2)
	}
	he, hd := fnv.New64a(), fnv.New64a()
	var b [4]byte
	for i := 0; i < 65536; i++ {
		v := sp.to16(float32(i) / 65535)
		he.Write([]byte{byte(v >> 8), byte(v)})
		binary.BigEndian.PutUint32(b[:], math.Float32bits(sp.from16(uint16(i))))
		hd.Write(b[:])
	}
	js, _ := json.Marshal(map[string]interface{}{"space": *spName, "pre": *pre, "enc": fmt.Sprintf("%016x", he.Sum64()), "dec": fmt.Sprintf("%016x", hd.Sum64())})
	os.Stdout.Write(append(js, '\n'))
	return nil
}

func firstuseCmd(args []string) error {
	fs := flag.NewFlagSet("firstuse", flag.ExitOnError)
	spName := fs.String("space", "srgb", "")
	entry := fs.String("entry", "d-from16", "")
	fs.Parse(args)
	sp := fuSpaces[*spName]
	const r16, g16, b16 = 0x01FF, 0xFF01, 0x8000
	img16 := func(c color.Color) *image.RGBA64 {
		m := image.NewRGBA64(image.Rect(0, 0, 2, 3))
		for y := 0; y < 3; y++ {
			for x := 0; x < 2; x++ {
				m.Set(x, y, c)
			}
		}
		return m
	}
	pix := func(m *image.RGBA64) []int {
		var o []int
		for y := 0; y < 3; y++ {
			for x := 0; x < 2; x++ {
				o = append(o, c64(m.RGBA64At(x, y))...)
			}
		}
		return o
	}
	encOf := func(c color.Color) func() []int {
		return func() []int { r, g, b, a := sp.fromEnc(c); return []int{b32(r), b32(g), b32(b), b32(a)} }
	}
	var call func() []int
	var ref func() []int // assembled from the per-component functions (nil: none)
	from3 := func(r, g, b uint16) func() []int {
		return func() []int { return []int{b32(sp.from16(r)), b32(sp.from16(g)), b32(sp.from16(b)), b32(1)} }
	}
	lin := [3]float32{0.25, 0.5, 0.999}
	switch *entry {
	case "d-from16":
		call = func() []int {
			return []int{b32(sp.from16(r16)), b32(sp.from16(65535)), b32(sp.from16(0)), b32(sp.from16(b16))}
		}
	case "d-enc-nrgba64":
		call, ref = encOf(color.NRGBA64{r16, g16, b16, 65535}), from3(r16, g16, b16)
	case "d-enc-rgba64":
		call, ref = encOf(color.RGBA64{r16, g16, b16, 65535}), from3(r16, g16, b16)
	case "d-enc-gray16":
		call, ref = encOf(color.Gray16{b16}), from3(b16, b16, b16)
	case "d-enc-nrgba":
		call, ref = encOf(color.NRGBA{3, 200, 255, 255}), from3(3*257, 200*257, 65535)
	case "d-enc-gray":
		call, ref = encOf(color.Gray{77}), from3(77*257, 77*257, 77*257)
	case "d-lin-nrgba64":
		call = func() []int { return c64(sp.linCol(color.NRGBA64{r16, g16, b16, 65535})) }
	case "d-lin-rgba64":
		call = func() []int { return c64(sp.linCol(color.RGBA64{r16, g16, b16, 65535})) }
	case "d-lin-gray":
		call = func() []int { return c64(sp.linCol(color.Gray{77})) }
	case "d-linimg":
		call = func() []int {
			dst := image.NewRGBA64(image.Rect(0, 0, 2, 3))
			sp.linImg(dst, img16(color.NRGBA64{r16, g16, b16, 65535}), 2)
			return pix(dst)
		}
		ref = func() []int {
			c := sp.linCol(color.NRGBA64{r16, g16, b16, 65535})
			var o []int
			for i := 0; i < 6; i++ {
				o = append(o, c64(c)...)
			}
			return o
		}
	case "e-to16":
		call = func() []int {
			return []int{int(sp.to16(lin[0])), int(sp.to16(lin[1])), int(sp.to16(lin[2])), int(sp.to16(1)), int(sp.to16(0))}
		}
	case "e-enc-rgba64":
		call = func() []int { return c64(sp.encCol(color.RGBA64{1000, 30000, 65535, 65535})) }
		ref = func() []int {
			return []int{int(sp.to16(1000.0 / 65535)), int(sp.to16(30000.0 / 65535)), int(sp.to16(1)), 65535}
		}
	case "e-enc-nrgba64":
		call = func() []int { return c64(sp.encCol(color.NRGBA64{1000, 30000, 65535, 65535})) }
		ref = func() []int {
			return []int{int(sp.to16(1000.0 / 65535)), int(sp.to16(30000.0 / 65535)), int(sp.to16(1)), 65535}
		}
	case "e-enc-translucent":
		call = func() []int { return c64(sp.encCol(color.RGBA64{1000, 20000, 30000, 32768})) }
	case "e-enc-gray16":
		call = func() []int { return c64(sp.encCol(color.Gray16{30000})) }
		ref = func() []int { v := int(sp.to16(30000.0 / 65535)); return []int{v, v, v, 65535} }
	case "e-torgba64":
		call = func() []int { return c64(sp.toRGBA64(lin[0], lin[1], lin[2], 1)) }
		ref = func() []int { return []int{int(sp.to16(lin[0])), int(sp.to16(lin[1])), int(sp.to16(lin[2])), 65535} }
	case "e-torgba64-half":
		call = func() []int { return c64(sp.toRGBA64(lin[0], lin[1], lin[2], 0.5)) }
		ref = func() []int {
			return []int{int(sp.to16(lin[0] * 0.5)), int(sp.to16(lin[1] * 0.5)), int(sp.to16(lin[2] * 0.5)), 32768}
		}
	case "e-encimg":
		call = func() []int {
			dst := image.NewRGBA64(image.Rect(0, 0, 2, 3))
			sp.encImg(dst, img16(color.RGBA64{1000, 30000, 65535, 65535}), 2)
			return pix(dst)
		}
		ref = func() []int {
			c := sp.encCol(color.RGBA64{1000, 30000, 65535, 65535})
			var o []int
			for i := 0; i < 6; i++ {
				o = append(o, c64(c)...)
			}
			return o
		}
	case "d-from8":
		s8 := fu8Spaces[*spName]
		call = func() []int { return []int{b32(s8.from8(3)), b32(s8.from8(200)), b32(s8.from8(255)), b32(s8.from8(0))} }
	case "d-fromrgba8", "d-fromnrgba8":
		s8 := fu8Spaces[*spName]
		call = func() []int {
			r, g, b, a := s8.fromRGBA(color.RGBA{3, 200, 255, 255})
			if *entry == "d-fromnrgba8" {
				r, g, b, a = s8.fromNRGBA(color.NRGBA{3, 200, 255, 255})
			}
			return []int{b32(r), b32(g), b32(b), b32(a)}
		}
		ref = func() []int { return []int{b32(s8.from8(3)), b32(s8.from8(200)), b32(s8.from8(255)), b32(1)} }
	case "e-to8":
		s8 := fu8Spaces[*spName]
		call = func() []int {
			return []int{int(s8.to8(lin[0])), int(s8.to8(lin[1])), int(s8.to8(lin[2])), int(s8.to8(1)), int(s8.to8(0))}
		}
	case "e-tonrgba8", "e-torgba8":
		s8 := fu8Spaces[*spName]
		call = func() []int {
			if *entry == "e-torgba8" {
				c := s8.toRGBA(lin[0], lin[1], lin[2], 1)
				return []int{int(c.R), int(c.G), int(c.B), int(c.A)}
			}
			c := s8.toNRGBA(lin[0], lin[1], lin[2], 1)
			return []int{int(c.R), int(c.G), int(c.B), int(c.A)}
		}
		ref = func() []int { return []int{int(s8.to8(lin[0])), int(s8.to8(lin[1])), int(s8.to8(lin[2])), 255} }
	default:
		return fmt.Errorf("unknown entry %q", *entry)
	}
	ev := map[string]interface{}{"kind": "firstuse", "space": *spName, "entry": *entry, "panic": false, "first": []int{}, "again": []int{}, "ref": []int{}}
	safe := func(f func() []int) (out []int, p string) {
		defer func() {
			if r := recover(); r != nil {
				out, p = []int{}, fmt.Sprint(r)
			}
		}()
		return f(), ""
	}
	first, p1 := safe(call) // <- the first call into the library
	// make sure everything exists by the plain route, then repeat
	_, pw := safe(func() []int {
		sp.from16(1)
		sp.to16(0.5)
		fu8Spaces[*spName].from8(1)
		fu8Spaces[*spName].to8(0.5)
		return nil
	})
	again, p2 := safe(call)
	refv := again
	p3 := ""
	if ref != nil {
		refv, p3 = safe(ref)
	}
	ev["first"], ev["again"], ev["ref"] = first, again, refv
	if p1+pw+p2+p3 != "" {
		ev["panic"] = true
		ev["panic_msg"] = fmt.Sprintf("first: %q warm: %q again: %q ref: %q", p1, pw, p2, p3)
	}
	js, _ := json.Marshal(ev)
	os.Stdout.Write(append(js, '\n'))
	return nil
}
