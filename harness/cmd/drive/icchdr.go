package main

import (
	"bufio"
	"bytes"
	"encoding/binary"
	"flag"
	"fmt"
	"math/rand"
	"path/filepath"
	"sync/atomic"

	mbinary "github.com/mandykoh/prism/meta/binary"
	"github.com/mandykoh/prism/meta/icc"

	"verif/harness/gen"
	"verif/harness/obs"
)

func init() { commands["icchdr"] = icchdrCmd }

func be32(v uint32) []int {
	return []int{int(v >> 24), int(v >> 16 & 255), int(v >> 8 & 255), int(v & 255)}
}
func ints(b []byte) []int {
	o := make([]int, len(b))
	for i, x := range b {
		o[i] = int(x)
	}
	return o
}

// present wraps a profile in one of the reader presentations a caller may use (the header's
// fields may depend on none of them): a *bytes.Reader; bufio readers of the smallest and the
// default size over sources delivering 1, 7 or all bytes per call; the profile embedded in a
// stream at offsets that put the buffer refill inside each part of the header; the bare
// instrumented source (Read + ReadByte, unbuffered).
const nPresent = 10

func present(prof []byte, how int) (r mbinary.Reader, name string) {
	sched := func(k int) obs.Sched { return obs.Sched{Name: fmt.Sprint("fixed", k), Sizes: []int{k}, Cyclic: true} }
	switch how % nPresent {
	case 0:
		return bytes.NewReader(prof), "bytes.Reader"
	case 1:
		return bufio.NewReaderSize(obs.NewSource(prof, -1, nil, sched(1)), 16), "bufio16/fixed1"
	case 2:
		return bufio.NewReaderSize(obs.NewSource(prof, -1, nil, sched(7)), 16), "bufio16/fixed7"
	case 3:
		return bufio.NewReader(obs.NewSource(prof, -1, nil, sched(7))), "bufio/fixed7"
	case 4:
		return obs.NewSource(prof, -1, nil, sched(3)).WithShape("rich0").Reader().(obs.RichSource), "unbuffered/fixed3"
	case 5:
		return bufio.NewReaderSize(obs.NewSource(prof, -1, nil, obs.Full), 100), "bufio100/full"
	default:
		// embedded: the header starts so that byte (how-dependent) of it is the last one in a 4096-byte buffer fill
		at := []int{2, 30, 50, 90, 110}[how%5]
		pre := 4096 - at
		data := append(make([]byte, pre), prof...)
		br := bufio.NewReader(obs.NewSource(data, -1, nil, obs.Full))
		br.Discard(pre)
		return br, fmt.Sprint("bufio/embedded@-", at)
	}
}

var presentCounter uint32

// observeHeader runs the real ICC reader on header + a one-tag table.
func observeHeader(h []byte) map[string]interface{} {
	prof := append(append([]byte{}, h...), 0, 0, 0, 1, 'c', 'p', 'r', 't', 0, 0, 0, 144, 0, 0, 0, 4, 1, 2, 3, 4)
	ev := map[string]interface{}{"kind": "hdr", "hdr": ints(h)}
	n := int(atomic.AddUint32(&presentCounter, 1))
	if n%19 == 7 {
		// the same ProfileReader asked again, after a first call that found its source still empty
		var buf bytes.Buffer
		pr := icc.NewProfileReader(&buf)
		if _, err := pr.ReadProfile(); err == nil {
			ev["reader"] = "bytes.Buffer/empty"
			return headerEvent(ev, nil, fmt.Errorf("ReadProfile succeeded on an empty source"))
		}
		buf.Write(prof)
		ev["reader"] = "bytes.Buffer/second call after an empty first"
		p, err := pr.ReadProfile()
		return headerEvent(ev, p, err)
	}
	if n%19 == 11 {
		// two profiles one after the other through ONE ProfileReader: what the first call returned stays
		// what it was when the reader goes on to the next profile
		h2 := append([]byte{}, h...)
		for i := 48; i < 100; i++ {
			h2[i] ^= 0x5A // manufacturer, model, attributes, intent, illuminant, creator, part of the ID
		}
		prof2 := append(append([]byte{}, h2...), prof[128:]...)
		pr := icc.NewProfileReader(bytes.NewReader(append(append([]byte{}, prof...), prof2...)))
		p1, err := pr.ReadProfile()
		pr.ReadProfile() // the second profile; its outcome is not this event's concern
		ev["reader"] = "bytes.Reader/first of two profiles, observed after the second was read"
		return headerEvent(ev, p1, err)
	}
	rd, how := present(prof, n)
	ev["reader"] = how
	p, err := icc.NewProfileReader(rd).ReadProfile()
	return headerEvent(ev, p, err)
}

func headerEvent(ev map[string]interface{}, p *icc.Profile, err error) map[string]interface{} {
	if err != nil {
		ev["ok"] = false
		ev["err"] = err.Error()
		ev["obs"] = map[string]interface{}{}
		ev["date"] = []int{}
		ev["unix"] = []int{}
		return ev
	}
	ev["ok"] = true
	H := p.Header
	ill := append(append(be32(H.PCSIlluminant[0]), be32(H.PCSIlluminant[1])...), be32(H.PCSIlluminant[2])...)
	var attr [8]byte
	binary.BigEndian.PutUint64(attr[:], H.DeviceAttributes)
	ev["obs"] = map[string]interface{}{
		"size": be32(H.ProfileSize), "cmm": be32(uint32(H.PreferredCMM)),
		"major": int(H.Version.Major), "minor": int(H.Version.MinorAndRev),
		"class": be32(uint32(H.DeviceClass)), "space": be32(uint32(H.DataColorSpace)),
		"pcs": be32(uint32(H.ProfileConnectionSpace)), "platform": be32(uint32(H.PrimaryPlatform)),
		"embedded": H.Embedded, "depends": H.DependsOnEmbeddedData,
		"manufacturer": be32(uint32(H.DeviceManufacturer)), "model": be32(uint32(H.DeviceModel)),
		"attributes": ints(attr[:]), "intent": be32(uint32(H.RenderingIntent)),
		"illuminant": ill, "creator": be32(uint32(H.ProfileCreator)), "id": ints(H.ProfileID[:]),
		"version": H.Version.String(),
	}
	t := H.CreatedAt
	ev["date"] = []int{t.Year(), int(t.Month()), t.Day(), t.Hour(), t.Minute(), t.Second()}
	u := t.Unix()
	days := u / 86400
	if u%86400 < 0 {
		days--
	}
	ev["unix"] = []int{int(days), int(u - days*86400)}
	return ev
}

func icchdrCmd(args []string) error {
	fs := flag.NewFlagSet("icchdr", flag.ExitOnError)
	outDir := fs.String("out", "", "")
	tier := fs.String("tier", "quick", "")
	seed := fs.Int64("seed", 1, "")
	fs.Parse(args)
	rng := rand.New(rand.NewSource(*seed))
	sink, done, err := newSink(filepath.Join(*outDir, "c16.ndjson"))
	if err != nil {
		return err
	}
	defer done()
	zero := make([]byte, 128)
	copy(zero[36:], "acsp")
	ones := bytes.Repeat([]byte{0xFF}, 128)
	copy(ones[36:], "acsp")
	tmpl := gen.ICCHeader(0x01020304)
	bases := [][]byte{zero, ones, tmpl}
	emit := func(h []byte) { sink.put(observeHeader(h)) }
	for _, b := range bases {
		emit(b)
		// walking ones / zeros over all 1024 bit positions
		for pos := 0; pos < 1024; pos++ {
			h := append([]byte{}, b...)
			h[pos/8] ^= 1 << (7 - pos%8)
			emit(h)
		}
	}
	// every field all-ones alone / all-zeros alone
	fields := [][2]int{{0, 4}, {4, 4}, {8, 4}, {12, 4}, {16, 4}, {20, 4}, {24, 12}, {40, 4}, {44, 4}, {48, 4}, {52, 4}, {56, 8}, {64, 4}, {68, 12}, {80, 4}, {84, 16}, {100, 28}}
	for _, f := range fields {
		for _, fill := range []byte{0xFF, 0x00} {
			for _, b := range []([]byte){zero, ones, tmpl} {
				h := append([]byte{}, b...)
				for i := 0; i < f[1]; i++ {
					h[f[0]+i] = fill
				}
				emit(h)
			}
		}
	}
	// every valid date-time component
	setDate := func(h []byte, d [6]int) {
		for i, v := range d {
			binary.BigEndian.PutUint16(h[24+2*i:], uint16(v))
		}
	}
	base := [6]int{2021, 7, 15, 11, 22, 33}
	sweep := func(idx, lo, hi, step int) {
		for v := lo; v <= hi; v += step {
			d := base
			d[idx] = v
			h := append([]byte{}, tmpl...)
			setDate(h, d)
			emit(h)
		}
	}
	ystep := 97
	if *tier == "thorough" {
		ystep = 1
	}
	sweep(0, 0, 65535, ystep)
	sweep(1, 1, 12, 1)
	sweep(2, 1, 28, 1)
	sweep(3, 0, 23, 1)
	sweep(4, 0, 59, 1)
	sweep(5, 0, 59, 1)
	for _, d := range [][6]int{{2020, 2, 29, 0, 0, 0}, {1900, 2, 28, 23, 59, 59}, {2000, 2, 29, 12, 0, 0}, {65535, 12, 31, 23, 59, 59}, {1, 1, 1, 0, 0, 0}} {
		h := append([]byte{}, tmpl...)
		setDate(h, d)
		emit(h)
	}
	// flags: all 4 combinations of bits 0/1 with noise in the other 30 bits
	for v := 0; v < 4; v++ {
		for _, noise := range []uint32{0, 0xFFFFFFFC, 0x80000000, 0x40000000, 0xC0000000, rng.Uint32() &^ 3} {
			h := append([]byte{}, tmpl...)
			binary.BigEndian.PutUint32(h[44:], noise|uint32(v))
			emit(h)
		}
	}
	// seeded random headers, with and without the signature
	nr := 3000
	if *tier == "thorough" {
		nr = 20000
	}
	for i := 0; i < nr; i++ {
		h := make([]byte, 128)
		rng.Read(h)
		if i%8 != 0 {
			copy(h[36:], "acsp")
		}
		if i%3 == 0 { // valid date so that it is compared
			setDate(h, [6]int{rng.Intn(65536), 1 + rng.Intn(12), 1 + rng.Intn(28), rng.Intn(24), rng.Intn(60), rng.Intn(60)})
		}
		emit(h)
	}
	// Version.String for every pair of version bytes
	step := 1
	if *tier != "thorough" {
		step = 1 // 65,536 events are cheap enough for both tiers
	}
	for maj := 0; maj < 256; maj += step {
		for mr := 0; mr < 256; mr++ {
			v := icc.Version{Major: byte(maj), MinorAndRev: byte(mr)}
			sink.put(map[string]interface{}{"kind": "ver", "major": maj, "minor": mr, "str": v.String()})
		}
	}
	fmt.Printf("{\"events\":%d}\n", sink.n)
	return nil
}
