package main

import (
	"bufio"
	"bytes"
	"encoding/json"
	"flag"
	"fmt"
	"image"
	"image/color"
	"image/draw"
	"os"
	"path/filepath"
	"runtime"
	"strings"
	"sync/atomic"
	"time"

	"github.com/mandykoh/prism/adobergb"
	"github.com/mandykoh/prism/displayp3"
	"github.com/mandykoh/prism/linear"
	"github.com/mandykoh/prism/prophotorgb"
	"github.com/mandykoh/prism/srgb"

	"verif/harness/img"
)

func init() { commands["imagexform"] = imagexformCmd }

type xcfg struct {
	SW, SH, SX, SY, DX, DY, EW, EH, ML, MR, MT, MB, P int
	Inplace                                           bool
}

func (c *xcfg) UnmarshalJSON(b []byte) error {
	var m struct {
		SW      int  `json:"sw"`
		SH      int  `json:"sh"`
		SX      int  `json:"sx"`
		SY      int  `json:"sy"`
		DX      int  `json:"dx"`
		DY      int  `json:"dy"`
		EW      int  `json:"ew"`
		EH      int  `json:"eh"`
		ML      int  `json:"ml"`
		MR      int  `json:"mr"`
		MT      int  `json:"mt"`
		MB      int  `json:"mb"`
		P       int  `json:"p"`
		Inplace bool `json:"inplace"`
	}
	if err := json.Unmarshal(b, &m); err != nil {
		return err
	}
	*c = xcfg{m.SW, m.SH, m.SX, m.SY, m.DX, m.DY, m.EW, m.EH, m.ML, m.MR, m.MT, m.MB, m.P, m.Inplace}
	return nil
}

type xcase struct {
	CfgRaw json.RawMessage `json:"cfg"`
	Cfg    xcfg            `json:"-"`
	Stride int             `json:"stride"`
	Base   int             `json:"base"`
	NCells int             `json:"ncells"`
	Writes [][3]int        `json:"writes"`
	Wide   bool            `json:"wide"` // too large for position-coded colours: byte comparison (G) only
}

type xform struct {
	name  string
	image func(dst draw.Image, src image.Image, p int)
	pixel func(color.Color) color.RGBA64
}

var xforms = []xform{
	{"srgb.Linearise", srgb.LineariseImage, srgb.LineariseColor},
	{"srgb.Encode", srgb.EncodeImage, srgb.EncodeColor},
	{"adobergb.Linearise", adobergb.LineariseImage, adobergb.LineariseColor},
	{"adobergb.Encode", adobergb.EncodeImage, adobergb.EncodeColor},
	{"prophotorgb.Linearise", prophotorgb.LineariseImage, prophotorgb.LineariseColor},
	{"prophotorgb.Encode", prophotorgb.EncodeImage, prophotorgb.EncodeColor},
	{"displayp3.Linearise", displayp3.LineariseImage, displayp3.LineariseColor},
	{"displayp3.Encode", displayp3.EncodeImage, displayp3.EncodeColor},
	// the generic transform beneath them, with a colour function of the caller's own ...
	{"linear.TransformImageColor(own f)", func(dst draw.Image, src image.Image, p int) { linear.TransformImageColor(dst, src, p, ownColour) }, ownColour},
	// ... and with one that makes the library's workers advance in lockstep (each call waits, briefly,
	// until as many calls have arrived as there are workers): the workers then reach every hand-over
	// point together, which is where a shared cursor or a shared scratch value would show
	{"linear.TransformImageColor(lockstep f)", func(dst draw.Image, src image.Image, p int) {
		linear.TransformImageColor(dst, src, p, lockstep(p, ownColour))
	}, ownColour},
}

func ownColour(c color.Color) color.RGBA64 {
	r, g, b, a := c.RGBA()
	return color.RGBA64{R: uint16(b), G: uint16(r) ^ uint16(a>>1), B: uint16(g/2 + 7), A: uint16(a)}
}

func lockstep(parties int, f func(color.Color) color.RGBA64) func(color.Color) color.RGBA64 {
	if parties < 1 {
		parties = 1
	}
	var arrived int64
	return func(c color.Color) color.RGBA64 {
		n := atomic.AddInt64(&arrived, 1)
		target := ((n-1)/int64(parties) + 1) * int64(parties)
		deadline := time.Now().Add(300 * time.Microsecond)
		for atomic.LoadInt64(&arrived) < target && time.Now().Before(deadline) {
			runtime.Gosched()
		}
		return f(c)
	}
}

// pixelBytes renders c as the destination type stores it.
func pixelBytes(dstKind string, c color.Color) []byte {
	d, _ := img.New(dstKind, image.Rect(0, 0, 1, 1), 0, 0, 0, 0, 1, false)
	dd := d.(draw.Image)
	dd.Set(0, 0, c)
	return append([]byte{}, img.Pix(dd)[:img.BytesPerPixel(dd)]...)
}

// runG applies a real image transform to a real configuration and compares every
// byte of the destination's parent with the specification's write map.
func runG(c xcase, srcKind, dstKind string, xf xform, par int, seed uint32) (string, bool) {
	g := c.Cfg
	srcR := image.Rect(g.SX, g.SY, g.SX+g.SW, g.SY+g.SH)
	dstR := image.Rect(g.DX, g.DY, g.DX+g.SW+g.EW, g.DY+g.SH+g.EH)
	dstSub, dstParent := img.New(dstKind, dstR, g.ML, g.MT, g.MR, g.MB, seed+1, false)
	var src image.Image
	if g.Inplace {
		src = dstSub
	} else {
		// the source as a whole image, a sub-image with margins all round, a full-width band with
		// parent rows below / above (stride = width, Pix longer than the rectangle), a column
		sm := [][4]int{{0, 0, 0, 0}, {1, 0, 0, 1}, {0, 0, 0, 2}, {0, 1, 0, 0}, {1, 1, 1, 1}, {0, 2, 0, 3}, {2, 0, 1, 0}}[int(seed)%7]
		src, _ = img.New(srcKind, srcR, sm[0], sm[1], sm[2], sm[3], seed, true)
	}
	if g.Inplace && seed%2 == 0 {
		// in place on a ramp: every pixel is the transform of its left neighbour's ORIGINAL
		// value (and the row above), so reusing an already-overwritten neighbour shows
		type setter interface {
			Set(x, y int, c color.Color)
		}
		var st setter
		switch v := dstSub.(type) {
		case img.OpaqueDraw:
			st = v.Image
		default:
			st = dstSub.(setter)
		}
		for y := srcR.Min.Y; y < srcR.Max.Y; y++ {
			var c color.Color = color.RGBA64{R: uint16(1000 + 257*int(seed%200)), G: uint16(30000 + y), B: 61000, A: 65535}
			for x := srcR.Min.X; x < srcR.Max.X; x++ {
				st.Set(x, y, c)
				c = xf.pixel(dstSub.At(x, y))
			}
		}
	}
	before := append([]byte{}, img.Pix(dstParent)...)
	// capture the source colours first (in place they are about to be overwritten)
	srcCol := map[[2]int]color.Color{}
	for _, w := range c.Writes {
		c0 := src.At(w[1], w[2])
		r, gg, b, a := c0.RGBA()
		srcCol[[2]int{w[1], w[2]}] = color.RGBA64{uint16(r), uint16(gg), uint16(b), uint16(a)}
		_ = c0
	}
	var pan interface{}
	func() {
		defer func() { pan = recover() }()
		xf.image(dstSub.(draw.Image), src, par)
	}()
	if pan != nil {
		return fmt.Sprintf("panic: %v", pan), false
	}
	after := img.Pix(dstParent)
	bpp := img.BytesPerPixel(dstParent)
	exp := append([]byte{}, before...)
	for _, w := range c.Writes {
		// the per-colour function applied to the source pixel, as the source presents it
		var in color.Color = srcCol[[2]int{w[1], w[2]}]
		if !g.Inplace {
			in = src.At(w[1], w[2])
		}
		copy(exp[w[0]*bpp:], pixelBytes(dstKind, xf.pixel(in)))
	}
	if !bytes.Equal(exp, after) {
		for i := range exp {
			if exp[i] != after[i] {
				return fmt.Sprintf("byte %d (cell %d) is %d, specification says %d", i, i/bpp, after[i], exp[i]), false
			}
		}
	}
	return "", true
}

// runT records, with position-coded colours and a marking transform, which source
// pixel ended up in which cell of the destination's parent.
func runT(c xcase, srcKind, dstKind string, par int) (obs [][3]int, pan string) {
	g := c.Cfg
	srcR := image.Rect(g.SX, g.SY, g.SX+g.SW, g.SY+g.SH)
	dstR := image.Rect(g.DX, g.DY, g.DX+g.SW+g.EW, g.DY+g.SH+g.EH)
	dstSub, dstParent := img.New(dstKind, dstR, g.ML, g.MT, g.MR, g.MB, 1, false)
	pp := img.Pix(dstParent)
	for i := range pp {
		pp[i] = 0
	}
	var src image.Image
	if g.Inplace {
		src = dstSub
	} else {
		src, _ = img.New(srcKind, srcR, 1, 1, 0, 1, 1, false)
	}
	type setter interface {
		Set(x, y int, c color.Color)
	}
	for y := srcR.Min.Y; y < srcR.Max.Y; y++ {
		for x := srcR.Min.X; x < srcR.Max.X; x++ {
			xi, yi := x-srcR.Min.X+1, y-srcR.Min.Y+1
			var s setter
			switch v := src.(type) {
			case img.Opaque:
				s = v.Image.(setter)
			case img.OpaqueDraw:
				s = v.Image
			default:
				s = src.(setter)
			}
			s.Set(x, y, color.RGBA64{R: uint16(xi) * 0x1111, G: uint16(yi) * 0x1111, B: 0x8080, A: 0xFFFF})
		}
	}
	mark := func(cc color.Color) color.RGBA64 {
		r, gg, _, a := cc.RGBA()
		return color.RGBA64{R: uint16(r), G: uint16(gg), B: 0x4040, A: uint16(a)}
	}
	func() {
		defer func() {
			if r := recover(); r != nil {
				pan = fmt.Sprint(r)
			}
		}()
		linear.TransformImageColor(dstSub.(draw.Image), src, par, mark)
	}()
	pr := dstParent.Bounds()
	k := 0
	for y := pr.Min.Y; y < pr.Max.Y; y++ {
		for x := pr.Min.X; x < pr.Max.X; x++ {
			r, gg, b, _ := dstParent.At(x, y).RGBA()
			if b>>8 == 0x40 {
				obs = append(obs, [3]int{k, g.SX + int(r>>8)/0x11 - 1, g.SY + int(gg>>8)/0x11 - 1})
			}
			k++
		}
	}
	if obs == nil {
		obs = [][3]int{}
	}
	return
}

func imagexformCmd(args []string) error {
	fs := flag.NewFlagSet("imagexform", flag.ExitOnError)
	in := fs.String("cases", "", "")
	outDir := fs.String("out", "", "")
	tier := fs.String("tier", "quick", "")
	seed := fs.Int64("seed", 1, "")
	serial := fs.String("serial", "", "run single-threaded, writing a marker line to this file before every run (crash forensics)")
	fs.Parse(args)
	f, err := os.Open(*in)
	if err != nil {
		return err
	}
	defer f.Close()
	sc := bufio.NewScanner(f)
	sc.Buffer(make([]byte, 1<<20), 1<<26)
	var cases []xcase
	for sc.Scan() {
		var c xcase
		if err := json.Unmarshal(sc.Bytes(), &c); err != nil {
			return err
		}
		if err := json.Unmarshal(c.CfgRaw, &c.Cfg); err != nil {
			return err
		}
		cases = append(cases, c)
	}
	tsink, tdone, err := newSink(filepath.Join(*outDir, "c10.ndjson"))
	if err != nil {
		return err
	}
	defer tdone()
	gsink, gdone, err := newSink(filepath.Join(*outDir, "c10_g.ndjson"))
	if err != nil {
		return err
	}
	defer gdone()
	traceSrc := []string{"RGBA64", "NRGBA64", "RGBA", "NRGBA", "Opaque"}
	inplaceKinds := []string{"RGBA64", "RGBA", "NRGBA", "NRGBA64", "OpaqueDraw"}
	combos := 12
	if *tier == "thorough" {
		combos = 200
	}
	srcKinds := img.SrcKinds[:img.NListedSrcKinds]
	var gTotal, gBad int64
	var mark func(string)
	runAll := parallel
	if *serial != "" {
		mf, err := os.Create(*serial)
		if err != nil {
			return err
		}
		defer mf.Close()
		mark = func(s string) { mf.WriteString(s + "\n"); mf.Sync() }
		runAll = func(n int, fn func(int)) {
			for i := 0; i < n; i++ {
				fn(i)
			}
		}
	}
	runAll(len(cases), func(i int) {
		c := cases[i]
		rows := c.Cfg.SH
		pars := []int{c.Cfg.P, 1, 2, 3, 7, 16, rows + 5}
		// T: which source pixel landed in which cell
		for t := 0; t < 2 && !c.Wide; t++ {
			sk := traceSrc[(i+t)%len(traceSrc)]
			dk := img.DstKinds[(i/3+t)%len(img.DstKinds)]
			if c.Cfg.Inplace {
				dk = inplaceKinds[(i+t)%len(inplaceKinds)]
				sk = dk
			}
			par := pars[(i+t)%len(pars)]
			if mark != nil {
				mark(fmt.Sprintf(`{"id":%d,"cfg":%s,"src":%q,"dst":%q,"par":%d,"xform":"TransformImageColor(marking)"}`, i+1, c.CfgRaw, sk, dk, par))
			}
			obs, pan := runT(c, sk, dk, par)
			ev := map[string]interface{}{"id": i + 1, "cfg": c.CfgRaw, "src": sk, "dst": dk, "par": par, "observed": obs, "panic": pan != ""}
			if pan != "" {
				ev["panic_text"] = pan
			}
			tsink.put(ev)
		}
		// G: the real transforms on real image types, every byte compared
		for k := 0; k < combos; k++ {
			n := i*combos + k + int(*seed)
			sk := srcKinds[n%len(srcKinds)]
			if (c.Cfg.SX < 0 || c.Cfg.SY < 0) && strings.HasPrefix(sk, "YCbCr") && sk != "YCbCr444" {
				// image.YCbCr itself mis-indexes subsampled planes at negative odd origins
				sk = "YCbCr444"
			}
			dk := img.DstKinds[(n/len(srcKinds))%len(img.DstKinds)]
			if c.Cfg.Inplace {
				dk = inplaceKinds[n%len(inplaceKinds)]
				sk = dk
			}
			xf := xforms[(n/7)%len(xforms)]
			par := pars[(n/3)%len(pars)]
			if mark != nil {
				mark(fmt.Sprintf(`{"id":%d,"cfg":%s,"src":%q,"dst":%q,"par":%d,"xform":%q}`, i+1, c.CfgRaw, sk, dk, par, xf.name))
			}
			why, ok := runG(c, sk, dk, xf, par, uint32(n))
			rec := map[string]interface{}{"id": i + 1, "cfg": c.CfgRaw, "src": sk, "dst": dk, "xform": xf.name, "par": par, "ok": ok}
			if !ok {
				rec["why"] = why
			}
			gsink.put(rec)
		}
	})
	_ = gTotal
	_ = gBad
	fmt.Printf("{\"cases\":%d,\"trace_events\":%d,\"replays\":%d}\n", len(cases), tsink.n, gsink.n)
	return nil
}
