package main

import (
	"bufio"
	"encoding/json"
	"flag"
	"fmt"
	"io"
	"math/rand"
	"os"
	"path/filepath"
	"sort"
	"strings"
	"time"

	"github.com/mandykoh/prism/meta/icc"

	"verif/harness/gen"
	"verif/harness/obs"
)

func init() { commands["interleave"] = interleaveCmd }

// gated is a source whose every delivery waits for the scheduler's grant: the pieces of two
// readers' inputs can be interleaved in any prescribed order (spec/Interleave.tla).
type gated struct {
	data   []byte
	bounds []int // piece k (0-based) ends at bounds[k]; the last piece runs to the end of data
	k      int
	pos    int
	end    int
	arrive chan struct{} // reader -> scheduler: "blocked, waiting for the next piece"
	grant  chan struct{}
}

func newGated(data []byte, bounds []int) *gated {
	return &gated{data: data, bounds: bounds, arrive: make(chan struct{}, 1), grant: make(chan struct{})}
}

func (g *gated) Read(p []byte) (int, error) {
	if g.pos >= len(g.data) {
		return 0, io.EOF
	}
	if len(p) == 0 {
		return 0, nil
	}
	if g.pos >= g.end { // a new piece: wait for the scheduler
		g.arrive <- struct{}{}
		<-g.grant
		for g.pos >= g.end {
			if g.k < len(g.bounds) && g.bounds[g.k] < len(g.data) {
				g.end = g.bounds[g.k]
			} else {
				g.end = len(g.data)
			}
			g.k++
		}
	}
	n := copy(p, g.data[g.pos:g.end])
	g.pos += n
	return n, nil
}

// runSchedule forces sched (a sequence over "A","B") on two goroutines running fnA, fnB over
// gated sources.  Returns false if the schedule could not be followed (a reader asked for
// fewer / more deliveries than the model's pieces): such runs are not judged.
func runSchedule(sched []string, a, b *gated, fnA, fnB func()) (followed bool, hung bool) {
	type side struct {
		g    *gated
		done chan struct{}
	}
	sides := map[string]*side{"A": {a, make(chan struct{})}, "B": {b, make(chan struct{})}}
	go func() { defer close(sides["A"].done); fnA() }()
	go func() { defer close(sides["B"].done); fnB() }()
	followed = true
	wait := func(s *side) (arrived bool, hung bool) {
		select {
		case <-s.g.arrive:
			return true, false
		case <-s.done:
			return false, false
		case <-time.After(20 * time.Second):
			return false, true
		}
	}
	for _, r := range sched {
		s := sides[r]
		arrived, h := wait(s)
		if h {
			return false, true
		}
		if !arrived { // finished early (e.g. rejected the input): nothing left to deliver for it
			followed = false
			continue
		}
		s.g.grant <- struct{}{}
		// the delivery is complete once the reader is blocked again or has finished; put the
		// arrival token back for the next step of the same reader
		select {
		case <-s.g.arrive:
			s.g.arrive <- struct{}{}
		case <-s.done:
		case <-time.After(20 * time.Second):
			return false, true
		}
	}
	// let both run to the end
	for _, s := range sides {
		for {
			arrived, h := wait(s)
			if h {
				return false, true
			}
			if !arrived {
				break
			}
			followed = false
			s.g.grant <- struct{}{}
		}
	}
	return followed, false
}

func readSchedules(path string) ([][]string, error) {
	raw, err := os.ReadFile(path)
	if err != nil {
		return nil, err
	}
	var out [][]string
	for _, l := range strings.Split(strings.TrimSpace(string(raw)), "\n") {
		var v struct {
			Sched []string `json:"sched"`
		}
		if err := json.Unmarshal([]byte(l), &v); err != nil {
			return nil, err
		}
		out = append(out, v.Sched)
	}
	return out, nil
}

func interleaveCmd(args []string) error {
	fs := flag.NewFlagSet("interleave", flag.ExitOnError)
	schedPath := fs.String("scheds", "", "schedules printed by TLC (Interleave.tla)")
	outDir := fs.String("out", "", "")
	seed := fs.Int64("seed", 1, "")
	what := fs.String("what", "icc", "icc | loaders")
	repo := fs.String("repo", "/repo", "")
	fs.Parse(args)
	scheds, err := readSchedules(*schedPath)
	if err != nil {
		return err
	}
	rng := rand.New(rand.NewSource(*seed))
	if *what == "loaders" {
		return interleaveLoaders(scheds, *outDir, *repo, rng)
	}
	sink, done, err := newSink(filepath.Join(*outDir, "c16i.ndjson"))
	if err != nil {
		return err
	}
	defer done()
	// piece boundaries (NChunks = 4: three cuts, the rest flows).  The first cut visits every
	// offset inside the header, so that a delivery boundary falls inside every field; each
	// first cut is combined with every schedule of TLC's list.
	tail := []byte{0, 0, 0, 1, 'c', 'p', 'r', 't', 0, 0, 0, 144, 0, 0, 0, 4, 1, 2, 3, 4}
	mk := func() []byte {
		h := make([]byte, 128)
		rng.Read(h)
		copy(h[36:], "acsp")
		return append(h, tail...)
	}
	nper := 70
	if len(scheds) < nper {
		nper = len(scheds)
	}
	reps := len(scheds) / nper // the check repeats TLC's list to ask for more
	nfollowed, nruns := 0, 0
	for c1 := 1; c1 <= 127; c1++ {
		for rep := 0; rep < reps; rep++ {
			if rep > 0 && c1%4 != rep%4 {
				continue
			}
			c2 := c1 + 1 + rng.Intn(40)
			if c2 > 130 {
				c2 = 130
			}
			bounds := []int{c1, c2, 132}
			for si := 0; si < nper; si++ {
				sc := scheds[si]
				pa, pb := mk(), mk()
				ga, gb := newGated(pa, append([]int{}, bounds...)), newGated(pb, append([]int{}, bounds...))
				var ra, rb *icc.Profile
				var ea, eb error
				followed, hung := runSchedule(sc, ga, gb,
					func() { ra, ea = icc.NewProfileReader(bufio.NewReader(ga)).ReadProfile() },
					func() { rb, eb = icc.NewProfileReader(bufio.NewReader(gb)).ReadProfile() })
				if hung {
					return fmt.Errorf("schedule %v: a reader neither asked for data nor finished within 20 s", sc)
				}
				nruns++
				if followed {
					nfollowed++
				}
				name := fmt.Sprintf("interleaved %s cuts %v", strings.Join(sc, ""), bounds)
				sink.put(headerEvent(map[string]interface{}{"kind": "hdr", "hdr": ints(pa[:128]), "reader": name + " (A)"}, ra, ea))
				sink.put(headerEvent(map[string]interface{}{"kind": "hdr", "hdr": ints(pb[:128]), "reader": name + " (B)"}, rb, eb))
			}
		}
	}
	fmt.Printf("{\"schedules\":%d,\"followed\":%d,\"events\":%d}\n", nruns, nfollowed, sink.n)
	return nil
}

// interleaveLoaders: two metadata loaders on two different files under every schedule; each
// must return what it returns alone.
func interleaveLoaders(scheds [][]string, outDir, repo string, rng *rand.Rand) error {
	sink, done, err := newSink(filepath.Join(outDir, "iso.ndjson"))
	if err != nil {
		return err
	}
	defer done()
	type file struct {
		name   string
		loader string
		data   []byte
	}
	var files []file
	names, _ := filepath.Glob(filepath.Join(repo, "test-images", "*"))
	for _, n := range names {
		d, err := os.ReadFile(n)
		if err != nil {
			continue
		}
		if len(d) > 1<<20 {
			d = d[:1<<20]
		}
		l := map[string]string{".png": "png", ".jpg": "jpeg", "webp": "webp"}[n[len(n)-4:]]
		if l != "" {
			files = append(files, file{filepath.Base(n), l, d})
		}
	}
	// families of small files that differ from each other in every field the loaders report
	// (dimensions, profile): a value that leaks from one load into another is visible
	fams := map[string][]file{}
	for i := 0; i < 3; i++ {
		w, h := uint32(7+100*i), uint32(9+50*i)
		prof := gen.SimpleProfile(700+333*i, fmt.Sprint("interleave ", i), i%2 == 0, uint32(i))
		parts := gen.SplitICC(prof, 2)
		vp8, _ := gen.BuildWebP([]gen.WChunk{gen.VP8(uint16(w), uint16(h), byte(i), byte(3-i), gen.VP8Body(40))}, -1)
		vp8l, _ := gen.BuildWebP([]gen.WChunk{gen.VP8L(w, h, i%2 == 0, gen.Payload(30, 1, false))}, -1)
		vp8x, _ := gen.BuildWebP([]gen.WChunk{gen.VP8X(gen.VP8XICC, w, h), gen.WC("ICCP", prof), gen.VP8(5, 6, 0, 0, gen.VP8Body(40))}, -1)
		png, _ := gen.BuildPNG([]gen.PNGChunk{gen.IHDR(w, h, 8, 6, 0), gen.ICCP("p", 0, gen.Deflate(prof, 6)), gen.Chunk("IDAT", gen.Payload(80, 2, false)), gen.Chunk("IEND", nil)})
		jpg, _ := gen.BuildJPEG([]gen.JSeg{gen.SOI(), gen.JFIF(), gen.ICCSeg(1, 2, parts[0]), gen.ICCSeg(2, 2, parts[1]), gen.DQT(0),
			gen.SOF(0xC0, 8, uint16(h), uint16(w), gen.StdComps(3, 0x22)), gen.DHT(0, 0), gen.SOS(3, gen.EntropyBytes(60, 5)), gen.EOI()})
		fams["vp8"] = append(fams["vp8"], file{fmt.Sprint("vp8-", i), "webp", vp8})
		fams["vp8l"] = append(fams["vp8l"], file{fmt.Sprint("vp8l-", i), "webp", vp8l})
		fams["vp8x"] = append(fams["vp8x"], file{fmt.Sprint("vp8x-", i), "webp", vp8x})
		fams["png"] = append(fams["png"], file{fmt.Sprint("png-", i), "png", png})
		fams["jpeg"] = append(fams["jpeg"], file{fmt.Sprint("jpeg-", i), "jpeg", jpg})
	}
	var pairs [][2]file
	for _, fn := range []string{"vp8", "vp8l", "vp8x", "png", "jpeg"} {
		f := fams[fn]
		pairs = append(pairs, [2]file{f[0], f[1]}, [2]file{f[1], f[2]}, [2]file{f[2], f[0]})
		files = append(files, f...)
	}
	pairs = append(pairs, [2]file{fams["vp8"][0], fams["vp8l"][1]}, [2]file{fams["vp8l"][2], fams["vp8"][1]})
	solo := func(f file, loader string) string {
		o := obs.Run(loader, obs.NewSource(f.data, -1, nil, obs.Full), false, false)
		return o.Outcome()
	}
	nfollowed := 0
	// every schedule of the first block (one copy of TLC's list) on every same-family pair;
	// further copies of the list on seeded pairs of any files
	nper := 70
	if len(scheds) < nper {
		nper = len(scheds)
	}
	type run struct {
		sc     []string
		fa, fb file
	}
	var runs []run
	for pi, pr := range pairs {
		for k := 0; k < nper; k++ {
			if pi%2 == 0 {
				runs = append(runs, run{scheds[k], pr[0], pr[1]})
			} else {
				runs = append(runs, run{scheds[k], pr[1], pr[0]})
			}
		}
	}
	for _, sc := range scheds {
		runs = append(runs, run{sc, files[rng.Intn(len(files))], files[rng.Intn(len(files))]})
	}
	for si, rn := range runs {
		sc, fa, fb := rn.sc, rn.fa, rn.fb
		la, lb := fa.loader, fb.loader
		if si%3 == 0 {
			la, lb = "auto", "auto"
		}
		cuts := func(f file, loader string) []int { // three cuts inside the part of the file this loader needs
			need := obs.Run(loader, obs.NewSource(f.data, -1, nil, obs.Sched{Name: "fixed1", Sizes: []int{1}, Cyclic: true}), false, false).Pulled
			if need < 8 {
				need = 8
			}
			c := []int{1 + rng.Intn(need-1), 1 + rng.Intn(need-1), 1 + rng.Intn(need-1)}
			sort.Ints(c)
			for i := 1; i < 3; i++ {
				if c[i] <= c[i-1] {
					c[i] = c[i-1] + 1
				}
			}
			return c
		}
		ga, gb := newGated(fa.data, cuts(fa, la)), newGated(fb.data, cuts(fb, lb))
		var oa, ob obs.Obs
		followed, hung := runSchedule(sc, ga, gb,
			func() { oa = obs.RunReader(la, ga) },
			func() { ob = obs.RunReader(lb, gb) })
		if hung {
			return fmt.Errorf("schedule %v: a loader neither asked for data nor finished within 20 s", sc)
		}
		if followed {
			nfollowed++
		}
		name := strings.Join(sc, "")
		sink.put(map[string]interface{}{"kind": "iso", "sched": name, "file": fa.name, "loader": la, "other": fb.name, "got": oa.Outcome(), "solo": solo(fa, la)})
		sink.put(map[string]interface{}{"kind": "iso", "sched": name, "file": fb.name, "loader": lb, "other": fa.name, "got": ob.Outcome(), "solo": solo(fb, lb)})
	}
	fmt.Printf("{\"schedules\":%d,\"followed\":%d,\"events\":%d}\n", len(runs), nfollowed, sink.n)
	return nil
}
