package main

import (
	"bufio"
	"encoding/json"
	"flag"
	"fmt"
	"math/rand"
	"os"
	"strings"

	"verif/harness/concrete"
	"verif/harness/obs"
)

func init() { commands["dims"] = dimsCmd }

// dimsCmd sweeps the dimension fields of every header kind (C05's
// quantifier) and writes events in the TraceContainers format: the abstract
// file is the single header chunk (plus what the format needs around it).
func mustFile(js string) []concrete.Chunk {
	var f []concrete.Chunk
	if err := json.Unmarshal([]byte(js), &f); err != nil {
		panic(err)
	}
	return f
}

func dimsCmd(args []string) error {
	fs := flag.NewFlagSet("dims", flag.ExitOnError)
	out := fs.String("out", "", "ndjson of observation events")
	tier := fs.String("tier", "quick", "quick|thorough")
	seed := fs.Int64("seed", 1, "seed")
	icc := fs.Bool("icc", false, "also emit the large / many-chunk ICC embeddings (C06)")
	fs.Parse(args)
	of, err := os.Create(*out)
	if err != nil {
		return err
	}
	defer of.Close()
	w := bufio.NewWriterSize(of, 1<<20)
	defer w.Flush()
	rng := rand.New(rand.NewSource(*seed))
	id := 0
	emit := func(fmtName string, file string) error {
		id++
		c := concrete.Case{Fmt: fmtName, FileRaw: json.RawMessage(file)}
		if err := json.Unmarshal(c.FileRaw, &c.File); err != nil {
			return err
		}
		b := concrete.Build(c, id%4)
		for _, loader := range []string{fmtName, "auto"} {
			shape := []string{"plain", "rich0", "rich5"}[id%3]
			o := obs.Run(loader, obs.NewSource(b.Data, -1, nil, obs.Full).WithShape(shape), false, false)
			ev := cEvent{ID: id, Variant: id % 4, Fmt: fmtName, Loader: loader, File: c.FileRaw, Len: len(b.Data), Member: true, Shape: shape}
			ev.Obs = concrete.Project(c, id%4, &o)
			js, _ := json.Marshal(ev)
			w.Write(js)
			w.WriteByte('\n')
		}
		return nil
	}
	// value sets per field width: all-zeros+1, all ones, every single bit, boundaries, seeded
	values := func(bits int, lo int64, exhaustive bool, nseed int) []int64 {
		max := int64(1)<<bits - 1
		set := map[int64]bool{}
		add := func(v int64) {
			if v >= lo && v <= max {
				set[v] = true
			}
		}
		if exhaustive {
			for v := lo; v <= max; v++ {
				set[v] = true
			}
		} else {
			for b := 0; b < bits; b++ {
				add(int64(1) << b)
				add(int64(1)<<b - 1)
				add(int64(1)<<b + 1)
				add(max &^ (int64(1) << b))
			}
			add(lo)
			add(lo + 1)
			add(max)
			add(max - 1)
			for i := 0; i < nseed; i++ {
				add(lo + rng.Int63n(max-lo+1))
			}
		}
		out := make([]int64, 0, len(set))
		for v := range set {
			out = append(out, v)
		}
		return out
	}
	others := []int64{1, 2, 255, 4097, 16383}
	ex := *tier == "thorough"
	nseed := 150
	type field struct {
		name    string
		fmtName string
		bits    int
		lo      int64
		exh     bool
		mk      func(w, h int64) string
	}
	fields := []field{
		{"vp8", "webp", 14, 1, ex, func(w, h int64) string {
			return fmt.Sprintf(`[{"t":"VP8","w":%d,"h":%d,"ws":%d,"hs":%d}]`, w, h, (w+h)%4, w%4)
		}},
		{"vp8l", "webp", 14, 1, ex, func(w, h int64) string {
			return fmt.Sprintf(`[{"t":"VP8L","w":%d,"h":%d,"alpha":%v}]`, w, h, w%2 == 0)
		}},
		{"vp8x", "webp", 24, 1, false, func(w, h int64) string {
			return fmt.Sprintf(`[{"t":"VP8X","iccf":false,"alpha":%v,"exif":false,"xmp":false,"w":%d,"h":%d},{"t":"VP8","w":5,"h":6,"ws":0,"hs":0}]`, h%2 == 0, w, h)
		}},
		{"sof", "jpeg", 16, 1, ex, func(w, h int64) string {
			return fmt.Sprintf(`[{"t":"SOF","kind":%d,"p":8,"h":%d,"w":%d,"nc":%d},{"t":"SOS"}]`, (w%2)*2, h, w, []int{1, 3, 4}[w%3])
		}},
		{"ihdr", "png", 31, 1, false, func(w, h int64) string {
			return fmt.Sprintf(`[{"t":"IHDR","w":%d,"h":%d,"d":8,"ct":6,"il":%d},{"t":"IDAT"},{"t":"IEND"}]`, w, h, w%2)
		}},
	}
	for _, f := range fields {
		max := int64(1)<<f.bits - 1
		if f.name == "vp8l" {
			max = 1 << 14 // VP8L stores w-1 in 14 bits
		}
		if f.name == "vp8x" {
			max = 1 << 24 // VP8X stores w-1 in 24 bits
		}
		vs := values(f.bits, f.lo, f.exh, nseed)
		if max > int64(1)<<f.bits-1 {
			vs = append(vs, max)
		}
		for i, v := range vs {
			o := others[i%len(others)]
			if o > max {
				o = max
			}
			if o < f.lo {
				o = f.lo
			}
			if o == v { // keep w != h so a swap is visible
				o = f.lo + (v+1)%7
			}
			if err := emit(f.fmtName, f.mk(v, o)); err != nil {
				return err
			}
			if err := emit(f.fmtName, f.mk(o, v)); err != nil {
				return err
			}
		}
	}
	// width x height pairs whose product is 0, 1 or negative in 32-bit (and 2^32, 2^48 in 64-bit)
	// arithmetic: legal declarations, the loaders report them as they stand
	for _, f := range fields {
		if f.bits < 24 {
			continue
		}
		for _, p := range [][2]int64{{1 << 16, 1 << 16}, {1 << 20, 1 << 12}, {1 << 12, 1 << 20}, {3 << 15, 1 << 17}, {1 << 16, 1 << 15}, {46341, 46341},
			{65537, 65535}, {1 << 24, 1 << 8}, {1 << 24, 1 << 24}, {1 << 30, 4}, {2, 1 << 30}, {1<<31 - 1, 1<<31 - 1}, {1 << 16, 3 << 16}, {641, 6700417}} {
			max := int64(1)<<f.bits - 1
			if f.name == "vp8x" {
				max = 1 << 24
			}
			if p[0] > max || p[1] > max {
				continue
			}
			if err := emit(f.fmtName, f.mk(p[0], p[1])); err != nil {
				return err
			}
		}
	}
	// more than a MiB of segments ahead of the frame header: a profile in 18 full-size chunks, then SOF
	{
		var big []string
		for q := 1; q <= 18; q++ {
			big = append(big, fmt.Sprintf(`{"t":"ICC","seq":%d,"total":18,"pid":%d}`, q, 100+q))
		}
		if err := emit("jpeg", `[{"t":"OTHER","kind":"app1"},`+strings.Join(big, ",")+`,{"t":"OTHER","kind":"dqt"},{"t":"SOF","kind":2,"p":8,"h":301,"w":402,"nc":3},{"t":"SOS"}]`); err != nil {
			return err
		}
	}
	// C06: profile sizes and chunk counts beyond the bounded grammar - 255 chunks in a seeded
	// order among other segments, full-size (65519-byte) chunks, multi-MiB profiles
	{ // (for C05 as well: the dimensions of a file whose profile comes in the largest legal number of chunks)
		perm := rng.Perm(255)
		var segs []string
		for k, pi := range perm {
			segs = append(segs, fmt.Sprintf(`{"t":"ICC","seq":%d,"total":255,"pid":%d}`, pi+1, 1000+pi+1))
			if k%40 == 7 {
				segs = append(segs, `{"t":"OTHER","kind":"app1"}`)
			}
			if k == 100 {
				segs = append(segs, `{"t":"SOF","kind":2,"p":8,"h":33,"w":44,"nc":3}`)
			}
		}
		if err := emit("jpeg", "["+strings.Join(segs, ",")+`,{"t":"SOS"}]`); err != nil {
			return err
		}
	}
	if *icc {
		perm := rng.Perm(255)
		var segs []string
		for k, pi := range perm {
			segs = append(segs, fmt.Sprintf(`{"t":"ICC","seq":%d,"total":255,"pid":%d}`, pi+1, 1000+pi+1))
			if k%40 == 7 {
				segs = append(segs, `{"t":"OTHER","kind":"app1"}`)
			}
			if k == 100 {
				segs = append(segs, `{"t":"SOF","kind":2,"p":8,"h":33,"w":44,"nc":3}`)
			}
		}
		// one chunk missing / duplicated: damaged
		miss := append([]string{}, segs[:50]...)
		miss = append(miss, segs[51:]...)
		if err := emit("jpeg", "["+strings.Join(miss, ",")+`,{"t":"SOS"}]`); err != nil {
			return err
		}
		// 9 full-size chunks (~590 KB) in reverse order
		var big []string
		for q := 9; q >= 1; q-- {
			big = append(big, fmt.Sprintf(`{"t":"ICC","seq":%d,"total":9,"pid":%d}`, q, 100+q))
		}
		if err := emit("jpeg", `[{"t":"SOF","kind":0,"p":8,"h":3,"w":4,"nc":1},`+strings.Join(big, ",")+`,{"t":"SOS"}]`); err != nil {
			return err
		}
		if err := emit("png", `[{"t":"IHDR","w":9,"h":8,"d":8,"ct":2,"il":0},{"t":"anc","size":"big"},{"t":"iCCP","name":79,"method":0,"z":"ok9","pid":8,"cross":true},{"t":"IDAT"},{"t":"IEND"}]`); err != nil {
			return err
		}
		if err := emit("webp", `[{"t":"VP8X","iccf":true,"alpha":false,"exif":false,"xmp":false,"w":70000,"h":3},{"t":"ICCP","pid":8,"cross":true},{"t":"VP8","w":5,"h":6,"ws":0,"hs":0}]`); err != nil {
			return err
		}
	}
	// C06: the end of the ICC-carrying structure at every offset around the loaders' 4096-byte
	// buffer boundary (what is read next - CRC, next header - then comes from a fresh fill)
	if *icc {
		for _, pid := range []int{2, 4} {
			for r := -9; r <= 9; r++ {
				// where the iCCP data ends with no padding (for the variant this emission gets),
				// then the padding that moves that end to 3*4096 + r
				v := (id + 1) % 4
				base := concrete.Build(concrete.Case{Fmt: "png", File: mustFile(fmt.Sprintf(`[{"t":"IHDR","w":9,"h":8,"d":8,"ct":2,"il":0},{"t":"anc","size":"pad:0"},{"t":"iCCP","name":3,"method":0,"z":"ok6","pid":%d,"cross":false},{"t":"IDAT"},{"t":"IEND"}]`, pid))}, v)
				end := base.Layout.ICCEnd - 4 // end of the chunk data (before the CRC)
				pad := ((4096*3+r-end)%4096 + 4096) % 4096
				if err := emit("png", fmt.Sprintf(`[{"t":"IHDR","w":9,"h":8,"d":8,"ct":2,"il":0},{"t":"anc","size":"pad:%d"},{"t":"iCCP","name":3,"method":0,"z":"ok6","pid":%d,"cross":false},{"t":"anc","size":"pad:6000"},{"t":"IDAT"},{"t":"IEND"}]`, pad, pid)); err != nil {
					return err
				}
			}
		}
	}
	// C06: every character a profile name may contain (PNG 11.3.3.3: 32-126 and 161-255; the space only
	// inside the name), one file per character - 0xAD, the soft hyphen, among them (round 12)
	if *icc {
		for ch := 32; ch <= 255; ch++ {
			if ch > 126 && ch < 161 {
				continue
			}
			if err := emit("png", fmt.Sprintf(`[{"t":"IHDR","w":9,"h":8,"d":8,"ct":2,"il":0},{"t":"iCCP","name":%d,"namech":%d,"method":0,"z":"ok6","pid":2,"cross":false},{"t":"IDAT"},{"t":"IEND"}]`, 3+2*(ch%3), ch)); err != nil {
				return err
			}
		}
	}
	fmt.Printf("{\"cases\":%d,\"events\":%d}\n", id, 2*id)
	return nil
}
