package main

import (
	"flag"
	"fmt"
	"image/color"
	"math"
	"math/rand"
	"path/filepath"
	"runtime"
	"sort"
	"sync"

	"github.com/mandykoh/prism/adobergb"
	"github.com/mandykoh/prism/displayp3"
	"github.com/mandykoh/prism/linear"
	"github.com/mandykoh/prism/prophotorgb"
	"github.com/mandykoh/prism/srgb"

	"verif/harness/numlog"
)

func init() { commands["encode"] = encodeCmd }

type encFn struct {
	name  string
	fn    string // to8 | to16 | q8 | q9 | q16
	curve string
	n     int
	steps int
	call  func(float32) int
}

var encFns = []encFn{
	{"srgb.To8Bit", "to8", "srgb", 255, 511, func(v float32) int { return int(srgb.To8Bit(v)) }},
	{"srgb.To16Bit", "to16", "srgb", 65535, 65535, func(v float32) int { return int(srgb.To16Bit(v)) }},
	{"adobergb.To8Bit", "to8", "adobergb", 255, 511, func(v float32) int { return int(adobergb.To8Bit(v)) }},
	{"adobergb.To16Bit", "to16", "adobergb", 65535, 65535, func(v float32) int { return int(adobergb.To16Bit(v)) }},
	{"prophotorgb.To8Bit", "to8", "prophotorgb", 255, 511, func(v float32) int { return int(prophotorgb.To8Bit(v)) }},
	{"prophotorgb.To16Bit", "to16", "prophotorgb", 65535, 65535, func(v float32) int { return int(prophotorgb.To16Bit(v)) }},
	{"linear.NormalisedTo8Bit", "q8", "none", 255, 255, func(v float32) int { return int(linear.NormalisedTo8Bit(v)) }},
	{"linear.NormalisedTo9Bit", "q9", "none", 511, 511, func(v float32) int { return int(linear.NormalisedTo9Bit(v)) }},
	{"linear.NormalisedTo16Bit", "q16", "none", 65535, 65535, func(v float32) int { return int(linear.NormalisedTo16Bit(v)) }},
}

const oneBits = 0x3F800000

func classOf(x float32) string {
	switch {
	case x != x:
		return "nan"
	case math.IsInf(float64(x), 1):
		return "posinf"
	case math.IsInf(float64(x), -1):
		return "neginf"
	case x == 0:
		return "zero"
	case x < 0:
		return "neg"
	case x >= 1:
		return "ge1"
	}
	return "in"
}

// callSafe returns the output, or -1 if the call panicked.
func callSafe(f func(float32) int, x float32) (out int) {
	defer func() {
		if recover() != nil {
			out = -1
		}
	}()
	return f(x)
}

func pointEvent(f encFn, x float32, out, prevOut int) map[string]interface{} {
	ev := map[string]interface{}{"kind": "encode", "name": f.name, "fn": f.fn, "curve": f.curve, "n": f.n, "steps": f.steps,
		"xbits": int(math.Float32bits(x)), "xclass": classOf(x), "out": out, "prev_out": prevOut, "xlo": []int{}, "xhi": []int{}}
	if ev["xclass"] == "in" {
		lo, hi, _, _ := numlog.Fixed(float64(x), 18)
		ev["xlo"], ev["xhi"] = lo, hi
	}
	return ev
}

func encodeCmd(args []string) error {
	fs := flag.NewFlagSet("encode", flag.ExitOnError)
	outDir := fs.String("out", "", "")
	tier := fs.String("tier", "quick", "")
	seed := fs.Int64("seed", 1, "")
	history := fs.String("history", "encode-first", "what this process did before its first encode: encode-first | decode-first | mixed")
	light := fs.Bool("light", false, "point events of the lazily built (16-bit) encoders only")
	outName := fs.String("name", "c02.ndjson", "")
	fs.Parse(args)
	// the 16-bit encode tables are built on first use: their content must not depend on what
	// the process did before, nor on GOMAXPROCS at that moment (set through the environment)
	hist := fmt.Sprintf("%s/P%d", *history, runtime.GOMAXPROCS(0))
	if *history == "decode-first" || *history == "mixed" {
		srgb.From16Bit(1234)
		prophotorgb.From16Bit(1234)
		if *history == "decode-first" {
			adobergb.From16Bit(1234)
			displayp3.LineariseColor(color.NRGBA64{R: 1, G: 2, B: 3, A: 65535})
		} else {
			adobergb.To8Bit(0.25)
		}
	}
	sink, done, err := newSink(filepath.Join(*outDir, *outName))
	if err != nil {
		return err
	}
	defer done()

	// ---- point events: bucket boundaries +-2 ulp, specials, seeded floats ----
	parallel(len(encFns), func(fi int) {
		f := encFns[fi]
		if *light && f.fn != "to16" {
			return
		}
		rng := rand.New(rand.NewSource(*seed*131 + int64(fi)))
		xs := map[uint32]bool{}
		add := func(x float32) {
			b := math.Float32bits(x)
			for d := -2; d <= 2; d++ {
				xs[uint32(int64(b)+int64(d))] = true
			}
		}
		// every table-bucket boundary (k +- 1/2)/steps and every code boundary
		stride := 1
		if f.steps > 1000 && *tier != "thorough" {
			stride = 160
		}
		off := rng.Intn(stride)
		for k := 0; k <= f.steps; k++ {
			// always the first and last 96 buckets (steep toe of the pure power curves,
			// shoulder near 1), the rest strided with a seeded phase
			if k >= 96 && k <= f.steps-96 && (k-off)%stride != 0 {
				continue
			}
			add(float32((float64(k) - 0.5) / float64(f.steps)))
			add(float32((float64(k) + 0.5) / float64(f.steps)))
			add(float32(float64(k) / float64(f.steps)))
		}
		for _, v := range []float32{0, float32(math.Copysign(0, -1)), 1, math.SmallestNonzeroFloat32, -math.SmallestNonzeroFloat32,
			1.1754944e-38, -1.1754944e-38, math.MaxFloat32, -math.MaxFloat32, float32(math.Inf(1)), float32(math.Inf(-1)),
			0.5, 0.0031308, 1.0 / 512, 0.04045, 1e-10, 2, -1, 1.0000001, 0.99999994} {
			add(v)
		}
		xs[0x7FC00000], xs[0xFFC00000], xs[0x7F800001], xs[0x7FFFFFFF] = true, true, true, true // NaNs
		nseed := 1200
		if *tier == "thorough" {
			nseed = 40000
		}
		for i := 0; i < nseed; i++ {
			switch i % 4 {
			case 0:
				xs[rng.Uint32()] = true
			case 1:
				xs[math.Float32bits(rng.Float32())] = true
			case 2:
				xs[math.Float32bits(float32(math.Pow(rng.Float64(), 6)))] = true // dense near 0
			case 3:
				xs[uint32(oneBits)-uint32(rng.Intn(1<<20))] = true // dense below 1
			}
		}
		// order by value (NaNs last, outside the order)
		type pt struct {
			b uint32
			x float32
		}
		var pts []pt
		for b := range xs {
			pts = append(pts, pt{b, math.Float32frombits(b)})
		}
		sort.Slice(pts, func(i, j int) bool {
			xi, xj := pts[i].x, pts[j].x
			ni, nj := xi != xi, xj != xj
			if ni != nj {
				return nj
			}
			if ni {
				return pts[i].b < pts[j].b
			}
			if xi != xj {
				return xi < xj
			}
			return pts[i].b > pts[j].b // -0 before +0
		})
		prev := 0
		for _, p := range pts {
			out := callSafe(f.call, p.x)
			po := prev
			if p.x != p.x {
				po = 0 // NaN is outside the order
			}
			ev := pointEvent(f, p.x, out, po)
			ev["history"] = hist
			sink.put(ev)
			if p.x == p.x {
				prev = out
			}
		}
	})

	// ---- EncodeColor of premultiplied linear pixels, translucent ones included: the channel that
	// comes back is the 16-bit encoder's result at x = channel/65535 (un-premultiplying and
	// premultiplying again cancel; the law's half table step absorbs the float32 rounding of the two)
	if !*light {
		type ec struct {
			name, curve string
			f           func(color.Color) color.RGBA64
		}
		rngE := rand.New(rand.NewSource(*seed*977 + 5))
		for _, sp := range []ec{{"srgb", "srgb", srgb.EncodeColor}, {"adobergb", "adobergb", adobergb.EncodeColor},
			{"prophotorgb", "prophotorgb", prophotorgb.EncodeColor}, {"displayp3", "srgb", displayp3.EncodeColor}} {
			for _, a := range []int{65535, 65534, 65279, 61000, 49153, 40000, 32769, 32768, 32767, 20000, 4097, 300} {
				nper := 60
				if *tier == "thorough" {
					nper = 1500
				}
				for i := 0; i < nper; i++ {
					var r int
					switch i % 4 {
					case 0:
						r = 1 + rngE.Intn(600) // the steep toe: a table step is many codes
					case 1:
						r = rngE.Intn(a + 1)
					case 2:
						r = a - rngE.Intn(1+a/50)
					default:
						r = 1 + rngE.Intn(1+a/8)
					}
					if r > a {
						r = a
					}
					g := a - r
					if i%6 == 5 && a < 65535 {
						// a component ABOVE alpha (super-luminous premultiplied pixels, as resampling filters and
						// additive blending produce): un-premultiplying and premultiplying still cancel
						g = a + 1 + rngE.Intn(65535-a)
					}
					o := sp.f(color.RGBA64{R: uint16(r), G: uint16(g), B: uint16(r / 2), A: uint16(a)})
					for _, pr := range [][2]int{{r, int(o.R)}, {g, int(o.G)}, {r / 2, int(o.B)}} {
						x := float32(pr[0]) / 65535
						ev := pointEvent(encFn{name: sp.name + ".EncodeColor(RGBA64, alpha " + fmt.Sprint(a) + ")", fn: "to16", curve: sp.curve, n: 65535, steps: 65535}, x, pr[1], -1)
						if ev["xclass"] == "in" {
							lo, hi, _, _ := numlog.Fixed(float64(pr[0])/65535, 18)
							ev["xlo"], ev["xhi"] = lo, hi
						}
						sink.put(ev)
					}
				}
			}
		}
	}

	// ---- the same law reached through the colour types of all four spaces ----
	rng := rand.New(rand.NewSource(*seed))
	nag := 3000
	if *light {
		nag = 0
	}
	for i := 0; i < nag; i++ {
		r, g, b := rng.Float32()*1.2-0.1, rng.Float32(), float32(math.Pow(rng.Float64(), 4))
		a := rng.Float32()
		if i%5 == 0 {
			a = 1
		}
		type cs struct {
			name   string
			nrgba  color.NRGBA
			rgba   color.RGBA
			rgba64 color.RGBA64
			to8    func(float32) uint8
			to16   func(float32) uint16
		}
		lr := linear.RGB{R: r, G: g, B: b}
		all := []cs{
			{"srgb", srgb.Color{RGB: lr}.ToNRGBA(a), srgb.Color{RGB: lr}.ToRGBA(a), srgb.Color{RGB: lr}.ToRGBA64(a), srgb.To8Bit, srgb.To16Bit},
			{"adobergb", adobergb.Color{RGB: lr}.ToNRGBA(a), adobergb.Color{RGB: lr}.ToRGBA(a), adobergb.Color{RGB: lr}.ToRGBA64(a), adobergb.To8Bit, adobergb.To16Bit},
			{"prophotorgb", prophotorgb.Color{RGB: lr}.ToNRGBA(a), prophotorgb.Color{RGB: lr}.ToRGBA(a), prophotorgb.Color{RGB: lr}.ToRGBA64(a), prophotorgb.To8Bit, prophotorgb.To16Bit},
			{"displayp3", displayp3.Color{RGB: lr}.ToNRGBA(a), displayp3.Color{RGB: lr}.ToRGBA(a), displayp3.Color{RGB: lr}.ToRGBA64(a), srgb.To8Bit, srgb.To16Bit},
		}
		for _, c := range all {
			sink.put(map[string]interface{}{"kind": "agree", "what": c.name + ".ToNRGBA", "a": []int{int(c.nrgba.R), int(c.nrgba.G), int(c.nrgba.B), int(c.nrgba.A)},
				"b": []int{int(c.to8(r)), int(c.to8(g)), int(c.to8(b)), int(linear.NormalisedTo8Bit(a))}})
			sink.put(map[string]interface{}{"kind": "agree", "what": c.name + ".ToRGBA", "a": []int{int(c.rgba.R), int(c.rgba.G), int(c.rgba.B), int(c.rgba.A)},
				"b": []int{int(c.to8(r * a)), int(c.to8(g * a)), int(c.to8(b * a)), int(linear.NormalisedTo8Bit(a))}})
			sink.put(map[string]interface{}{"kind": "agree", "what": c.name + ".ToRGBA64", "a": []int{int(c.rgba64.R), int(c.rgba64.G), int(c.rgba64.B), int(c.rgba64.A)},
				"b": []int{int(c.to16(r * a)), int(c.to16(g * a)), int(c.to16(b * a)), int(linear.NormalisedTo16Bit(a))}})
		}
	}

	// ---- thorough: run-length certificate over every float32 ----
	if *tier == "thorough" {
		for _, f := range encFns {
			runs, stats := sweepAll(f)
			prev := -1
			var inRuns int64
			for _, r := range runs {
				inRuns += r.count
				_, fhi, _, _ := numlog.Fixed(float64(math.Float32frombits(r.first)), 18)
				llo, _, _, _ := numlog.Fixed(float64(math.Float32frombits(r.last)), 18)
				sink.put(map[string]interface{}{"kind": "run", "name": f.name, "fn": f.fn, "curve": f.curve, "n": f.n, "steps": f.steps,
					"out": r.out, "prev_out": prev, "count": r.count, "first_bits": int(r.first), "last_bits": int(r.last),
					"first_hi": fhi, "last_lo": llo})
				prev = r.out
			}
			stats["kind"], stats["name"] = "sweep", f.name
			stats["floats_in_runs"], stats["floats_expected"] = inRuns, int64(oneBits-1) // floats strictly between 0 and 1
			sink.put(stats)
		}
	}
	fmt.Printf("{\"events\":%d}\n", sink.n)
	return nil
}

type run struct {
	first, last uint32
	out         int
	count       int64
}

// sweepAll calls f on every float32 bit pattern.  For the ordered values in (0,1)
// it records maximal runs of constant output; outside it counts deviations from
// the clip law (x <= 0 gives 0, x >= 1 gives n).
func sweepAll(f encFn) ([]run, map[string]interface{}) {
	const chunks = 256
	per := uint32(oneBits) / chunks
	res := make([][]run, chunks+1)
	var wg sync.WaitGroup
	sem := make(chan struct{}, 16)
	for c := 0; c <= chunks; c++ {
		lo := uint32(c)*per + 1
		hi := lo + per - 1
		if c == 0 {
			lo = 1
			hi = per
		}
		if c == chunks {
			lo = uint32(chunks)*per + 1
		}
		if hi > oneBits-1 {
			hi = oneBits - 1 // floats strictly below 1.0
		}
		if lo > hi {
			continue
		}
		wg.Add(1)
		sem <- struct{}{}
		go func(c int, lo, hi uint32) {
			defer wg.Done()
			defer func() { <-sem }()
			var rs []run
			cur := run{first: lo, last: lo, out: f.call(math.Float32frombits(lo)), count: 1}
			for b := lo + 1; b <= hi; b++ {
				o := f.call(math.Float32frombits(b))
				if o == cur.out {
					cur.last = b
					cur.count++
				} else {
					rs = append(rs, cur)
					cur = run{first: b, last: b, out: o, count: 1}
				}
			}
			rs = append(rs, cur)
			res[c] = rs
		}(c, lo, hi)
	}
	wg.Wait()
	var runs []run
	for _, rs := range res {
		for _, r := range rs {
			if len(runs) > 0 && runs[len(runs)-1].out == r.out && runs[len(runs)-1].last+1 == r.first {
				runs[len(runs)-1].last = r.last
				runs[len(runs)-1].count += r.count
			} else {
				runs = append(runs, r)
			}
		}
	}
	// outside (0,1): negatives incl. -0 and -Inf, +0, [1, +Inf], NaNs
	var negBad, hiBad, zeroBad, oneBad, nanPanics int64
	var mu sync.Mutex
	var wg2 sync.WaitGroup
	type rng struct{ lo, hi uint32 }
	parts := []rng{}
	for b := uint64(0x80000000); b <= 0xFFFFFFFF; b += 1 << 26 {
		h := b + 1<<26 - 1
		parts = append(parts, rng{uint32(b), uint32(h)})
	}
	for b := uint64(oneBits); b <= 0x7FFFFFFF; b += 1 << 26 {
		h := b + 1<<26 - 1
		if h > 0x7FFFFFFF {
			h = 0x7FFFFFFF
		}
		parts = append(parts, rng{uint32(b), uint32(h)})
	}
	for _, p := range parts {
		wg2.Add(1)
		sem <- struct{}{}
		go func(p rng) {
			defer wg2.Done()
			defer func() { <-sem }()
			var nb, hb, np int64
			for b := uint64(p.lo); b <= uint64(p.hi); b++ {
				x := math.Float32frombits(uint32(b))
				o := f.call(x)
				switch {
				case x != x:
					if o < 0 {
						np++
					}
				case x <= 0:
					if o != 0 {
						nb++
					}
				case x >= 1:
					if o != f.n {
						hb++
					}
				}
			}
			mu.Lock()
			negBad, hiBad, nanPanics = negBad+nb, hiBad+hb, nanPanics+np
			mu.Unlock()
		}(p)
	}
	wg2.Wait()
	if f.call(0) != 0 {
		zeroBad++
	}
	if f.call(1) != f.n {
		oneBad++
	}
	return runs, map[string]interface{}{"neg_bad": negBad, "hi_bad": hiBad, "zero_bad": zeroBad, "one_bad": oneBad, "runs": len(runs)}
}
