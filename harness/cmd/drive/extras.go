package main

import (
	"bytes"
	"errors"
	"flag"
	"fmt"
	"math"
	"math/rand"
	"path/filepath"

	"github.com/mandykoh/prism/ciexyz"
	"github.com/mandykoh/prism/linear"
	"github.com/mandykoh/prism/linear/lut"
	"github.com/mandykoh/prism/matrix"
	"github.com/mandykoh/prism/meta"
	"github.com/mandykoh/prism/meta/icc"

	"verif/harness/gen"
)

func init() { commands["extras"] = extrasCmd }

// extrasCmd observes behaviour outside the listed properties (spec/Extras.tla).
func extrasCmd(args []string) error {
	fs := flag.NewFlagSet("extras", flag.ExitOnError)
	outDir := fs.String("out", "", "")
	seed := fs.Int64("seed", 1, "")
	fs.Parse(args)
	rng := rand.New(rand.NewSource(*seed))
	sink, done, err := newSink(filepath.Join(*outDir, "extras.ndjson"))
	if err != nil {
		return err
	}
	defer done()

	// ---- 1. meta.Data: random operation sequences -------------------------------
	datas := map[string][]byte{
		"A":     gen.SimpleProfile(600, "profile A", true, 1),
		"B":     gen.SimpleProfile(900, "profile B", false, 2),
		"junk":  gen.Payload(300, 7, false),
		"empty": {},
		"nil":   nil,
	}
	errs := map[string]error{"e1": errors.New("verif e1"), "e2": errors.New("verif e2")}
	dataID := func(d []byte) string {
		if d == nil {
			return "nil"
		}
		for k, v := range datas {
			if v != nil && bytes.Equal(v, d) {
				return k
			}
		}
		return "unknown"
	}
	errID := func(e error) string {
		if e == nil {
			return "nil"
		}
		for k, v := range errs {
			if e == v {
				return k
			}
		}
		return "parse-error"
	}
	profID := func(p *icc.Profile) string {
		if p == nil {
			return "nil"
		}
		d, derr := p.Description()
		if derr != nil {
			return "profile:?"
		}
		return "profile:" + d
	}
	parse := map[string][]string{}
	for k, v := range datas {
		if v == nil {
			continue
		}
		p, perr := icc.NewProfileReader(bytes.NewReader(v)).ReadProfile()
		parse[k] = []string{profID(p), errID(perr)}
	}
	dnames := []string{"A", "B", "junk", "empty", "nil"}
	enames := []string{"e1", "e2"}
	for t := 0; t < 400; t++ {
		md := &meta.Data{}
		var ops, obsv [][]string
		for n := 1 + rng.Intn(10); n > 0; n-- {
			switch rng.Intn(4) {
			case 0:
				d := dnames[rng.Intn(len(dnames))]
				md.SetICCProfileData(datas[d])
				ops, obsv = append(ops, []string{"setdata", d}), append(obsv, []string{})
			case 1:
				e := enames[rng.Intn(len(enames))]
				md.SetICCProfileError(errs[e])
				ops, obsv = append(ops, []string{"seterr", e}), append(obsv, []string{})
			case 2:
				d, e := md.ICCProfileData()
				ops, obsv = append(ops, []string{"getdata"}), append(obsv, []string{dataID(d), errID(e)})
			case 3:
				p, e := md.ICCProfile()
				ops, obsv = append(ops, []string{"getprofile"}), append(obsv, []string{profID(p), errID(e)})
			}
		}
		sink.put(map[string]interface{}{"kind": "mdops", "ops": ops, "obs": obsv, "parse": parse})
	}

	// ---- 1b. icc.Version: every minor / bug-fix byte under a few majors ------------------
	for _, major := range []int{0, 2, 4, 5, 9, 10, 255} {
		for minor := 0; minor < 256; minor++ {
			sink.put(map[string]interface{}{"kind": "version", "major": major, "minor": minor, "str": icc.Version{Major: byte(major), MinorAndRev: byte(minor)}.String()})
		}
	}

	// ---- 2. enumerations ---------------------------------------------------------
	known := map[string][]string{
		"class":     {"scnr", "mntr", "prtr", "link", "spac", "abst", "nmcl"},
		"space":     {"XYZ ", "Lab ", "Luv ", "YCbr", "Yxy ", "RGB ", "GRAY", "HSV ", "HLS ", "CMYK", "CMY ", "2CLR", "3CLR", "4CLR", "5CLR", "6CLR", "7CLR", "8CLR", "9CLR", "ACLR", "BCLR", "CCLR", "DCLR", "ECLR", "FCLR"},
		"platform":  {"APPL", "MSFT", "SGI ", "SUNW", "\x00\x00\x00\x00"},
		"intent":    {"\x00\x00\x00\x00", "\x00\x00\x00\x01", "\x00\x00\x00\x02", "\x00\x00\x00\x03", "\x00\x00\x00\x04", "\x00\x00\x01\x00", "\x7f\x7f\x7f\x7f"},
		"signature": {"acsp", "desc", "mluc", "\x00\x00\x00\x00", "a\x00b\x00"},
	}
	render := func(typ string, v uint32) string {
		switch typ {
		case "class":
			return icc.DeviceClass(v).String()
		case "space":
			return icc.ColorSpace(v).String()
		case "platform":
			return icc.PrimaryPlatform(v).String()
		case "intent":
			return icc.RenderingIntent(v).String()
		}
		return icc.Signature(v).String()
	}
	emitEnum := func(typ string, b [4]byte) {
		printable := true
		for _, x := range b {
			if x != 0 && (x < 32 || x > 126) {
				printable = false
			}
		}
		if !printable || b[0] >= 128 {
			return
		}
		v := uint32(b[0])<<24 | uint32(b[1])<<16 | uint32(b[2])<<8 | uint32(b[3])
		sink.put(map[string]interface{}{"kind": "enum", "type": typ, "bytes": []int{int(b[0]), int(b[1]), int(b[2]), int(b[3])}, "str": render(typ, v)})
	}
	for typ, codes := range known {
		for _, c := range codes {
			var b [4]byte
			copy(b[:], c)
			emitEnum(typ, b)
			for pos := 0; pos < 32; pos++ { // every signature one bit away from a known one
				m := b
				m[pos/8] ^= 1 << (pos % 8)
				emitEnum(typ, m)
			}
			// known signatures of the other tables, and case variants
			for _, other := range known {
				for _, oc := range other {
					var ob [4]byte
					copy(ob[:], oc)
					emitEnum(typ, ob)
				}
			}
			emitEnum(typ, [4]byte{b[0] ^ 0x20, b[1], b[2], b[3]})
			emitEnum(typ, [4]byte{b[3], b[2], b[1], b[0]}) // byte order
		}
		for i := 0; i < 300; i++ {
			var b [4]byte
			for k := range b {
				b[k] = byte(32 + rng.Intn(95))
				if rng.Intn(9) == 0 {
					b[k] = 0
				}
			}
			emitEnum(typ, b)
		}
	}

	// ---- 3. small numeric functions ------------------------------------------------
	f32 := func() float32 { return float32(rng.Intn(3*4096+1))/4096 - 1 } // multiples of 2^-12 in [-1, 2]
	for i := 0; i < 600; i++ {
		r, g, b := f32(), f32(), f32()
		switch i % 7 {
		case 0:
			r, g, b = 1, 1, 1
		case 1:
			r, g, b = [3]float32{1, 0, 0}[i/7%3], [3]float32{0, 1, 0}[i/7%3], [3]float32{0, 0, 1}[i/7%3]
		}
		l := linear.RGB{R: r, G: g, B: b}.Luminance()
		sink.put(dy{"kind": "luminance", "v": []dy{dyadic(float64(r)), dyadic(float64(g)), dyadic(float64(b))}, "o": obsv1(float64(l))})
	}
	f64 := func() float64 { return float64(rng.Int63n(8<<30+1))/(1<<30) - 4 }
	for i := 0; i < 600; i++ {
		a, b := matrix.Vector3{f64(), f64(), f64()}, matrix.Vector3{f64(), f64(), f64()}
		if i%5 == 0 {
			b = matrix.Vector3{a[1], -a[0], 0} // orthogonal: the products cancel
		}
		sink.put(dy{"kind": "dot", "a": []dy{dyadic(a[0]), dyadic(a[1]), dyadic(a[2])}, "b": []dy{dyadic(b[0]), dyadic(b[1]), dyadic(b[2])}, "o": obsv1(matrix.Dot(a, b))})
		s := f64()
		m := a.MulS(s)
		sink.put(dy{"kind": "muls", "v": []dy{dyadic(a[0]), dyadic(a[1]), dyadic(a[2])}, "s": dyadic(s), "o": []dy{obsv1(m[0]), obsv1(m[1]), obsv1(m[2])}})
		c := ciexyz.ColorFromV(a)
		sink.put(dy{"kind": "fromv", "v": []dy{dyadic(a[0]), dyadic(a[1]), dyadic(a[2])}, "o": []dy{obsv1(float64(c.X)), obsv1(float64(c.Y)), obsv1(float64(c.Z))}})
		v := c.ToV()
		sink.put(dy{"kind": "tov", "v": []dy{dyadic(float64(c.X)), dyadic(float64(c.Y)), dyadic(float64(c.Z))}, "o": []dy{dyadic(v[0]), dyadic(v[1]), dyadic(v[2])}})
	}
	// table builders with curves of my own
	curves := map[string]func(float32) float32{
		"identity": func(x float32) float32 { return x },
		"square":   func(x float32) float32 { return x * x },
		"sqrt":     func(x float32) float32 { return float32(math.Sqrt(float64(x))) },
		"over":     func(x float32) float32 { return 1.5*x - 0.25 }, // leaves [0,1] at both ends: clipped
		"step": func(x float32) float32 {
			if x < 0.5 {
				return 0
			}
			return 1
		},
	}
	for name, f := range curves {
		t8 := lut.BuildLinearTo8Bit(f)
		for i := range t8 {
			sink.put(dy{"kind": "builder", "curve": name, "fn": "BuildLinearTo8Bit", "i": i, "n": 255, "c": dyadic(float64(f(float32(i) / 511))), "out": int(t8[i])})
		}
		t16 := lut.BuildLinearTo16Bit(f)
		for i := 0; i < len(t16); i += 1 + rng.Intn(97) {
			sink.put(dy{"kind": "builder", "curve": name, "fn": "BuildLinearTo16Bit", "i": i, "n": 65535, "c": dyadic(float64(f(float32(i) / 65535))), "out": int(t16[i])})
		}
		sink.put(dy{"kind": "builder", "curve": name, "fn": "BuildLinearTo16Bit", "i": 65535, "n": 65535, "c": dyadic(float64(f(1))), "out": int(t16[65535])})
		d8 := lut.Build8BitToLinear(f)
		for i := range d8 {
			sink.put(dy{"kind": "frombuilder", "curve": name, "fn": "Build8BitToLinear", "i": i, "c": dyadic(float64(f(float32(i) / 255))), "o": dyadic(float64(d8[i]))})
		}
		d16 := lut.Build16BitToLinear(f)
		for i := 0; i < len(d16); i += 1 + rng.Intn(97) {
			sink.put(dy{"kind": "frombuilder", "curve": name, "fn": "Build16BitToLinear", "i": i, "c": dyadic(float64(f(float32(i) / 65535))), "o": dyadic(float64(d16[i]))})
		}
	}
	fmt.Printf("{\"events\":%d}\n", sink.n)
	return nil
}

// obsv1 renders an observed float as sign + floor of |v| * 10^18 (lo only is used by Extras).
func obsv1(v float64) dy { return obsv(v) }
