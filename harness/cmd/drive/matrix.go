package main

import (
	"encoding/json"
	"flag"
	"fmt"
	"math"
	"math/big"
	"math/rand"
	"os"
	"path/filepath"
	"reflect"

	"github.com/mandykoh/prism/adobergb"
	"github.com/mandykoh/prism/ciexyy"
	"github.com/mandykoh/prism/ciexyz"
	"github.com/mandykoh/prism/displayp3"
	"github.com/mandykoh/prism/matrix"
	"github.com/mandykoh/prism/prophotorgb"
	"github.com/mandykoh/prism/srgb"

	"verif/harness/numlog"
)

func init() { commands["matrix"] = matrixCmd }

type dy map[string]interface{}

// dyadic renders a float exactly as s * m / 2^k.
func dyadic(v float64) dy {
	s, m, k := numlog.Exact(v)
	return dy{"s": s, "m": m, "k": k}
}

// obsv renders an observed float as sign + floor/ceil of |v| * 10^18.
func obsv(v float64) dy {
	if math.IsNaN(v) || math.IsInf(v, 0) {
		return dy{"s": 1, "lo": []int{999, 999, 999, 999, 999, 999, 999, 999, 999, 999, 999, 999}, "hi": []int{}, "nonfinite": true}
	}
	lo, hi, s, _ := numlog.Fixed(v, 18)
	return dy{"s": s, "lo": lo, "hi": hi}
}
func obs3(x, y, z float32) []dy { return []dy{obsv(float64(x)), obsv(float64(y)), obsv(float64(z))} }

func chroma(c ciexyy.Color) dy { return dy{"x": dyadic(float64(c.X)), "y": dyadic(float64(c.Y))} }

type rgbSpace struct {
	name       string
	r, g, b, w ciexyy.Color
	toXYZ      func(r, g, b float32) ciexyz.Color
	fromXYZ    func(c ciexyz.Color) (float32, float32, float32)
	// toXYZvia: a colour value obtained from ColorFromXYZ(from), its components then set to
	// (r, g, b): a colour is its three components, wherever the value came from
	toXYZvia func(from ciexyz.Color, r, g, b float32) ciexyz.Color
}

// declaredWhiteNow reads the exported white point of a space at the moment of the call.
func declaredWhiteNow(space string) ciexyy.Color {
	switch space {
	case "srgb":
		return srgb.StandardWhitePoint
	case "adobergb":
		return adobergb.StandardWhitePoint
	case "prophotorgb":
		return prophotorgb.StandardWhitePoint
	}
	return displayp3.StandardWhitePoint
}

var rgbSpaces = []rgbSpace{
	{"srgb", srgb.PrimaryRed, srgb.PrimaryGreen, srgb.PrimaryBlue, srgb.StandardWhitePoint,
		func(r, g, b float32) ciexyz.Color { return srgb.ColorFromLinear(r, g, b).ToXYZ() },
		func(c ciexyz.Color) (float32, float32, float32) { x := srgb.ColorFromXYZ(c); return x.R, x.G, x.B },
		func(from ciexyz.Color, r, g, b float32) ciexyz.Color {
			x := srgb.ColorFromXYZ(from)
			x.R, x.G, x.B = r, g, b
			return x.ToXYZ()
		}},
	{"adobergb", adobergb.PrimaryRed, adobergb.PrimaryGreen, adobergb.PrimaryBlue, adobergb.StandardWhitePoint,
		func(r, g, b float32) ciexyz.Color { return adobergb.ColorFromLinear(r, g, b).ToXYZ() },
		func(c ciexyz.Color) (float32, float32, float32) { x := adobergb.ColorFromXYZ(c); return x.R, x.G, x.B },
		func(from ciexyz.Color, r, g, b float32) ciexyz.Color {
			x := adobergb.ColorFromXYZ(from)
			x.R, x.G, x.B = r, g, b
			return x.ToXYZ()
		}},
	{"prophotorgb", prophotorgb.PrimaryRed, prophotorgb.PrimaryGreen, prophotorgb.PrimaryBlue, prophotorgb.StandardWhitePoint,
		func(r, g, b float32) ciexyz.Color { return prophotorgb.ColorFromLinear(r, g, b).ToXYZ() },
		func(c ciexyz.Color) (float32, float32, float32) {
			x := prophotorgb.ColorFromXYZ(c)
			return x.R, x.G, x.B
		},
		func(from ciexyz.Color, r, g, b float32) ciexyz.Color {
			x := prophotorgb.ColorFromXYZ(from)
			x.R, x.G, x.B = r, g, b
			return x.ToXYZ()
		}},
	{"displayp3", displayp3.PrimaryRed, displayp3.PrimaryGreen, displayp3.PrimaryBlue, displayp3.StandardWhitePoint,
		func(r, g, b float32) ciexyz.Color { return displayp3.ColorFromLinear(r, g, b).ToXYZ() },
		func(c ciexyz.Color) (float32, float32, float32) { x := displayp3.ColorFromXYZ(c); return x.R, x.G, x.B },
		func(from ciexyz.Color, r, g, b float32) ciexyz.Color {
			x := displayp3.ColorFromXYZ(from)
			x.R, x.G, x.B = r, g, b
			return x.ToXYZ()
		}},
}

func writeSpaces(dir string) error {
	f, err := os.Create(filepath.Join(dir, "spaces.ndjson"))
	if err != nil {
		return err
	}
	defer f.Close()
	for _, sp := range rgbSpaces {
		js, _ := json.Marshal(dy{"space": sp.name, "r": chroma(sp.r), "g": chroma(sp.g), "b": chroma(sp.b), "w": chroma(sp.w)})
		f.Write(js)
		f.WriteString("\n")
	}
	return nil
}

// intEntry renders an integer (value * 2^q) with sign and limbs.
func intEntry(v int64) dy {
	s := 1
	if v < 0 {
		s, v = -1, -v
	}
	return dy{"s": s, "n": numlog.Limbs(big.NewInt(v))}
}

// m3call calls a method of matrix.Matrix3 by name on a copy of m, whatever kind of receiver,
// parameters and results the method has today (value or pointer): the algebra is what C20 is
// about, not the calling convention.  Results are returned as values.
func m3call(m matrix.Matrix3, name string, args ...interface{}) interface{} {
	recv := reflect.ValueOf(&m) // the pointer's method set includes the value methods
	meth := recv.MethodByName(name)
	if !meth.IsValid() {
		panic("verif: matrix.Matrix3 has no method " + name)
	}
	mt := meth.Type()
	in := make([]reflect.Value, len(args))
	for i, a := range args {
		v := reflect.ValueOf(a)
		if mt.In(i).Kind() == reflect.Ptr && v.Kind() != reflect.Ptr {
			pv := reflect.New(v.Type())
			pv.Elem().Set(v)
			v = pv
		}
		in[i] = v
	}
	out := meth.Call(in)
	if len(out) == 0 {
		return nil
	}
	r := out[0]
	if r.Kind() == reflect.Ptr {
		r = r.Elem()
	}
	return r.Interface()
}

func matrixCmd(args []string) error {
	fs := flag.NewFlagSet("matrix", flag.ExitOnError)
	outDir := fs.String("out", "", "")
	tier := fs.String("tier", "quick", "")
	seed := fs.Int64("seed", 1, "")
	which := fs.String("props", "c03,c20", "")
	fs.Parse(args)
	if err := writeSpaces(*outDir); err != nil {
		return err
	}
	rng := rand.New(rand.NewSource(*seed))
	lat := func(n int) []float32 { // n points over [-1, 2] (multiples of 2^-10), plus 0 and 1: the faces of the unit cube
		out := []float32{0, 1}
		for i := 0; i < n; i++ {
			v := -1 + 3*float64(i)/float64(n-1)
			out = append(out, float32(math.Round(v*1024)/1024))
		}
		return out
	}
	seeded := func() float32 { return float32(rng.Intn(3*1024+1))/1024 - 1 } // multiples of 2^-10 in [-1, 2]
	if contains(*which, "c03") {
		sink, done, err := newSink(filepath.Join(*outDir, "c03.ndjson"))
		if err != nil {
			return err
		}
		nlat, nseed := 5, 500
		if *tier == "thorough" {
			nlat, nseed = 33, 100000
		}
		for _, sp := range rgbSpaces {
			sink.put(dy{"kind": "declared", "space": sp.name})
			units := [3][3]float32{{1, 0, 0}, {0, 1, 0}, {0, 0, 1}}
			for c, u := range units {
				o := sp.toXYZ(u[0], u[1], u[2])
				ov := []float32{o.X, o.Y, o.Z}
				for r := 0; r < 3; r++ {
					sink.put(dy{"kind": "coef", "space": sp.name, "r": r + 1, "c": c + 1, "o": obsv(float64(ov[r]))})
				}
				sink.put(dy{"kind": "primchroma", "space": sp.name, "i": c + 1, "o": obs3(o.X, o.Y, o.Z)})
			}
			w := sp.toXYZ(1, 1, 1)
			sink.put(dy{"kind": "white", "space": sp.name, "o": obs3(w.X, w.Y, w.Z)})
			emit := func(a, b, c float32) {
				v := []dy{obsv(float64(a)), obsv(float64(b)), obsv(float64(c))}
				x := sp.toXYZ(a, b, c)
				sink.put(dy{"kind": "lin", "space": sp.name, "v": v, "o": obs3(x.X, x.Y, x.Z)})
				// the same components in a value that came out of ColorFromXYZ (of the white point / of this triple)
				xv := sp.toXYZvia(ciexyz.Color{X: 0.9, Y: 1, Z: 0.8}, a, b, c)
				sink.put(dy{"kind": "lin", "space": sp.name, "route": "fromxyz-then-set", "v": v, "o": obs3(xv.X, xv.Y, xv.Z)})
				// RGB -> XYZ -> RGB
				r2, g2, b2 := sp.fromXYZ(x)
				sink.put(dy{"kind": "rt", "space": sp.name, "dir": "rgb", "v": v, "o": obs3(r2, g2, b2)})
				// XYZ -> RGB -> XYZ with the same triple read as XYZ
				rr, gg, bb := sp.fromXYZ(ciexyz.Color{X: a, Y: b, Z: c})
				y := sp.toXYZ(rr, gg, bb)
				sink.put(dy{"kind": "rt", "space": sp.name, "dir": "xyz", "v": v, "o": obs3(y.X, y.Y, y.Z)})
			}
			l := lat(nlat)
			n := 0
			for _, a := range l {
				for _, b := range l {
					for _, c := range l {
						emit(a, b, c)
						if n++; n%3 == 0 {
							// straight afterwards, a colour less than one 16-bit code away: a conversion
							// is a function of its argument, not of the call before it
							emit(a+1.0/(1<<17), b-1.0/(1<<18), c)
						}
					}
				}
			}
			// nearly neutral colours: the three channels within a few 16-bit codes (or far less) of each other
			for _, g := range []float32{-0.25, 1.0 / 64, 0.1796875, 0.5, 0.75, 1, 1.5} {
				for _, d := range []float32{1.0 / (1 << 13), 1.0 / (1 << 14), 1.0 / (1 << 15), 1.0 / (1 << 17), 1.0 / (1 << 20)} {
					emit(g, g+d, g-d/2)
					emit(g+d, g, g)
					emit(g, g, g-d)
				}
			}
			// the ends of the float32 range: subnormal components (the answer is zero to 18 places, not NaN),
			// and components of 2^126 .. 2^127 whose sum overflows although no result does (RGB -> XYZ only:
			// the inverse direction has coefficients above 3 and may overflow legitimately)
			for _, t := range [][3]float32{{1, 1, 1}, {0, 1, 0}, {0.5, -0.25, 1.5}, {1.5, 1.5, 0.75}, {2, 2, 2}, {1, 1.75, 1.25}} {
				const tiny, huge = 0x1p-140, 0x1p126
				emit(t[0]*tiny, t[1]*tiny, t[2]*tiny)
				x := sp.toXYZ(t[0]*huge, t[1]*huge, t[2]*huge)
				sink.put(dy{"kind": "lin", "space": sp.name, "v": []dy{obsv(float64(t[0] * huge)), obsv(float64(t[1] * huge)), obsv(float64(t[2] * huge))}, "o": obs3(x.X, x.Y, x.Z)})
			}
			// neutrals of every level, then the declared white point as the package exports it NOW: converting
			// colours does not change what the package declares
			for _, gl := range []float32{0, 0.25, 0.5, 0.75, 1, 0.1} {
				emit(gl, gl, gl)
			}
			wn := ciexyz.ColorFromXYY(declaredWhiteNow(sp.name))
			sink.put(dy{"kind": "white", "space": sp.name, "o": obs3(wn.X, wn.Y, wn.Z), "note": "ColorFromXYY(StandardWhitePoint) read after the conversions above"})
			for i := 0; i < nseed; i++ {
				a, b, c := seeded(), seeded(), seeded()
				emit(a, b, c)
				if i%8 == 0 { // far out of range, both ways: no clamping, proportional error
					k := []float32{12, 100, 10000, 1.0 / 1024, 3000000}[i/8%5]
					emit(k*a, k*b, k*c)
				}
			}
		}
		done()
		fmt.Printf("{\"c03\":%d}\n", sink.n)
	}
	if contains(*which, "c20") {
		sink, done, err := newSink(filepath.Join(*outDir, "c20.ndjson"))
		if err != nil {
			return err
		}
		// published RGB spaces (chromaticities as published decimals) + seeded triangles
		type prim struct{ rx, ry, gx, gy, bx, by, wx, wy float64 }
		const d65x, d65y, d50x, d50y, cx, cy, ex, ey = 0.3127, 0.3290, 0.3457, 0.3585, 0.3101, 0.3162, 1.0 / 3, 1.0 / 3
		pubs := []prim{
			{0.64, 0.33, 0.30, 0.60, 0.15, 0.06, d65x, d65y},                         // sRGB / Rec.709
			{0.64, 0.33, 0.21, 0.71, 0.15, 0.06, d65x, d65y},                         // Adobe RGB (1998)
			{0.734699, 0.265301, 0.159597, 0.840403, 0.036598, 0.000105, d50x, d50y}, // ProPhoto
			{0.680, 0.320, 0.265, 0.690, 0.150, 0.060, d65x, d65y},                   // Display P3
			{0.680, 0.320, 0.265, 0.690, 0.150, 0.060, 0.314, 0.351},                 // DCI-P3
			{0.708, 0.292, 0.170, 0.797, 0.131, 0.046, d65x, d65y},                   // Rec.2020
			{0.67, 0.33, 0.21, 0.71, 0.14, 0.08, cx, cy},                             // NTSC 1953
			{0.64, 0.33, 0.29, 0.60, 0.15, 0.06, d65x, d65y},                         // PAL / SECAM
			{0.63, 0.34, 0.31, 0.595, 0.155, 0.07, d65x, d65y},                       // SMPTE-C
			{0.625, 0.34, 0.28, 0.595, 0.155, 0.07, d65x, d65y},                      // Apple RGB
			{0.67, 0.33, 0.21, 0.71, 0.14, 0.08, d50x, d50y},                         // ECI RGB v2
			{0.735, 0.265, 0.115, 0.826, 0.157, 0.018, d50x, d50y},                   // Wide Gamut RGB
			{0.735, 0.265, 0.274, 0.717, 0.167, 0.009, ex, ey},                       // CIE RGB
			{0.64, 0.33, 0.28, 0.65, 0.15, 0.06, d50x, d50y},                         // ColorMatch-like
			{0.6888, 0.3112, 0.1986, 0.7551, 0.1265, 0.0352, d50x, d50y},             // Beta RGB
			{0.696, 0.300, 0.215, 0.765, 0.130, 0.035, d50x, d50y},                   // Don RGB 4
			{0.67, 0.33, 0.26, 0.59, 0.15, 0.035, d50x, d50y},                        // Ekta Space-like
			{0.7347, 0.2653, 0.0, 1.0, 0.0001, -0.077, 0.32168, 0.33767},             // ACES AP0 (outside the diagram)
			{0.713, 0.293, 0.165, 0.830, 0.128, 0.044, 0.32168, 0.33767},             // ACES AP1
			{0.630, 0.340, 0.310, 0.595, 0.155, 0.070, d65x, d65y},                   // Rec.601 525
		}
		nt := 150
		if *tier == "thorough" {
			nt = 20000
		}
		for i := 0; i < nt; i++ { // seeded triangles: area >= 0.01, white strictly inside
			for {
				p := prim{rng.Float64()*0.7 + 0.02, rng.Float64()*0.8 + 0.02, rng.Float64()*0.7 + 0.02, rng.Float64()*0.8 + 0.02, rng.Float64()*0.7 + 0.02, rng.Float64()*0.8 + 0.02, 0, 0}
				area := math.Abs((p.gx-p.rx)*(p.by-p.ry)-(p.bx-p.rx)*(p.gy-p.ry)) / 2
				if area < 0.01 {
					continue
				}
				a, b := rng.Float64()*0.8+0.1, rng.Float64()*0.8+0.1
				if a+b > 0.95 {
					a, b = (1-a)*0.9+0.05, (1-b)*0.9+0.05
				}
				c := 1 - a - b
				if c < 0.05 {
					continue
				}
				p.wx, p.wy = a*p.rx+b*p.gx+c*p.bx, a*p.ry+b*p.gy+c*p.by
				pubs = append(pubs, p)
				break
			}
		}
		// the same primaries again under other whites, back to back (what the generator returns
		// depends on its four arguments only, not on what it was asked before), and the
		// published spaces with their primaries listed in the other orders (clockwise too)
		npub := 20
		var seq []prim
		for i, p := range pubs {
			seq = append(seq, p)
			if i < npub && p.by > 0 {
				for _, w := range [][2]float64{{d50x, d50y}, {d65x, d65y}, {ex, ey}, {p.wx, p.wy}} {
					q := p
					q.wx, q.wy = w[0], w[1]
					seq = append(seq, q)
				}
				seq = append(seq, prim{p.bx, p.by, p.gx, p.gy, p.rx, p.ry, p.wx, p.wy}, prim{p.rx, p.ry, p.bx, p.by, p.gx, p.gy, p.wx, p.wy},
					prim{p.gx, p.gy, p.bx, p.by, p.rx, p.ry, p.wx, p.wy})
			}
		}
		// whites strictly inside the triangle but very close to an edge or a vertex (a column of the
		// matrix is then legitimately tiny, not noise)
		for i := 0; i < npub && i < len(pubs); i++ {
			p := pubs[i]
			if p.by <= 0 {
				continue
			}
			for _, bc := range [][3]float64{{0.5, 0.5 - 3e-6, 3e-6}, {3e-6, 0.6, 0.4 - 3e-6}, {1 - 8e-6, 4e-6, 4e-6}, {0.3, 2e-5, 0.7 - 2e-5}} {
				q := p
				q.wx = bc[0]*p.rx + bc[1]*p.gx + bc[2]*p.bx
				q.wy = bc[0]*p.ry + bc[1]*p.gy + bc[2]*p.by
				seq = append(seq, q)
			}
		}
		for pi, p := range seq {
			r := ciexyy.Color{X: float32(p.rx), Y: float32(p.ry), YY: 1}
			g := ciexyy.Color{X: float32(p.gx), Y: float32(p.gy), YY: 1}
			b := ciexyy.Color{X: float32(p.bx), Y: float32(p.by), YY: 1}
			w := ciexyy.Color{X: float32(p.wx), Y: float32(p.wy), YY: 1}
			switch pi % 4 { // luminances: the white's scales the matrix, the primaries' must not matter
			case 1:
				w.YY = 0.8
			case 2:
				w.YY = float32(0.25 + 1.5*rng.Float64())
				r.YY, g.YY, b.YY = 0.5, 2, float32(0.1+rng.Float64())
			case 3:
				r.YY, g.YY, b.YY = float32(0.2126), float32(0.7152), float32(0.0722)
			}
			if b.Y <= 0 || r.Y <= 0 || g.Y <= 0 { // the generator divides by y: negative / zero y are outside "inside the chromaticity diagram"
				continue
			}
			var to, from matrix.Matrix3
			panicked := ""
			func() {
				defer func() {
					if x := recover(); x != nil {
						panicked = fmt.Sprint(x)
					}
				}()
				to = ciexyz.TransformToXYZForXYYPrimaries(r, g, b, w)
				from = ciexyz.TransformFromXYZForXYYPrimaries(r, g, b, w)
			}()
			rows := func(m matrix.Matrix3) [][]dy { // column-major -> rows
				out := make([][]dy, 3)
				for rr := 0; rr < 3; rr++ {
					out[rr] = []dy{obsv(m[0][rr]), obsv(m[1][rr]), obsv(m[2][rr])}
				}
				return out
			}
			sink.put(dy{"kind": "genmatrix", "p": dy{"r": chroma(r), "g": chroma(g), "b": chroma(b), "w": chroma(w), "wyy": dyadic(float64(w.YY))},
				"to": rows(to), "from": rows(from), "panic": panicked != "", "panic_msg": panicked})
		}
		// 3x3 algebra on dyadic matrices: entries k / 2^20 in [-4, 4]
		const q = 20
		nm := 500
		if *tier == "thorough" {
			nm = 80000
		}
		randMat := func() (matrix.Matrix3, [][]dy) {
			var m matrix.Matrix3
			ints := make([][]dy, 3)
			for r := 0; r < 3; r++ {
				ints[r] = make([]dy, 3)
				for c := 0; c < 3; c++ {
					k := rng.Int63n(8<<q+1) - 4<<q
					if rng.Intn(6) == 0 {
						k = (k >> 16) << 16 // coarse entries: exact small fractions
					}
					m[c][r] = float64(k) / (1 << q)
					ints[r][c] = intEntry(k)
				}
			}
			return m, ints
		}
		det := func(m matrix.Matrix3) float64 {
			return m[0][0]*(m[1][1]*m[2][2]-m[2][1]*m[1][2]) - m[1][0]*(m[0][1]*m[2][2]-m[2][1]*m[0][2]) + m[2][0]*(m[0][1]*m[1][2]-m[1][1]*m[0][2])
		}
		rowsOf := func(m matrix.Matrix3) [][]dy {
			out := make([][]dy, 3)
			for r := 0; r < 3; r++ {
				out[r] = []dy{obsv(m[0][r]), obsv(m[1][r]), obsv(m[2][r])}
			}
			return out
		}
		// structured operands: diagonal, identity, permutation, triangular, sparse - on either side
		structured := func(kind int) (matrix.Matrix3, [][]dy) {
			var m matrix.Matrix3
			ints := make([][]dy, 3)
			for r := 0; r < 3; r++ {
				ints[r] = []dy{intEntry(0), intEntry(0), intEntry(0)}
			}
			set := func(r, c int, k int64) { m[c][r] = float64(k) / (1 << q); ints[r][c] = intEntry(k) }
			rk := func() int64 {
				k := rng.Int63n(8<<q+1) - 4<<q
				if k == 0 {
					k = 1 << q
				}
				return k
			}
			switch kind % 10 {
			case 6, 7, 8: // dense, with exactly one pair of mirrored off-diagonal elements equal (not symmetric)
				for r := 0; r < 3; r++ {
					for c := 0; c < 3; c++ {
						set(r, c, rk())
					}
				}
				pr := [][2]int{{0, 1}, {0, 2}, {1, 2}}[kind%10-6]
				k := rk()
				set(pr[0], pr[1], k)
				set(pr[1], pr[0], k)
			case 9: // small integers: equal elements all over the place, seldom symmetric
				for r := 0; r < 3; r++ {
					for c := 0; c < 3; c++ {
						set(r, c, (rng.Int63n(5)-2)<<q)
					}
				}
			case 0: // non-uniform diagonal
				set(0, 0, rk())
				set(1, 1, rk())
				set(2, 2, rk())
			case 1: // identity
				set(0, 0, 1<<q)
				set(1, 1, 1<<q)
				set(2, 2, 1<<q)
			case 2: // permutation with scales
				set(0, 1, rk())
				set(1, 2, rk())
				set(2, 0, rk())
			case 3: // upper triangular
				set(0, 0, rk())
				set(0, 1, rk())
				set(0, 2, rk())
				set(1, 1, rk())
				set(1, 2, rk())
				set(2, 2, rk())
			case 4: // lower triangular
				set(0, 0, rk())
				set(1, 0, rk())
				set(1, 1, rk())
				set(2, 0, rk())
				set(2, 1, rk())
				set(2, 2, rk())
			case 5: // uniform scale
				k := rk()
				set(0, 0, k)
				set(1, 1, k)
				set(2, 2, k)
			}
			return m, ints
		}
		for i := 0; i < nm; i++ {
			a, ai := randMat()
			b, bi := randMat()
			switch i % 5 {
			case 1:
				a, ai = structured(i / 5)
			case 2:
				b, bi = structured(i / 5)
			case 3:
				a, ai = structured(i / 5)
				b, bi = structured(i/5 + 1 + i/30)
			}
			if math.Abs(det(a)) >= 1e-3 {
				var inv matrix.Matrix3
				pan := false
				func() {
					defer func() {
						if recover() != nil {
							pan = true
						}
					}()
					inv = m3call(a, "Inverse").(matrix.Matrix3)
				}()
				if pan {
					sink.put(dy{"kind": "singular", "a": ai, "q": q, "panicked": false, "note": "Inverse panicked on a regular matrix"})
				} else {
					sink.put(dy{"kind": "inverse", "a": ai, "q": q, "o": rowsOf(inv)})
				}
			}
			sink.put(dy{"kind": "mulm", "a": ai, "b": bi, "q": q, "o": rowsOf(m3call(a, "MulM", b).(matrix.Matrix3))})
			if i%4 == 1 {
				// operands that are related: a matrix times its own transpose (both ways round), times itself
				at := m3call(a, "Transpose").(matrix.Matrix3)
				ati := [][]dy{{ai[0][0], ai[1][0], ai[2][0]}, {ai[0][1], ai[1][1], ai[2][1]}, {ai[0][2], ai[1][2], ai[2][2]}}
				sink.put(dy{"kind": "mulm", "a": ai, "b": ati, "q": q, "o": rowsOf(m3call(a, "MulM", at).(matrix.Matrix3))})
				sink.put(dy{"kind": "mulm", "a": ati, "b": ai, "q": q, "o": rowsOf(m3call(at, "MulM", a).(matrix.Matrix3))})
				sink.put(dy{"kind": "mulm", "a": ai, "b": ai, "q": q, "o": rowsOf(m3call(a, "MulM", a).(matrix.Matrix3))})
			}
			v := matrix.Vector3{b[0][0], b[1][0], b[2][0]}
			mv := m3call(a, "MulV", v).(matrix.Vector3)
			sink.put(dy{"kind": "mulv", "a": ai, "v": []dy{bi[0][0], bi[0][1], bi[0][2]}, "q": q, "o": []dy{obsv(mv[0]), obsv(mv[1]), obsv(mv[2])}})
			if i%4 == 0 { // structured vectors: uniform (1,1,1) / (g,g,g), unit, zero, two equal components
				g := bi[0][i/4%3]
				gv := b[i/4%3][0]
				one, zero := intEntry(1<<q), intEntry(0)
				for _, sv := range []struct {
					v  matrix.Vector3
					iv []dy
				}{{matrix.Vector3{1, 1, 1}, []dy{one, one, one}}, {matrix.Vector3{gv, gv, gv}, []dy{g, g, g}},
					{matrix.Vector3{0, 1, 0}, []dy{zero, one, zero}}, {matrix.Vector3{0, 0, 0}, []dy{zero, zero, zero}},
					{matrix.Vector3{gv, gv, 1}, []dy{g, g, one}}, {matrix.Vector3{1, gv, gv}, []dy{one, g, g}}} {
					m2 := m3call(a, "MulV", sv.v).(matrix.Vector3)
					sink.put(dy{"kind": "mulv", "a": ai, "v": sv.iv, "q": q, "o": []dy{obsv(m2[0]), obsv(m2[1]), obsv(m2[2])}})
				}
			}
			sink.put(dy{"kind": "transpose", "a": ai, "q": q, "o": rowsOf(m3call(a, "Transpose").(matrix.Matrix3))})
			// Dot and MulS through the same contracts: Dot(u, v) = (row vector u) * v ; MulS = scaling
			if i%3 == 0 {
				// exactly singular: repeated or zero columns
				s := a
				// each column is 0, column A or column B: the 27 patterns, all of them singular
				// (at most two distinct non-zero columns), the all-zero matrix included
				pat := (i / 3) % 27
				ca, cb := a[0], a[1]
				for c := 0; c < 3; c++ {
					switch pat % 3 {
					case 0:
						s[c] = matrix.Vector3{}
					case 1:
						s[c] = ca
					case 2:
						s[c] = cb
					}
					pat /= 3
				}
				si := make([][]dy, 3)
				for r := 0; r < 3; r++ {
					si[r] = []dy{intEntry(int64(s[0][r] * (1 << q))), intEntry(int64(s[1][r] * (1 << q))), intEntry(int64(s[2][r] * (1 << q)))}
				}
				pan := false
				func() {
					defer func() {
						if recover() != nil {
							pan = true
						}
					}()
					m3call(s, "Inverse")
				}()
				sink.put(dy{"kind": "singular", "a": si, "q": q, "panicked": pan})
			}
		}
		// the same 27 patterns from columns whose pairwise products are NOT exact in float64 (decimal
		// fractions, chromaticity-like triples): a repeated column is exactly singular whatever its entries
		for _, pair := range [][2]matrix.Vector3{{{0.1, 0.7, 0.3}, {0.9, 0.2, 0.6}}, {{0.64, 0.33, 0.03}, {0.3, 0.6, 0.1}},
			{{1.0 / 3, 2.0 / 3, 1.0 / 7}, {0.15, 0.06, 0.79}}, {{-0.8951, 0.7502, 0.0389}, {0.2664, 1.7135, -0.0685}}} {
			for pat0 := 0; pat0 < 27; pat0++ {
				var s matrix.Matrix3
				pat := pat0
				for c := 0; c < 3; c++ {
					switch pat % 3 {
					case 1:
						s[c] = pair[0]
					case 2:
						s[c] = pair[1]
					}
					pat /= 3
				}
				const q56 = 58 // float64 values in [2^-6, 16) are multiples of 2^-58 (checked below)
				si := make([][]dy, 3)
				exact := true
				for r := 0; r < 3; r++ {
					si[r] = make([]dy, 3)
					for c := 0; c < 3; c++ {
						v := s[c][r] * (1 << q56)
						if v != math.Trunc(v) || math.Abs(v) >= 1<<62 {
							exact = false
						}
						si[r][c] = intEntry(int64(v))
					}
				}
				if !exact {
					continue // not representable at this scale: no event rather than a wrong one
				}
				pan := false
				func() {
					defer func() {
						if recover() != nil {
							pan = true
						}
					}()
					m3call(s, "Inverse")
				}()
				sink.put(dy{"kind": "singular", "a": si, "q": q56, "panicked": pan})
			}
		}
		done()
		fmt.Printf("{\"c20\":%d}\n", sink.n)
	}
	if contains(*which, "c12") {
		if err := adaptEvents(*outDir, *tier, rng); err != nil {
			return err
		}
	}
	return nil
}

func matRows(m matrix.Matrix3) [][]dy {
	out := make([][]dy, 3)
	for r := 0; r < 3; r++ {
		out[r] = []dy{obsv(m[0][r]), obsv(m[1][r]), obsv(m[2][r])}
	}
	return out
}

type whitePt struct {
	form    string // "xyz" | "xyy"
	a, b, c float32
}

// json gives the white as the XYZ the library works with (for xyY whites: the
// float32 result of ColorFromXYY, which is what the adaptation is built from).
func (w whitePt) json() dy {
	c := w.xyz()
	return dy{"form": "xyz", "origin": w.form, "v": []dy{dyadic(float64(c.X)), dyadic(float64(c.Y)), dyadic(float64(c.Z))}}
}
func (w whitePt) xyz() ciexyz.Color {
	if w.form == "xyz" {
		return ciexyz.Color{X: w.a, Y: w.b, Z: w.c}
	}
	return ciexyz.ColorFromXYY(ciexyy.Color{X: w.a, Y: w.b, YY: w.c})
}
func (w whitePt) adaptTo(o whitePt) ciexyz.ChromaticAdaptation {
	if w.form == "xyy" && o.form == "xyy" {
		return ciexyz.AdaptBetweenXYYWhitePoints(ciexyy.Color{X: w.a, Y: w.b, YY: w.c}, ciexyy.Color{X: o.a, Y: o.b, YY: o.c})
	}
	return ciexyz.AdaptBetweenXYZWhitePoints(w.xyz(), o.xyz())
}

func adaptEvents(outDir, tier string, rng *rand.Rand) error {
	sink, done, err := newSink(filepath.Join(outDir, "c12.ndjson"))
	if err != nil {
		return err
	}
	defer done()
	ill := [][2]float64{{0.44757, 0.40745}, {0.34842, 0.35161}, {0.31006, 0.31616}, {0.34567, 0.35850}, {0.33242, 0.34743},
		{0.31271, 0.32902}, {0.29902, 0.31485}, {1.0 / 3, 1.0 / 3}, {0.37208, 0.37529}, {0.31292, 0.32933}, {0.38052, 0.37713}}
	var whites []whitePt
	for _, i := range ill {
		whites = append(whites, whitePt{"xyy", float32(i[0]), float32(i[1]), 1})
	}
	// the same illuminants given as XYZ (float32) to the XYZ constructor, and the package's own D50 / D65
	for _, i := range ill[:6] {
		c := ciexyz.ColorFromXYY(ciexyy.Color{X: float32(i[0]), Y: float32(i[1]), YY: 1})
		whites = append(whites, whitePt{"xyz", c.X, c.Y, c.Z})
	}
	whites = append(whites, whitePt{"xyz", ciexyz.D50.X, ciexyz.D50.Y, ciexyz.D50.Z}, whitePt{"xyz", ciexyz.D65.X, ciexyz.D65.Y, ciexyz.D65.Z})
	scale := 1  // the luminance scale of the destination white of the pair being emitted: 1, or 100
	mscale := 1 // the size of the matrix entries: the luminance ratio destination / source, if above 1
	emitPair := func(a, b whitePt) {
		defer func() {
			if r := recover(); r != nil { // a constructor that refuses a physically valid white point is an observation
				z := matRows(matrix.Matrix3{})
				sink.put(dy{"kind": "adapt", "a": a.json(), "b": b.json(), "ab": z, "ba": z, "aa": z, "applied": obs3(0, 0, 0), "same_xyy": false,
					"panic": true, "panic_msg": fmt.Sprint(r), "scale": scale, "mscale": mscale})
			}
		}()
		ab, ba, aa := a.adaptTo(b), b.adaptTo(a), a.adaptTo(a)
		ap := ab.Apply(a.xyz())
		// the xyY constructor must give the adaptation of the XYZ constructor on the converted whites
		viaXYZ := ciexyz.AdaptBetweenXYZWhitePoints(a.xyz(), b.xyz())
		sink.put(dy{"kind": "adapt", "a": a.json(), "b": b.json(), "ab": matRows(matrix.Matrix3(ab)), "ba": matRows(matrix.Matrix3(ba)),
			"aa": matRows(matrix.Matrix3(aa)), "applied": obs3(ap.X, ap.Y, ap.Z), "same_xyy": matrix.Matrix3(viaXYZ) == matrix.Matrix3(ab), "panic": false, "scale": scale, "mscale": mscale})
	}
	for _, a := range whites {
		for _, b := range whites {
			emitPair(a, b)
		}
	}
	// the same whites on the 0-100 luminance scale (Y = 100), both forms; and the corners of the region
	scale = 100
	var whites100 []whitePt
	for k, i := range append(append([][2]float64{}, ill...), [2]float64{0.2, 0.2}, [2]float64{0.24, 0.23}, [2]float64{0.5, 0.2}, [2]float64{0.2, 0.5}, [2]float64{0.5, 0.5}, [2]float64{0.25, 0.25}) {
		w := whitePt{"xyy", float32(i[0]), float32(i[1]), 100}
		if k%2 == 1 {
			c := w.xyz()
			w = whitePt{"xyz", c.X, c.Y, c.Z}
		}
		whites100 = append(whites100, w)
	}
	for _, a := range whites100 {
		for _, b := range whites100 {
			if a.form == b.form || tier == "thorough" {
				emitPair(a, b)
			}
		}
	}
	// mixed scales: a white on the 0-100 scale adapted to one on the 0-1 scale and back (the matrix
	// carries the luminance ratio; tolerances follow the destination's scale / the ratio)
	for i, a := range whites100 {
		for j, b := range whites[:17] {
			if (i+j)%3 != 0 && tier != "thorough" {
				continue
			}
			if a.form != b.form {
				continue
			}
			scale, mscale = 1, 1
			emitPair(a, b)
			scale, mscale = 100, 100
			emitPair(b, a)
		}
	}
	scale, mscale = 1, 1
	// chromaticity grid over [0.2, 0.5]^2 (with a seeded luminance now and then)
	g := 6
	if tier == "thorough" {
		g = 16
	}
	var grid []whitePt
	for i := 0; i < g; i++ {
		for j := 0; j < g; j++ {
			yy := float32(1)
			if (i+j)%5 == 0 {
				yy = 0.5 + rng.Float32()
			}
			grid = append(grid, whitePt{"xyy", float32(0.2 + 0.3*float64(i)/float64(g-1)), float32(0.2 + 0.3*float64(j)/float64(g-1)), yy})
		}
	}
	for _, a := range grid {
		for _, b := range grid {
			emitPair(a, b)
		}
	}
	// xyY -> XYZ conversion of white points against the exact (x Y / y, Y, (1 - x - y) Y / y)
	for _, w := range append(append([]whitePt{}, whites[:11]...), grid...) {
		c := w.xyz()
		sink.put(dy{"kind": "xyy2xyz", "xyy": dy{"form": "xyy", "v": []dy{dyadic(float64(w.a)), dyadic(float64(w.b)), dyadic(float64(w.c))}}, "o": obs3(c.X, c.Y, c.Z)})
	}
	// compositions over all triples of the 11 illuminants
	for _, a := range whites[:11] {
		for _, b := range whites[:11] {
			for _, c := range whites[:11] {
				sink.put(dy{"kind": "compose", "ab": matRows(matrix.Matrix3(a.adaptTo(b))), "bc": matRows(matrix.Matrix3(b.adaptTo(c))), "ac": matRows(matrix.Matrix3(a.adaptTo(c)))})
			}
		}
	}
	// Apply acts linearly on colours
	na := 1500
	if tier == "thorough" {
		na = 60000
	}
	for i := 0; i < na; i++ {
		a, b := whites[rng.Intn(len(whites))], whites[rng.Intn(len(whites))]
		m := a.adaptTo(b)
		v := [3]float32{float32(rng.Intn(3*1024+1))/1024 - 1, float32(rng.Intn(3*1024+1))/1024 - 1, float32(rng.Intn(3*1024+1))/1024 - 1}
		switch i % 6 { // the basis vectors and colours with one or two zero components (Y = 0 included)
		case 1:
			v = [3]float32{1, 0, 0}
		case 2:
			v = [3]float32{0, 0, 1}
		case 3:
			v[1] = 0
		case 4:
			v[0], v[2] = 0, 0
		}
		o := m.Apply(ciexyz.Color{X: v[0], Y: v[1], Z: v[2]})
		sink.put(dy{"kind": "apply", "m": matRows(matrix.Matrix3(m)), "v": []dy{obsv(float64(v[0])), obsv(float64(v[1])), obsv(float64(v[2]))}, "o": obs3(o.X, o.Y, o.Z)})
	}
	fmt.Printf("{\"c12\":%d}\n", sink.n)
	return nil
}

func contains(list, item string) bool {
	for _, p := range splitComma(list) {
		if p == item {
			return true
		}
	}
	return false
}

func splitComma(s string) []string {
	var out []string
	cur := ""
	for _, c := range s {
		if c == ',' {
			out = append(out, cur)
			cur = ""
		} else {
			cur += string(c)
		}
	}
	return append(out, cur)
}
