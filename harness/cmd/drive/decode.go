package main

import (
	"flag"
	"fmt"
	"image/color"
	"math"
	"math/rand"
	"path/filepath"
	"runtime"

	"github.com/mandykoh/prism/adobergb"
	"github.com/mandykoh/prism/displayp3"
	"github.com/mandykoh/prism/linear"
	"github.com/mandykoh/prism/prophotorgb"
	"github.com/mandykoh/prism/srgb"

	"verif/harness/numlog"
)

func init() { commands["decode"] = decodeCmd }

type space struct {
	name     string
	from8    func(uint8) float32
	from16   func(uint16) float32
	fromNRGB func(color.NRGBA) (linear.RGB, float32)
	fromRGBA func(color.RGBA) (linear.RGB, float32)
	fromEnc  func(color.Color) (linear.RGB, float32)
	fromLin  func(color.Color) (linear.RGB, float32)
	linCol   func(color.Color) color.RGBA64
	encCol   func(color.Color) color.RGBA64
	to8      func(float32) uint8
	to16     func(float32) uint16
}

var spaces = []space{
	{"srgb", srgb.From8Bit, srgb.From16Bit,
		func(c color.NRGBA) (linear.RGB, float32) { x, a := srgb.ColorFromNRGBA(c); return x.RGB, a },
		func(c color.RGBA) (linear.RGB, float32) { x, a := srgb.ColorFromRGBA(c); return x.RGB, a },
		func(c color.Color) (linear.RGB, float32) { x, a := srgb.ColorFromEncodedColor(c); return x.RGB, a },
		func(c color.Color) (linear.RGB, float32) { x, a := srgb.ColorFromLinearColor(c); return x.RGB, a },
		srgb.LineariseColor, srgb.EncodeColor, srgb.To8Bit, srgb.To16Bit},
	{"adobergb", adobergb.From8Bit, adobergb.From16Bit,
		func(c color.NRGBA) (linear.RGB, float32) { x, a := adobergb.ColorFromNRGBA(c); return x.RGB, a },
		func(c color.RGBA) (linear.RGB, float32) { x, a := adobergb.ColorFromRGBA(c); return x.RGB, a },
		func(c color.Color) (linear.RGB, float32) { x, a := adobergb.ColorFromEncodedColor(c); return x.RGB, a },
		func(c color.Color) (linear.RGB, float32) { x, a := adobergb.ColorFromLinearColor(c); return x.RGB, a },
		adobergb.LineariseColor, adobergb.EncodeColor, adobergb.To8Bit, adobergb.To16Bit},
	{"prophotorgb", prophotorgb.From8Bit, prophotorgb.From16Bit,
		func(c color.NRGBA) (linear.RGB, float32) { x, a := prophotorgb.ColorFromNRGBA(c); return x.RGB, a },
		func(c color.RGBA) (linear.RGB, float32) { x, a := prophotorgb.ColorFromRGBA(c); return x.RGB, a },
		func(c color.Color) (linear.RGB, float32) {
			x, a := prophotorgb.ColorFromEncodedColor(c)
			return x.RGB, a
		},
		func(c color.Color) (linear.RGB, float32) {
			x, a := prophotorgb.ColorFromLinearColor(c)
			return x.RGB, a
		},
		prophotorgb.LineariseColor, prophotorgb.EncodeColor, prophotorgb.To8Bit, prophotorgb.To16Bit},
	{"displayp3", nil, nil,
		func(c color.NRGBA) (linear.RGB, float32) { x, a := displayp3.ColorFromNRGBA(c); return x.RGB, a },
		func(c color.RGBA) (linear.RGB, float32) { x, a := displayp3.ColorFromRGBA(c); return x.RGB, a },
		func(c color.Color) (linear.RGB, float32) { x, a := displayp3.ColorFromEncodedColor(c); return x.RGB, a },
		func(c color.Color) (linear.RGB, float32) { x, a := displayp3.ColorFromLinearColor(c); return x.RGB, a },
		displayp3.LineariseColor, displayp3.EncodeColor, nil, nil},
}

func bits(f float32) int { return int(math.Float32bits(f)) }

func decodeCmd(args []string) error {
	fs := flag.NewFlagSet("decode", flag.ExitOnError)
	outDir := fs.String("out", "", "")
	tier := fs.String("tier", "quick", "")
	seed := fs.Int64("seed", 1, "")
	history := fs.String("history", "decode-first", "what this process did before its first decode: decode-first | encode-first | mixed")
	light := fs.Bool("light", false, "exact relation only for 8-bit codes, multiples of 257 and the first/last 64 codes")
	outName := fs.String("name", "c01.ndjson", "")
	fs.Parse(args)
	// The 16-bit tables are built lazily on first use; what they hold must not depend on
	// what the process did before (LazyLut: Build is a function of the table alone), nor on
	// GOMAXPROCS at the time (set by the caller through the environment).
	hist := fmt.Sprintf("%s/P%d", *history, runtime.GOMAXPROCS(0))
	for i, sp := range spaces {
		if *history == "encode-first" || (*history == "mixed" && i%2 == 0) {
			if sp.to16 != nil {
				sp.to16(0.5)
				sp.to8(0.5)
			}
			sp.encCol(color.NRGBA64{R: 1000, G: 30000, B: 65535, A: 65535})
		}
		if *history == "mixed" && i%2 == 1 {
			sp.linCol(color.NRGBA{R: 1, G: 2, B: 3, A: 255}) // 8-bit decode first, then the rest
		}
	}
	sink, done, err := newSink(filepath.Join(*outDir, *outName))
	if err != nil {
		return err
	}
	defer done()
	rng := rand.New(rand.NewSource(*seed))
	// which 16-bit codes get the exact relation in the quick tier
	exact16 := map[int]bool{}
	if *tier != "thorough" {
		for c := 0; c < 65536; c += 257 {
			exact16[c] = true
		}
		for _, j := range []int{2650, 65535 / 32, 2651} {
			for d := -8; d <= 8; d++ {
				if j+d >= 0 && j+d < 65536 {
					exact16[j+d] = true
				}
			}
		}
		for c := 0; c < 64; c++ {
			exact16[c], exact16[65535-c] = true, true
		}
		for i := 0; i < 2048 && !*light; i++ { // stratified
			exact16[i*32+rng.Intn(32)] = true
		}
	}
	type job struct {
		sp    space
		depth int
		lo    int
		hi    int
	}
	var jobs []job
	for _, sp := range spaces {
		jobs = append(jobs, job{sp, 8, 0, 256})
		for lo := 0; lo < 65536; lo += 4096 {
			jobs = append(jobs, job{sp, 16, lo, lo + 4096})
		}
	}
	parallel(len(jobs), func(ji int) {
		j := jobs[ji]
		sp := j.sp
		for c := j.lo; c < j.hi; c++ {
			func() {
				defer func() {
					if r := recover(); r != nil { // a decode that panics is an observation, not a driver failure
						sink.put(map[string]interface{}{"kind": "decode", "space": sp.name, "depth": j.depth, "code": c, "bits": -1,
							"prev": 0, "cross": -1, "entry": []int{-1}, "exact": false, "ylo": []int{}, "yhi": []int{}, "history": hist,
							"panic": fmt.Sprint(r)})
					}
				}()
				var y, prev float32
				var entry []int
				cross := -1
				if j.depth == 8 {
					n := color.NRGBA{uint8(c), uint8(c), uint8(c), 255}
					viaN, _ := sp.fromNRGB(n)
					viaR, _ := sp.fromRGBA(color.RGBA{uint8(c), uint8(c), uint8(c), 255})
					viaE, _ := sp.fromEnc(n)
					if sp.from8 != nil {
						y = sp.from8(uint8(c))
						if c > 0 {
							prev = sp.from8(uint8(c - 1))
						}
					} else {
						y = viaN.R
						if c > 0 {
							p, _ := sp.fromNRGB(color.NRGBA{uint8(c - 1), 0, 0, 255})
							prev = p.R
						}
					}
					// ... and as one channel of colours whose other channels differ (a channel's decoding does
					// not depend on its neighbours)
					c8 := uint8(c)
					viaM, _ := sp.fromEnc(color.NRGBA{c8, ^c8, c8*31 + 7, 255})
					viaM2, _ := sp.fromNRGB(color.NRGBA{c8 ^ 0x55, c8, ^c8, 255})
					viaM3, _ := sp.fromRGBA(color.RGBA{0, c8 ^ 0xF0, c8, 255})
					// ... and of colours in which two channels are equal and the third is not
					w8 := ^c8
					e1, _ := sp.fromEnc(color.NRGBA{w8, c8, c8, 255})
					e2, _ := sp.fromEnc(color.NRGBA{c8, c8, w8, 255})
					e3, _ := sp.fromEnc(color.RGBA{c8, w8, c8, 255})
					entry = []int{bits(viaN.R), bits(viaN.G), bits(viaN.B), bits(viaR.R), bits(viaR.G), bits(viaR.B), bits(viaE.R), bits(viaE.G), bits(viaE.B),
						bits(viaM.R), bits(viaM2.G), bits(viaM3.B),
						bits(e1.G), bits(e1.B), bits(e2.R), bits(e2.G), bits(e3.R), bits(e3.B)}
				} else {
					viaE, _ := sp.fromEnc(color.NRGBA64{uint16(c), uint16(c), uint16(c), 65535})
					viaP, _ := sp.fromEnc(color.RGBA64{uint16(c), uint16(c), uint16(c), 65535})
					if sp.from16 != nil {
						y = sp.from16(uint16(c))
						if c > 0 {
							prev = sp.from16(uint16(c - 1))
						}
					} else {
						y = viaE.R
						if c > 0 {
							p, _ := sp.fromEnc(color.NRGBA64{uint16(c - 1), 0, 0, 65535})
							prev = p.R
						}
					}
					c16 := uint16(c)
					viaM, _ := sp.fromEnc(color.NRGBA64{c16, ^c16, c16*31 + 7, 65535})
					viaM2, _ := sp.fromEnc(color.RGBA64{c16 ^ 0x5555, c16, ^c16, 65535})
					viaM3, _ := sp.fromEnc(color.NRGBA64{c16<<8 | c16>>8, 0, c16, 65535})
					w16 := ^c16
					f1, _ := sp.fromEnc(color.NRGBA64{w16, c16, c16, 65535})
					f2, _ := sp.fromEnc(color.RGBA64{c16, c16, w16, 65535})
					f3, _ := sp.fromEnc(color.NRGBA64{c16, w16, c16, 65535})
					entry = []int{bits(viaE.R), bits(viaE.G), bits(viaE.B), bits(viaP.R), bits(viaP.G), bits(viaP.B),
						bits(viaM.R), bits(viaM2.G), bits(viaM3.B),
						bits(f1.G), bits(f1.B), bits(f2.R), bits(f2.G), bits(f3.R), bits(f3.B)}
					if c%257 == 0 {
						if sp.from8 != nil {
							cross = bits(sp.from8(uint8(c / 257)))
						} else {
							v, _ := sp.fromNRGB(color.NRGBA{uint8(c / 257), 0, 0, 255})
							cross = bits(v.R)
						}
					}
				}
				exact := j.depth == 8 || *tier == "thorough" || exact16[c]
				ev := map[string]interface{}{"kind": "decode", "space": sp.name, "depth": j.depth, "code": c, "bits": bits(y),
					"prev": bits(prev), "cross": cross, "entry": entry, "exact": exact, "ylo": []int{}, "yhi": []int{}, "history": hist}
				if exact {
					lo, hi, sign, _ := numlog.Fixed(float64(y), 18)
					if sign < 0 || math.IsNaN(float64(y)) || math.IsInf(float64(y), 0) {
						ev["bits"] = -1 // negative / non-finite: rejected by the Zero/One/Mono clauses
					}
					ev["ylo"], ev["yhi"] = lo, hi
				}
				sink.put(ev)
				// LineariseColor re-quantises to 16 bits
				if exact && !*light && (j.depth == 8 || c%7 == 0 || *tier == "thorough") {
					var out color.RGBA64
					if j.depth == 8 {
						out = sp.linCol(color.NRGBA{uint8(c), uint8(c), uint8(c), 255})
					} else {
						out = sp.linCol(color.NRGBA64{uint16(c), uint16(c), uint16(c), 65535})
					}
					for _, ch := range []uint16{out.R, out.G, out.B} {
						lo, hi, _, _ := numlog.Fixed(float64(ch)/65535, 18)
						// float64(ch)/65535 is itself rounded; widen by one unit either side
						sink.put(map[string]interface{}{"kind": "linearise", "space": sp.name, "depth": j.depth, "code": c,
							"out": int(ch), "alpha": int(out.A), "ylo": lo, "yhi": hi})
					}
				}
			}()
		}
	})
	fmt.Printf("{\"events\":%d}\n", sink.n)
	return nil
}
