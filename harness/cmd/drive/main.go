// Command drive runs the real prism code over enumerated / TLC-generated
// inputs and writes ndjson observation traces for the TLA+ trace specs.
package main

import (
	"fmt"
	"os"
)

var commands = map[string]func(args []string) error{}

func main() {
	if len(os.Args) < 2 || commands[os.Args[1]] == nil {
		fmt.Fprintln(os.Stderr, "usage: drive <command> [flags]; commands:")
		for k := range commands {
			fmt.Fprintln(os.Stderr, "  ", k)
		}
		os.Exit(2)
	}
	if err := commands[os.Args[1]](os.Args[2:]); err != nil {
		fmt.Fprintln(os.Stderr, "drive:", err)
		os.Exit(2)
	}
}
