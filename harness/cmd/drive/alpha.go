package main

import (
	"flag"
	"fmt"
	"image/color"
	"math"
	"math/rand"
	"path/filepath"

	"github.com/mandykoh/prism/linear"

	"verif/harness/numlog"
)

func init() { commands["alpha"] = alphaCmd }

// mant returns the float32 as (24-bit mantissa m, k) with value = m / 2^k.
func mant(f float32) (m int, k int) {
	if f == 0 {
		return 0, 0
	}
	fr, e := math.Frexp(float64(f)) // f = fr * 2^e, fr in [0.5, 1)
	m = int(fr * (1 << 24))         // exact: float32 has 24 significant bits
	return m, 24 - e
}

func alphaCmd(args []string) error {
	fs := flag.NewFlagSet("alpha", flag.ExitOnError)
	outDir := fs.String("out", "", "")
	tier := fs.String("tier", "quick", "")
	seed := fs.Int64("seed", 1, "")
	fs.Parse(args)
	sink, done, err := newSink(filepath.Join(*outDir, "c14.ndjson"))
	if err != nil {
		return err
	}
	defer done()
	rng := rand.New(rand.NewSource(*seed))
	// A colour is what its RGBA() method says: every constructor / converter that takes a
	// color.Color gives, for a value of ANY dynamic type, what it gives for the color.RGBA64 with
	// the same RGBA() - and for opaque 8-bit colours what the 8-bit constructors give.  Asked
	// first (nothing has been built or counted yet in this process) and again at the end.
	zoo := func(phase string, n int) {
		for i := 0; i < n; i++ {
			r, g, b, a := uint8(rng.Intn(256)), uint8(rng.Intn(256)), uint8(rng.Intn(256)), uint8(1+rng.Intn(255))
			if i%16 == 0 {
				r, b = g, g // greys: where an "is it grey / is it 8-bit" shortcut would bite
			}
			for _, sp := range spaces {
				for _, c := range colourZoo(r, g, b, a) {
					cr, cg, cb, ca := c.RGBA()
					canon := color.RGBA64{uint16(cr), uint16(cg), uint16(cb), uint16(ca)}
					tn := fmt.Sprintf("%T", c)
					e1, a1 := sp.fromEnc(c)
					e2, a2 := sp.fromEnc(canon)
					sink.put(map[string]interface{}{"kind": "agree", "what": sp.name + ".ColorFromEncodedColor(" + tn + ") vs the RGBA64 with the same RGBA() [" + phase + "]",
						"a": []int{bits(e1.R), bits(e1.G), bits(e1.B), bits(a1)}, "b": []int{bits(e2.R), bits(e2.G), bits(e2.B), bits(a2)}})
					l1, la1 := sp.fromLin(c)
					l2, la2 := sp.fromLin(canon)
					sink.put(map[string]interface{}{"kind": "agree", "what": sp.name + ".ColorFromLinearColor(" + tn + ") vs RGBA64 [" + phase + "]",
						"a": []int{bits(l1.R), bits(l1.G), bits(l1.B), bits(la1)}, "b": []int{bits(l2.R), bits(l2.G), bits(l2.B), bits(la2)}})
					x1, x2 := sp.linCol(c), sp.linCol(canon)
					y1, y2 := sp.encCol(c), sp.encCol(canon)
					sink.put(map[string]interface{}{"kind": "agree", "what": sp.name + ".LineariseColor/EncodeColor(" + tn + ") vs RGBA64 [" + phase + "]",
						"a": []int{int(x1.R), int(x1.G), int(x1.B), int(x1.A), int(y1.R), int(y1.G), int(y1.B), int(y1.A)},
						"b": []int{int(x2.R), int(x2.G), int(x2.B), int(x2.A), int(y2.R), int(y2.G), int(y2.B), int(y2.A)}})
				}
				n8, an := sp.fromNRGB(color.NRGBA{r, g, b, 255})
				e8, ae := sp.fromEnc(color.NRGBA{r, g, b, 255})
				g8, ag := sp.fromEnc(color.Gray{g})
				ng, _ := sp.fromNRGB(color.NRGBA{g, g, g, 255})
				sink.put(map[string]interface{}{"kind": "agree", "what": sp.name + " opaque NRGBA: ColorFromNRGBA vs ColorFromEncodedColor [" + phase + "]",
					"a": []int{bits(n8.R), bits(n8.G), bits(n8.B), bits(an)}, "b": []int{bits(e8.R), bits(e8.G), bits(e8.B), bits(ae)}})
				sink.put(map[string]interface{}{"kind": "agree", "what": sp.name + " Gray vs ColorFromNRGBA of the same grey [" + phase + "]",
					"a": []int{bits(g8.R), bits(g8.G), bits(g8.B), bits(ag)}, "b": []int{bits(ng.R), bits(ng.G), bits(ng.B), bits(1)}})
			}
		}
	}
	zoo("first", 40)
	defer zoo("last", 40)
	// which 16-bit alphas
	alphas := map[int]bool{}
	if *tier == "thorough" {
		for a := 0; a < 65536; a++ {
			alphas[a] = true
		}
	} else {
		for _, a := range []int{0, 1, 2, 3, 127, 128, 255, 256, 257, 511, 32767, 32768, 65279, 65280, 65534, 65535} {
			alphas[a] = true
		}
		for a := 0; a < 65536; a += 257 {
			alphas[a] = true
		}
		for i := 0; i < 3000; i++ {
			alphas[rng.Intn(65536)] = true
		}
	}
	var alist []int
	for a := range alphas {
		alist = append(alist, a)
	}
	parallel(len(alist), func(i int) {
		a := alist[i]
		lr := rand.New(rand.NewSource(*seed*977 + int64(a)))
		chans := map[int]bool{0: true, 1: true, a / 2: true, a: true}
		if a > 0 {
			chans[a-1] = true
		}
		nsamp := 12
		if *tier == "thorough" {
			nsamp = 64
		}
		for s := 0; s < nsamp && a > 0; s++ {
			chans[lr.Intn(a+1)] = true
		}
		var cs []int
		for c := range chans {
			if c <= a {
				cs = append(cs, c)
			}
		}
		for _, sp := range spaces {
			for _, op := range []string{"linearise", "encode"} {
				f := sp.linCol
				if op == "encode" {
					f = sp.encCol
				}
				var pairs [][2]int
				aout := -1
				for j := 0; j+2 < len(cs)+2; j += 3 {
					c0, c1, c2 := cs[j%len(cs)], cs[(j+1)%len(cs)], cs[(j+2)%len(cs)]
					o := f(color.RGBA64{R: uint16(c0), G: uint16(c1), B: uint16(c2), A: uint16(a)})
					pairs = append(pairs, [2]int{c0, int(o.R)}, [2]int{c1, int(o.G)}, [2]int{c2, int(o.B)})
					if aout >= 0 && int(o.A) != aout {
						aout = -2 // alpha output depends on the colour: never equal to a below
					} else if aout == -1 {
						aout = int(o.A)
					}
				}
				// any pixel: one channel (each in turn) or all of them ABOVE alpha - not a valid premultiplied
				// pixel, so its colour is not judged (PremultValid speaks of valid pixels); its alpha is
				if a > 0 && a < 65535 {
					for _, over := range []int{a + 1, (a + 65536) / 2, 65535} {
						for pos := 0; pos < 4; pos++ {
							ch := [3]int{a / 2, a, 0}
							if pos < 3 {
								ch[pos] = over
							} else {
								ch = [3]int{over, over, over}
							}
							o := f(color.RGBA64{R: uint16(ch[0]), G: uint16(ch[1]), B: uint16(ch[2]), A: uint16(a)})
							if int(o.A) != aout {
								aout = -2
							}
						}
					}
				}
				sink.put(map[string]interface{}{"kind": "alpha", "space": sp.name, "op": op, "a": a, "aout": aout, "pairs": pairs})
			}
			// constructor alpha is exactly A/65535
			_, al := sp.fromEnc(color.NRGBA64{R: 1234, G: 5678, B: 9012, A: uint16(a)})
			m, k := mant(al)
			sink.put(map[string]interface{}{"kind": "alphanorm", "space": sp.name, "via": "ColorFromEncodedColor(NRGBA64)", "A": a, "max": 65535, "m": m, "k": k})
		}
	})
	// 8-bit: every (channel, alpha) pair through the 8-bit constructors and converters
	for _, sp := range spaces {
		for a := 0; a < 256; a++ {
			_, an := sp.fromNRGB(color.NRGBA{R: 9, G: 99, B: 199, A: uint8(a)})
			m, k := mant(an)
			sink.put(map[string]interface{}{"kind": "alphanorm", "space": sp.name, "via": "ColorFromNRGBA", "A": a, "max": 255, "m": m, "k": k})
			_, ar := sp.fromRGBA(color.RGBA{R: uint8(a / 3), G: uint8(a / 2), B: uint8(a), A: uint8(a)})
			m, k = mant(ar)
			sink.put(map[string]interface{}{"kind": "alphanorm", "space": sp.name, "via": "ColorFromRGBA", "A": a, "max": 255, "m": m, "k": k})
			var pairs [][2]int
			aout := -1
			step := 1
			if *tier != "thorough" {
				step = 7
			}
			for c := 0; c <= a; c += step {
				col, al := sp.fromRGBA(color.RGBA{R: uint8(c), G: uint8(a - c), B: uint8(c / 2), A: uint8(a)})
				// transparent decodes to the zero colour
				if a == 0 && (col.R != 0 || col.G != 0 || col.B != 0 || al != 0) {
					pairs = append(pairs, [2]int{c, 1})
				} else {
					pairs = append(pairs, [2]int{c, 0})
				}
				_ = al
			}
			_ = aout
			sink.put(map[string]interface{}{"kind": "alpha", "space": sp.name, "op": "decode8", "a": a, "aout": a, "pairs": func() [][2]int {
				if a == 0 {
					return pairs
				}
				return [][2]int{}
			}()})
		}
	}
	// fully transparent pixels decode to the zero colour with alpha 0, whatever the
	// (non-premultiplied, or invalidly premultiplied) channels say, through every constructor
	for i := 0; i < 400; i++ {
		r, g, b := uint16(rng.Intn(65536)), uint16(rng.Intn(65536)), uint16(rng.Intn(65536))
		if i < 8 {
			r, g, b = []uint16{65535, 0, 0, 65535, 1, 0, 255, 256}[i], []uint16{0, 65535, 0, 65535, 0, 1, 0, 0}[i], []uint16{0, 0, 65535, 65535, 0, 0, 255, 1}[i]
		}
		for _, sp := range spaces {
			type res struct {
				via string
				c   [3]float32
				a   float32
			}
			var rs []res
			// ColorFromNRGBA is the one constructor that does not divide by alpha: it keeps the
			// non-premultiplied colour of a transparent pixel (an observation, not judged: the
			// colour under zero alpha is not observable after any conversion back); only its
			// alpha is required to be exactly 0
			_, an := sp.fromNRGB(color.NRGBA{uint8(r >> 8), uint8(g >> 8), uint8(b >> 8), 0})
			rs = append(rs, res{"ColorFromNRGBA (alpha only)", [3]float32{0, 0, 0}, an})
			p, ap := sp.fromRGBA(color.RGBA{uint8(r >> 8), uint8(g >> 8), uint8(b >> 8), 0})
			rs = append(rs, res{"ColorFromRGBA", [3]float32{p.R, p.G, p.B}, ap})
			for _, c := range []color.Color{color.NRGBA64{r, g, b, 0}, color.NRGBA{uint8(r >> 8), uint8(g), uint8(b), 0}, color.RGBA64{0, 0, 0, 0},
				// invalidly premultiplied: colour bytes under alpha 0
				color.RGBA64{r | 1, g, b, 0}, color.RGBA{uint8(r>>8) | 1, uint8(g), uint8(b), 0}, color.RGBA64{0, 0, 1, 0}} {
				e, ae := sp.fromEnc(c)
				rs = append(rs, res{fmt.Sprintf("ColorFromEncodedColor(%T)", c), [3]float32{e.R, e.G, e.B}, ae})
				l, al := sp.fromLin(c)
				rs = append(rs, res{fmt.Sprintf("ColorFromLinearColor(%T)", c), [3]float32{l.R, l.G, l.B}, al})
				lc, ec := sp.linCol(c), sp.encCol(c)
				sink.put(map[string]interface{}{"kind": "agree", "what": sp.name + " Linearise/EncodeColor of a transparent pixel is transparent black",
					"a": []int{int(lc.R), int(lc.G), int(lc.B), int(lc.A), int(ec.R), int(ec.G), int(ec.B), int(ec.A)}, "b": []int{0, 0, 0, 0, 0, 0, 0, 0}})
			}
			for _, x := range rs {
				// NaN != 0, so compare bit patterns with +0 (a -0 or NaN channel is not the zero colour)
				sink.put(map[string]interface{}{"kind": "agree", "what": sp.name + "." + x.via + " of a fully transparent pixel",
					"a": []int{bits(x.c[0]), bits(x.c[1]), bits(x.c[2]), bits(x.a)}, "b": []int{0, 0, 0, 0}})
			}
		}
	}
	// opaque colours: the three constructors give the same linear value (bit-for-bit)
	for i := 0; i < 3000; i++ {
		r, g, b := uint8(rng.Intn(256)), uint8(rng.Intn(256)), uint8(rng.Intn(256))
		for _, sp := range spaces {
			n, an := sp.fromNRGB(color.NRGBA{r, g, b, 255})
			p, ap := sp.fromRGBA(color.RGBA{r, g, b, 255})
			e, ae := sp.fromEnc(color.NRGBA{r, g, b, 255})
			key := func(c interface{}) []int { return nil }
			_ = key
			sink.put(map[string]interface{}{"kind": "agree", "what": sp.name + " opaque NRGBA vs RGBA", "a": []int{bits(n.R), bits(n.G), bits(n.B), bits(an)}, "b": []int{bits(p.R), bits(p.G), bits(p.B), bits(ap)}})
			sink.put(map[string]interface{}{"kind": "agree", "what": sp.name + " opaque NRGBA vs EncodedColor", "a": []int{bits(n.R), bits(n.G), bits(n.B), bits(an)}, "b": []int{bits(e.R), bits(e.G), bits(e.B), bits(ae)}})
		}
	}
	// encode side: float alphas incl. out of range, infinities, NaN go through the quantiser law
	q8 := encFns[6]
	q16 := encFns[8]
	na := 2500
	var fa []float32
	for _, v := range []float32{0, float32(math.Copysign(0, -1)), 1, -1, 2, 0.5, float32(math.Inf(1)), float32(math.Inf(-1)), float32(math.NaN()),
		math.SmallestNonzeroFloat32, 1.1754944e-38, 0.99999994, 1.0000001, -1e-30, 1e30} {
		fa = append(fa, v)
	}
	// around the 8- and 16-bit alpha grids and the rounding boundaries between their codes
	for i := 0; i < 400; i++ {
		k := rng.Intn(65536)
		fa = append(fa, float32(k)/65535, float32((float64(k)+0.5)/65535), float32(float64(k%256)/255), float32((float64(k%256)+0.5)/255),
			float32((float64(k%256)+0.5+1e-4)/255), float32((float64(k%256)+0.5-1e-4)/255))
	}
	for i := 0; i < na; i++ {
		switch i % 3 {
		case 0:
			fa = append(fa, rng.Float32())
		case 1:
			fa = append(fa, rng.Float32()*3-1)
		case 2:
			fa = append(fa, math.Float32frombits(rng.Uint32()))
		}
	}
	for _, al := range fa {
		for si, sp := range spaces {
			if si != int(math.Float32bits(al))%len(spaces) && al == al {
				continue
			}
			_ = sp
			c := color.RGBA64{}
			switch sp.name {
			case "srgb":
				c = srgbToRGBA64(al)
			default:
				c = otherToRGBA64(sp.name, al)
			}
			ev := pointEvent(q16, al, int(c.A), 0)
			ev["name"] = sp.name + ".Color.ToRGBA64 alpha"
			if al == al {
				ev["prev_out"] = 0
			}
			sink.put(ev)
			n8 := toNRGBAAlpha(sp.name, al)
			ev8 := pointEvent(q8, al, n8, 0)
			ev8["name"] = sp.name + ".Color.ToNRGBA alpha"
			sink.put(ev8)
			lr := linearRGB{0.25, 0.5, 0.75}
			evp := pointEvent(q8, al, int(lr.toRGBA(sp.name, al).A), 0)
			evp["name"] = sp.name + ".Color.ToRGBA alpha"
			sink.put(evp)
			evl := pointEvent(q16, al, int(linear.RGB{R: 0.25, G: 0.5, B: 0.75}.ToLinearRGBA64(al).A), 0)
			evl["name"] = "linear.RGB.ToLinearRGBA64 alpha"
			sink.put(evl)
			// every encode-side writer stores what the plain quantiser makes of this alpha - for every
			// float32, the ones outside [0,1], the infinities and NaN included
			a8, a16 := int(linear.NormalisedTo8Bit(al)), int(linear.NormalisedTo16Bit(al))
			sink.put(map[string]interface{}{"kind": "agree", "what": fmt.Sprintf("%s alpha with float32 bits %08x: ToNRGBA / ToRGBA / ToRGBA64 / ToLinearRGBA64 vs NormalisedTo8Bit / 16Bit", sp.name, math.Float32bits(al)),
				"a": []int{n8, int(lr.toRGBA(sp.name, al).A), int(c.A), int(linear.RGB{R: 0.25, G: 0.5, B: 0.75}.ToLinearRGBA64(al).A)}, "b": []int{a8, a8, a16, a16}})
		}
	}
	_ = numlog.Limbs
	fmt.Printf("{\"events\":%d}\n", sink.n)
	return nil
}

func srgbToRGBA64(al float32) color.RGBA64 { return otherToRGBA64("srgb", al) }

func otherToRGBA64(name string, al float32) color.RGBA64 {
	lr := linearRGB{0.25, 0.5, 0.75}
	return lr.toRGBA64(name, al)
}

func toNRGBAAlpha(name string, al float32) int {
	lr := linearRGB{0.25, 0.5, 0.75}
	return int(lr.toNRGBA(name, al).A)
}
