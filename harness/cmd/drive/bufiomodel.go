package main

import (
	"bufio"
	"bytes"
	"encoding/json"
	"errors"
	"flag"
	"fmt"
	"io"
	"os"
)

func init() { commands["bufiomodel"] = bufioModelCmd }

// One behaviour printed by MC_ReaderStack (generation config): the parser's request
// program, the source length and terminal condition, the delivery schedule TLC chose,
// and what the model says happened.
type rsBehaviour struct {
	Prog     [][]json.RawMessage `json:"prog"`
	N        int                 `json:"n"`
	Fail     string              `json:"fail"`
	Sched    [][]json.RawMessage `json:"sched"`
	Outcome  string              `json:"outcome"`
	Pulled   int                 `json:"pulled"`
	Consumed int                 `json:"consumed"`
	Tee      int                 `json:"tee"`
	Mode     string              `json:"mode"`
	Buf      int                 `json:"buf"`
}

var errModelIO = errors.New("model: injected I/O error")

// schedSource delivers exactly the scheduled sizes; a deviation (asked for less than
// scheduled, schedule exhausted) means the model and the real stack disagree.
type schedSource struct {
	n, pos   int
	fail     error
	sched    [][2]int // size, withErr(0/1)
	i        int
	mismatch string
}

func (s *schedSource) Read(p []byte) (int, error) {
	if s.i >= len(s.sched) {
		s.mismatch = fmt.Sprintf("source read #%d (len %d) not in the model's schedule", s.i+1, len(p))
		return 0, s.fail
	}
	d, e := s.sched[s.i][0], s.sched[s.i][1]
	s.i++
	if d > len(p) {
		s.mismatch = fmt.Sprintf("model delivers %d bytes into a %d-byte request", d, len(p))
		d = len(p)
	}
	for k := 0; k < d; k++ {
		p[k] = byte(s.pos + k + 1)
	}
	s.pos += d
	if e == 1 || d == 0 {
		return d, s.fail
	}
	return d, nil
}

func bufioModelCmd(args []string) error {
	fs := flag.NewFlagSet("bufiomodel", flag.ExitOnError)
	in := fs.String("cases", "", "")
	fs.Parse(args)
	f, err := os.Open(*in)
	if err != nil {
		return err
	}
	defer f.Close()
	sc := bufio.NewScanner(f)
	sc.Buffer(make([]byte, 1<<20), 1<<24)
	total, bad := 0, 0
	var first string
	for sc.Scan() {
		var b rsBehaviour
		if err := json.Unmarshal(sc.Bytes(), &b); err != nil {
			return err
		}
		total++
		src := &schedSource{n: b.N, fail: io.EOF}
		if b.Fail == "ioerr" {
			src.fail = errModelIO
		}
		for _, s := range b.Sched {
			var d int
			var e bool
			json.Unmarshal(s[0], &d)
			json.Unmarshal(s[1], &e)
			ei := 0
			if e {
				ei = 1
			}
			src.sched = append(src.sched, [2]int{d, ei})
		}
		var tee bytes.Buffer
		br := bufio.NewReaderSize(io.TeeReader(src, &tee), b.Buf)
		outcome, consumed := "ok", 0
		var got []byte
	prog:
		for _, rq := range b.Prog {
			var kind string
			json.Unmarshal(rq[0], &kind)
			k := 1
			if len(rq) > 1 {
				json.Unmarshal(rq[1], &k)
			}
			if kind == "R" && b.Mode == "full" {
				kind = "F"
			}
			switch kind {
			case "B":
				c, err := br.ReadByte()
				if err != nil {
					outcome = "fail"
					break prog
				}
				got = append(got, c)
				consumed++
			case "R": // one Read; an error or a short count is a failure (the as-found parsers)
				buf := make([]byte, k)
				n, err := br.Read(buf)
				got = append(got, buf[:n]...)
				consumed += n
				if err != nil || n != k {
					outcome = "fail"
					break prog
				}
			case "F":
				buf := make([]byte, k)
				n, err := io.ReadFull(br, buf)
				got = append(got, buf[:n]...)
				consumed += n
				if err != nil {
					outcome = "fail"
					break prog
				}
			}
		}
		why := src.mismatch
		switch {
		case why != "":
		case outcome != b.Outcome:
			why = fmt.Sprintf("outcome %s, model %s", outcome, b.Outcome)
		case src.pos != b.Pulled:
			why = fmt.Sprintf("pulled %d, model %d", src.pos, b.Pulled)
		case consumed != b.Consumed:
			why = fmt.Sprintf("consumed %d, model %d", consumed, b.Consumed)
		case tee.Len() != b.Tee:
			why = fmt.Sprintf("tee holds %d, model %d", tee.Len(), b.Tee)
		case src.i != len(src.sched):
			why = fmt.Sprintf("real stack made %d source reads, model %d", src.i, len(src.sched))
		}
		for i, c := range got { // the parser sees the bytes in order
			if int(c) != (i+1)%256 && why == "" {
				why = fmt.Sprintf("parser byte %d is %d", i, c)
			}
		}
		if why != "" {
			bad++
			if first == "" {
				first = why + " on " + sc.Text()
			}
		}
	}
	js, _ := json.Marshal(map[string]interface{}{"behaviours": total, "mismatches": bad, "first": first})
	fmt.Println(string(js))
	return sc.Err()
}
