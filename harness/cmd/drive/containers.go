package main

import (
	"bufio"
	"bytes"
	"encoding/json"
	"flag"
	"fmt"
	"image/jpeg"
	"image/png"
	"os"
	"runtime"
	"strconv"
	"strings"
	"sync"
	"sync/atomic"

	"golang.org/x/image/webp"

	"verif/harness/concrete"
	"verif/harness/gen"
	"verif/harness/obs"
)

func init() { commands["containers"] = containersCmd }

// Event is one observation line for spec/TraceContainers.tla.
type cEvent struct {
	ID      int              `json:"id"`
	Variant int              `json:"variant"`
	Fmt     string           `json:"fmt"`
	Loader  string           `json:"loader"`
	File    json.RawMessage  `json:"file"`
	Obs     concrete.Outcome `json:"obs"`
	Member  bool             `json:"go_member"`
	Raw     *obs.Obs         `json:"raw,omitempty"`
	Len     int              `json:"len"`
	Shape   string           `json:"shape"`
}

// delivery schedules rotated over the container cases (C08 owns the exhaustive treatment)
var containerScheds = []obs.Sched{obs.Full, obs.Full, {Name: "fixed3", Sizes: []int{3}, Cyclic: true}, obs.Full,
	{Name: "fixed7", Sizes: []int{7}, Cyclic: true}, {Name: "fixed1", Sizes: []int{1}, Cyclic: true}, {Name: "full+eof", WithErr: true}}

var (
	disturbOnce sync.Once
	disturbData [][]byte
)

// disturbers are three files with (multi-chunk) profiles of their own, loaded after a result
// has been obtained to see whether that result survives.
func disturbers() [][]byte {
	disturbOnce.Do(func() {
		// a two-byte profile in two chunks first: it fits whatever capacity a recycled buffer
		// has, so a result that aliases recycled storage is overwritten in place
		tiny, _ := gen.BuildJPEG([]gen.JSeg{gen.SOI(), gen.ICCSeg(1, 2, []byte{0xEE}), gen.ICCSeg(2, 2, []byte{0xDD}),
			gen.SOF(0xC0, 8, 5, 6, gen.StdComps(3, 0x11)), gen.SOS(3, gen.EntropyBytes(20, 1)), gen.EOI()})
		prof := gen.SimpleProfile(9000, "disturber", true, 77)
		parts := gen.SplitICC(prof, 3)
		j, _ := gen.BuildJPEG([]gen.JSeg{gen.SOI(), gen.ICCSeg(1, 3, parts[0]), gen.ICCSeg(2, 3, parts[1]), gen.ICCSeg(3, 3, parts[2]),
			gen.SOF(0xC0, 8, 5, 6, gen.StdComps(3, 0x11)), gen.SOS(3, gen.EntropyBytes(20, 1)), gen.EOI()})
		p, _ := gen.BuildPNG([]gen.PNGChunk{gen.IHDR(3, 4, 8, 2, 0), gen.ICCP("d", 0, gen.Deflate(prof, 6)), gen.Chunk("IDAT", gen.Payload(20, 2, false)), gen.Chunk("IEND", nil)})
		w, _ := gen.BuildWebP([]gen.WChunk{gen.VP8X(gen.VP8XICC, 5, 6), gen.WC("ICCP", prof), gen.VP8(5, 6, 0, 0, gen.VP8Body(20))}, -1)
		tp, _ := gen.BuildPNG([]gen.PNGChunk{gen.IHDR(3, 4, 8, 2, 0), gen.ICCP("t", 0, gen.Deflate([]byte{0xEE, 0xDD}, 6)), gen.Chunk("IDAT", gen.Payload(20, 2, false)), gen.Chunk("IEND", nil)})
		tw, _ := gen.BuildWebP([]gen.WChunk{gen.VP8X(gen.VP8XICC, 5, 6), gen.WC("ICCP", []byte{0xEE, 0xDD}), gen.VP8(5, 6, 0, 0, gen.VP8Body(20))}, -1)
		disturbData = [][]byte{tiny, tp, tw, j, p, w}
	})
	return disturbData
}

func stdConfig(fmtName string, data []byte) (int, int, error) {
	switch fmtName {
	case "png":
		c, err := png.DecodeConfig(bytes.NewReader(data))
		return c.Width, c.Height, err
	case "jpeg":
		c, err := jpeg.DecodeConfig(bytes.NewReader(data))
		return c.Width, c.Height, err
	}
	c, err := webp.DecodeConfig(bytes.NewReader(data))
	return c.Width, c.Height, err
}

func containersCmd(args []string) error {
	fs := flag.NewFlagSet("containers", flag.ExitOnError)
	in := fs.String("cases", "", "ndjson of TLC-printed cases")
	out := fs.String("out", "", "ndjson of observation events")
	variants := fs.Int("variants", 1, "concretisations per abstract file")
	only := fs.String("only", "", "id:variant:loader to replay verbosely")
	dump := fs.String("dump", "", "with -only: write the concrete bytes here")
	fs.Parse(args)
	f, err := os.Open(*in)
	if err != nil {
		return err
	}
	defer f.Close()
	var w *bufio.Writer
	if *out != "" {
		of, err := os.Create(*out)
		if err != nil {
			return err
		}
		defer of.Close()
		w = bufio.NewWriterSize(of, 1<<20)
		defer w.Flush()
	}
	onlyID, onlyVar, onlyLoader := -1, -1, ""
	if *only != "" {
		p := strings.Split(*only, ":")
		onlyID, _ = strconv.Atoi(p[0])
		onlyVar, _ = strconv.Atoi(p[1])
		onlyLoader = p[2]
	}
	sc := bufio.NewScanner(f)
	sc.Buffer(make([]byte, 1<<20), 1<<26)
	var caseLines [][]byte
	for sc.Scan() {
		caseLines = append(caseLines, append([]byte{}, sc.Bytes()...))
	}
	type result struct {
		lines          [][]byte
		validated, rej int
		err            error
	}
	results := make([]result, len(caseLines))
	work := func(idx int) (res result) {
		id := idx + 1
		c, err := concrete.ParseCase(caseLines[idx])
		if err != nil {
			res.err = fmt.Errorf("case %d: %v", id, err)
			return
		}
		for v := 0; v < *variants; v++ {
			if onlyVar >= 0 && v != onlyVar {
				continue
			}
			b := concrete.Build(c, v)
			// validate the generator against the standard decoders where they accept the file
			if sw, sh, err := stdConfig(c.Fmt, b.Data); err == nil {
				ok := false
				for _, a := range c.Allowed {
					if a.OK && int64(sw) == a.W && int64(sh) == a.H {
						ok = true
					}
				}
				if !ok {
					res.err = fmt.Errorf("GENERATOR MISMATCH case %d variant %d: std decoder says %dx%d, contract %v", id, v, sw, sh, c.Allowed)
					return
				}
				res.validated++
			} else {
				res.rej++
			}
			for _, loader := range []string{c.Fmt, "auto"} {
				if onlyLoader != "" && loader != onlyLoader {
					continue
				}
				// the source presents itself as a bare reader, or the way *bytes.Reader / *os.File do
				// (at offset 0, or embedded after foreign bytes): the outcome may not depend on it
				shape := []string{"plain", "rich0", "rich5"}[(id+v)%3]
				sched := containerScheds[(id/3+v)%len(containerScheds)]
				o := obs.Run(loader, obs.NewSource(b.Data, -1, nil, sched).WithShape(shape), false, false)
				// what a load returned stays what it was while the library goes on to load other
				// files (its results may not alias storage the library reuses)
				if d := o.ICCData(); len(d) > 0 {
					for _, dist := range disturbers() {
						obs.Run("auto", obs.NewSource(dist, -1, nil, obs.Full), false, false)
					}
					if obs.HashBytes(d) != o.ICCHash {
						o.ICC = "mutated-after-later-loads"
					}
				}
				ev := cEvent{ID: id, Variant: v, Fmt: c.Fmt, Loader: loader, File: c.FileRaw, Len: len(b.Data), Shape: shape}
				ev.Obs = concrete.Project(c, v, &o)
				if o.Panic != "" {
					ev.Obs.ICC = json.RawMessage(`["panic"]`)
				}
				for _, a := range c.Allowed {
					if a.Key() == ev.Obs.Key() {
						ev.Member = true
					}
				}
				if onlyID >= 0 {
					ev.Raw = &o
					js, _ := json.MarshalIndent(ev, "", " ")
					fmt.Println(string(js))
					fmt.Printf("allowed: %v\n", c.Allowed)
					if *dump != "" {
						os.WriteFile(*dump, b.Data, 0o644)
					}
				}
				js, _ := json.Marshal(ev)
				res.lines = append(res.lines, js)
			}
		}
		return
	}
	if onlyID >= 0 {
		if onlyID > len(caseLines) {
			return fmt.Errorf("no case %d", onlyID)
		}
		results[onlyID-1] = work(onlyID - 1)
	} else {
		var wg sync.WaitGroup
		next := int64(-1)
		for g := 0; g < runtime.NumCPU(); g++ {
			wg.Add(1)
			go func() {
				defer wg.Done()
				for {
					i := int(atomic.AddInt64(&next, 1))
					if i >= len(caseLines) {
						return
					}
					results[i] = work(i)
				}
			}()
		}
		wg.Wait()
	}
	id, validated, stdRejected, events := len(caseLines), 0, 0, 0
	for _, r := range results {
		if r.err != nil {
			return r.err
		}
		validated += r.validated
		stdRejected += r.rej
		for _, l := range r.lines {
			if w != nil {
				w.Write(l)
				w.WriteByte('\n')
			}
			events++
		}
	}
	fmt.Printf("{\"cases\":%d,\"events\":%d,\"std_validated\":%d,\"std_rejected\":%d}\n", id, events, validated, stdRejected)
	return sc.Err()
}
