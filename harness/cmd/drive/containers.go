package main

import (
	"bufio"
	"bytes"
	"encoding/json"
	"flag"
	"fmt"
	"image/jpeg"
	"image/png"
	"os"
	"runtime"
	"strconv"
	"strings"
	"sync"
	"sync/atomic"

	"golang.org/x/image/webp"

	"verif/harness/concrete"
	"verif/harness/obs"
)

func init() { commands["containers"] = containersCmd }

// Event is one observation line for spec/TraceContainers.tla.
type cEvent struct {
	ID      int              `json:"id"`
	Variant int              `json:"variant"`
	Fmt     string           `json:"fmt"`
	Loader  string           `json:"loader"`
	File    json.RawMessage  `json:"file"`
	Obs     concrete.Outcome `json:"obs"`
	Member  bool             `json:"go_member"`
	Raw     *obs.Obs         `json:"raw,omitempty"`
	Len     int              `json:"len"`
	Shape   string           `json:"shape"`
}

func stdConfig(fmtName string, data []byte) (int, int, error) {
	switch fmtName {
	case "png":
		c, err := png.DecodeConfig(bytes.NewReader(data))
		return c.Width, c.Height, err
	case "jpeg":
		c, err := jpeg.DecodeConfig(bytes.NewReader(data))
		return c.Width, c.Height, err
	}
	c, err := webp.DecodeConfig(bytes.NewReader(data))
	return c.Width, c.Height, err
}

func containersCmd(args []string) error {
	fs := flag.NewFlagSet("containers", flag.ExitOnError)
	in := fs.String("cases", "", "ndjson of TLC-printed cases")
	out := fs.String("out", "", "ndjson of observation events")
	variants := fs.Int("variants", 1, "concretisations per abstract file")
	only := fs.String("only", "", "id:variant:loader to replay verbosely")
	dump := fs.String("dump", "", "with -only: write the concrete bytes here")
	fs.Parse(args)
	f, err := os.Open(*in)
	if err != nil {
		return err
	}
	defer f.Close()
	var w *bufio.Writer
	if *out != "" {
		of, err := os.Create(*out)
		if err != nil {
			return err
		}
		defer of.Close()
		w = bufio.NewWriterSize(of, 1<<20)
		defer w.Flush()
	}
	onlyID, onlyVar, onlyLoader := -1, -1, ""
	if *only != "" {
		p := strings.Split(*only, ":")
		onlyID, _ = strconv.Atoi(p[0])
		onlyVar, _ = strconv.Atoi(p[1])
		onlyLoader = p[2]
	}
	sc := bufio.NewScanner(f)
	sc.Buffer(make([]byte, 1<<20), 1<<26)
	var caseLines [][]byte
	for sc.Scan() {
		caseLines = append(caseLines, append([]byte{}, sc.Bytes()...))
	}
	type result struct {
		lines          [][]byte
		validated, rej int
		err            error
	}
	results := make([]result, len(caseLines))
	work := func(idx int) (res result) {
		id := idx + 1
		c, err := concrete.ParseCase(caseLines[idx])
		if err != nil {
			res.err = fmt.Errorf("case %d: %v", id, err)
			return
		}
		for v := 0; v < *variants; v++ {
			if onlyVar >= 0 && v != onlyVar {
				continue
			}
			b := concrete.Build(c, v)
			// validate the generator against the standard decoders where they accept the file
			if sw, sh, err := stdConfig(c.Fmt, b.Data); err == nil {
				ok := false
				for _, a := range c.Allowed {
					if a.OK && int64(sw) == a.W && int64(sh) == a.H {
						ok = true
					}
				}
				if !ok {
					res.err = fmt.Errorf("GENERATOR MISMATCH case %d variant %d: std decoder says %dx%d, contract %v", id, v, sw, sh, c.Allowed)
					return
				}
				res.validated++
			} else {
				res.rej++
			}
			for _, loader := range []string{c.Fmt, "auto"} {
				if onlyLoader != "" && loader != onlyLoader {
					continue
				}
				// the source presents itself as a bare reader, or the way *bytes.Reader / *os.File do
				// (at offset 0, or embedded after foreign bytes): the outcome may not depend on it
				shape := []string{"plain", "rich0", "rich5"}[(id+v)%3]
				o := obs.Run(loader, obs.NewSource(b.Data, -1, nil, obs.Full).WithShape(shape), false, false)
				ev := cEvent{ID: id, Variant: v, Fmt: c.Fmt, Loader: loader, File: c.FileRaw, Len: len(b.Data), Shape: shape}
				ev.Obs = concrete.Project(c, v, &o)
				if o.Panic != "" {
					ev.Obs.ICC = json.RawMessage(`["panic"]`)
				}
				for _, a := range c.Allowed {
					if a.Key() == ev.Obs.Key() {
						ev.Member = true
					}
				}
				if onlyID >= 0 {
					ev.Raw = &o
					js, _ := json.MarshalIndent(ev, "", " ")
					fmt.Println(string(js))
					fmt.Printf("allowed: %v\n", c.Allowed)
					if *dump != "" {
						os.WriteFile(*dump, b.Data, 0o644)
					}
				}
				js, _ := json.Marshal(ev)
				res.lines = append(res.lines, js)
			}
		}
		return
	}
	if onlyID >= 0 {
		if onlyID > len(caseLines) {
			return fmt.Errorf("no case %d", onlyID)
		}
		results[onlyID-1] = work(onlyID - 1)
	} else {
		var wg sync.WaitGroup
		next := int64(-1)
		for g := 0; g < runtime.NumCPU(); g++ {
			wg.Add(1)
			go func() {
				defer wg.Done()
				for {
					i := int(atomic.AddInt64(&next, 1))
					if i >= len(caseLines) {
						return
					}
					results[i] = work(i)
				}
			}()
		}
		wg.Wait()
	}
	id, validated, stdRejected, events := len(caseLines), 0, 0, 0
	for _, r := range results {
		if r.err != nil {
			return r.err
		}
		validated += r.validated
		stdRejected += r.rej
		for _, l := range r.lines {
			if w != nil {
				w.Write(l)
				w.WriteByte('\n')
			}
			events++
		}
	}
	fmt.Printf("{\"cases\":%d,\"events\":%d,\"std_validated\":%d,\"std_rejected\":%d}\n", id, events, validated, stdRejected)
	return sc.Err()
}
