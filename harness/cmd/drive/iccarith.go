package main

import (
	"bufio"
	"bytes"
	"encoding/binary"
	"encoding/json"
	"flag"
	"fmt"
	"os"

	"github.com/mandykoh/prism/meta/icc"

	"verif/harness/gen"
)

func init() { commands["iccarith"] = iccArithCmd }

// gamma maps a scaled word (ring Z_65536, bands small / mid / high) to the 32-bit value it stands for.
func gamma(v int) uint32 {
	const M = 65536
	switch {
	case v <= 1000:
		return uint32(v)
	case v == M/2-1:
		return 1<<31 - 1
	case v == M/2:
		return 1 << 31
	default:
		return uint32(0x100000000 - int64(M-v))
	}
}

type arithCase struct {
	Part string `json:"part"`
	Inp  struct {
		Count  int `json:"count"`
		Off    int `json:"off"`
		Size   int `json:"size"`
		Avail  int `json:"avail"`
		RCount int `json:"rcount"`
		RSize  int `json:"rsize"`
		Len    int `json:"len"`
	} `json:"inp"`
	Outcome string `json:"outcome"`
}

func iccArithCmd(args []string) error {
	fs := flag.NewFlagSet("iccarith", flag.ExitOnError)
	in := fs.String("cases", "", "")
	fs.Parse(args)
	f, err := os.Open(*in)
	if err != nil {
		return err
	}
	defer f.Close()
	sc := bufio.NewScanner(f)
	sc.Buffer(make([]byte, 1<<20), 1<<24)
	total, drift, escaped := 0, 0, 0
	var first, firstEsc string
	be := binary.BigEndian
	for sc.Scan() {
		var c arithCase
		if err := json.Unmarshal(sc.Bytes(), &c); err != nil {
			return err
		}
		total++
		var prof []byte
		switch c.Part {
		case "tagtable":
			prof = gen.ICCHeader(0)
			var t [4]byte
			be.PutUint32(t[:], uint32(c.Inp.Count))
			prof = append(prof, t[:]...)
			for i := 0; i < c.Inp.Count; i++ {
				var e [12]byte
				copy(e[:], fmt.Sprintf("tg%02d", i))
				be.PutUint32(e[4:], gamma(c.Inp.Off))
				be.PutUint32(e[8:], gamma(c.Inp.Size))
				prof = append(prof, e[:]...)
			}
			prof = append(prof, gen.Payload(c.Inp.Avail, 5, true)...)
		case "textdesc":
			d := []byte{'d', 'e', 's', 'c', 0, 0, 0, 0, 0, 0, 0, 0}
			be.PutUint32(d[8:], gamma(c.Inp.Count))
			d = append(d, bytes.Repeat([]byte{'x'}, c.Inp.Avail)...)
			prof = gen.BuildICC(nil, []gen.ICCTag{{Sig: "desc", Block: 0}}, []gen.ICCBlock{{Data: d}}, nil, nil)
		case "mluc":
			if c.Inp.RCount > 1 { // many declared records: only budget / no-escape are checked (by C09's matrix)
				continue
			}
			d := make([]byte, 16)
			copy(d, "mluc")
			be.PutUint32(d[8:], gamma(c.Inp.RCount))
			be.PutUint32(d[12:], gamma(c.Inp.RSize))
			if c.Inp.Avail >= 28 {
				rec := make([]byte, 12)
				copy(rec, "enUS")
				be.PutUint32(rec[4:], gamma(c.Inp.Len))
				be.PutUint32(rec[8:], gamma(c.Inp.Off))
				d = append(d, rec...)
				d = append(d, bytes.Repeat([]byte{0, 'y'}, (c.Inp.Avail-28+1)/2)[:c.Inp.Avail-28]...)
			} else {
				d = append(d, make([]byte, c.Inp.Avail-16)...)
			}
			prof = gen.BuildICC(nil, []gen.ICCTag{{Sig: "desc", Block: 0}}, []gen.ICCBlock{{Data: d}}, nil, nil)
		}
		got := "ok"
		func() {
			defer func() {
				if r := recover(); r != nil {
					got = "panic_escaped"
				}
			}()
			p, err := icc.NewProfileReader(bytes.NewReader(prof)).ReadProfile()
			if err != nil {
				got = "err"
				return
			}
			if c.Part != "tagtable" {
				if _, derr := p.Description(); derr != nil {
					got = "err"
				}
			}
		}()
		if got == "panic_escaped" {
			escaped++
			if firstEsc == "" {
				firstEsc = sc.Text()
			}
		}
		if got != c.Outcome {
			drift++
			if first == "" {
				first = fmt.Sprintf("real %s, model %s on %s", got, c.Outcome, sc.Text())
			}
		}
	}
	js, _ := json.Marshal(map[string]interface{}{"cases": total, "drift": drift, "escaped_panics": escaped, "first": first, "first_escaped": firstEsc})
	fmt.Println(string(js))
	return sc.Err()
}
