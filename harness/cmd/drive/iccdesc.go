package main

import (
	"bufio"
	"bytes"
	"encoding/json"
	"flag"
	"fmt"
	"math/rand"
	"os"
	"path/filepath"
	"strings"
	"unicode/utf16"

	"github.com/mandykoh/prism/meta/icc"

	"verif/harness/gen"
	"verif/harness/obs"
)

func init() { commands["iccdesc"] = iccdescCmd }

type aRec struct {
	Lang    string `json:"lang"`
	Country string `json:"country"`
	Tid     int    `json:"tid"`
}
type aDesc struct {
	Kind    string `json:"kind"`
	Tid     int    `json:"tid"`
	Recs    []aRec `json:"recs"`
	Place   string `json:"place"`
	RecSize int    `json:"recSize"`
}
type aTag struct {
	Sig   string `json:"sig"`
	Block int    `json:"block"`
}
type aProfile struct {
	Tags    []aTag `json:"tags"`
	NBlocks int    `json:"nblocks"`
	Order   []int  `json:"order"`
	Gaps    []int  `json:"gaps"`
	Desc    aDesc  `json:"desc"`
}
type descCase struct {
	ProfileRaw json.RawMessage `json:"profile"`
	Allowed    [][2]int        `json:"allowed"`
	Impl       [][2]int        `json:"impl"`
}

// textUnits returns the UTF-16 code units of text tid (ASCII rendering for v2).
func textUnits(tid int, ascii bool) []uint16 {
	var s string
	switch tid {
	case 1:
		s = "Alpha"
	case 2:
		s = ""
	case 3:
		s = "βγδ"
		if ascii {
			s = "bgd"
		}
	case 4:
		s = "😀x"
		if ascii {
			s = "s2x"
		}
	case 7:
		s = "Z\u0100\u4e00"
		if ascii {
			s = "ZAi"
		}
	case 6:
		s = "Büro ©"
		if ascii {
			s = "Buro c"
		}
	case 10: // begins with U+FEFF (an ordinary BMP code point in UTF-16BE text, not a byte order mark to be eaten)
		s = "\uFEFFzw"
		if ascii {
			s = "Bzw"
		}
	case 9: // ends in a supplementary-plane character: the last two units are a surrogate pair
		s = "xy😀"
		if ascii {
			s = "xys2"
		}
	case 8: // 600 units with surrogate pairs that START at units 127, 255 and 511 (each straddles a power of two)
		u := make([]uint16, 600)
		for i := range u {
			u[i] = uint16('a' + i%26)
		}
		for _, at := range []int{127, 255, 511} {
			if ascii {
				u[at], u[at+1] = 's', '2'
			} else {
				u[at], u[at+1] = 0xD83D, 0xDE00
			}
		}
		return u
	case 5:
		var u []uint16
		pat := utf16.Encode([]rune("Prism ICC – ж 漢字 😀 "))
		if ascii {
			pat = utf16.Encode([]rune("Prism ICC long description 0123456789 "))
		}
		for len(u) < 2000 {
			u = append(u, pat...)
		}
		u = u[:2000]
		if !ascii && utf16.IsSurrogate(rune(u[1999])) && u[1999] < 0xDC00 {
			u[1999] = 'z' // do not end on a lone high surrogate
		}
		return u
	}
	return utf16.Encode([]rune(s))
}

func unitsToString(u []uint16) string { return string(utf16.Decode(u)) }

var tagSigs = map[string]string{"desc": "desc", "t1": "cprt", "t2": "wtpt", "t3": "dscm"}

func sigFor(name string) string {
	if s, ok := tagSigs[name]; ok {
		return s
	}
	var n int
	fmt.Sscanf(name, "t%d", &n)
	return fmt.Sprintf("T%03d", n)
}

// seededProfiles scales the grammar of IccTags beyond TLC's exhaustive core:
// 0..64 tags, 1..40 records, every placement; the contract still judges them.
func seededProfiles(n int, seed int64) [][]byte {
	rng := rand.New(rand.NewSource(seed))
	langs := []string{"en", "de", "fr", "ja", "zh", "ko", "es", "en"}
	places := []string{"table", "reverse", "shared", "gapped", "overlap"}
	var out [][]byte
	for c := 0; c < n; c++ {
		k := rng.Intn(64) // other tags
		if c%10 == 0 {
			k = 63
		}
		nb := 1 + rng.Intn(k+1)
		tags := []aTag{{"desc", 1}}
		used := map[int]bool{1: true}
		for j := 1; j <= k; j++ {
			b := 1 + rng.Intn(nb)
			tags = append(tags, aTag{fmt.Sprintf("t%d", j), b})
			used[b] = true
		}
		// renumber blocks so that all of 1..nb are used
		remap := map[int]int{}
		next := 1
		for b := 1; b <= nb; b++ {
			if used[b] {
				remap[b] = next
				next++
			}
		}
		for i := range tags {
			tags[i].Block = remap[tags[i].Block]
		}
		nb = next - 1
		rng.Shuffle(len(tags), func(a, b int) { tags[a], tags[b] = tags[b], tags[a] })
		order := rng.Perm(nb)
		for i := range order {
			order[i]++
		}
		gaps := []int{rng.Intn(4), rng.Intn(4), rng.Intn(4), rng.Intn(4)}
		var d aDesc
		if rng.Intn(4) == 0 {
			d = aDesc{Kind: "v2", Tid: 1 + rng.Intn(10), Recs: []aRec{}, Place: "table", RecSize: 12}
		} else {
			nr := 1 + rng.Intn(40)
			d = aDesc{Kind: "mluc", Place: places[rng.Intn(len(places))], RecSize: 12 + 4*rng.Intn(3)}
			for r := 0; r < nr; r++ {
				tid := 1 + rng.Intn(10)
				if tid == 5 && rng.Intn(3) != 0 {
					tid = 1 + rng.Intn(4)
				}
				d.Recs = append(d.Recs, aRec{langs[rng.Intn(len(langs))], fmt.Sprintf("%c%c", 'A'+r%26, 'A'+r/26), tid})
			}
		}
		p := aProfile{Tags: tags, NBlocks: nb, Order: order, Gaps: gaps, Desc: d}
		// candidate identities, used only to NAME what was observed (TLC judges)
		var cands [][2]int
		tl := []int{0, 5, 0, 3, 3, 2000, 6, 3, 600, 4, 3}
		if d.Kind == "v2" {
			cands = append(cands, [2]int{d.Tid, tl[d.Tid]})
		} else {
			for i, r := range d.Recs {
				switch d.Place {
				case "shared":
					cands = append(cands, [2]int{d.Recs[0].Tid, tl[d.Recs[0].Tid]})
				case "overlap":
					m := tl[r.Tid]
					if tl[d.Recs[0].Tid] < m {
						m = tl[d.Recs[0].Tid]
					}
					cands = append(cands, [2]int{d.Recs[0].Tid, m})
				default:
					cands = append(cands, [2]int{r.Tid, tl[r.Tid]})
				}
				_ = i
			}
		}
		pj, _ := json.Marshal(p)
		line, _ := json.Marshal(map[string]interface{}{"profile": json.RawMessage(pj), "allowed": cands, "impl": cands})
		out = append(out, line)
	}
	return out
}

// descBlockShared reports whether data block b (1-based) is the description's block.
func descBlockShared(p aProfile, b int) bool {
	for _, t := range p.Tags {
		if t.Sig == "desc" && t.Block == b {
			return true
		}
	}
	return false
}

// bigBlockSizes: sizes of a large tag (a LUT, say) next to the description - more than 64 KiB of tag
// data, so that whatever buffers the reader grows while taking the tag data in are grown (round 11)
var bigBlockSizes = []int{70000, 131080, 300000, 1<<20 + 7}

func buildProfile(p aProfile, variant int) []byte { return buildProfileBig(p, variant, 0) }

func buildProfileBig(p aProfile, variant int, big int) []byte {
	blocks := make([]gen.ICCBlock, p.NBlocks)
	for b := 0; b < p.NBlocks; b++ {
		blocks[b] = gen.ICCBlock{Data: gen.Payload(20+17*b+variant, uint32(b), false), Gap: p.Gaps[b%len(p.Gaps)]}
	}
	if big > 0 && p.NBlocks > 1 { // block 0 is the description's; where it lies relative to the large one is the layout order's choice
		blocks[p.NBlocks-1].Data = gen.Payload(big, uint32(big), false)
	}
	hasDesc := false
	for _, t := range p.Tags {
		if t.Sig == "desc" {
			hasDesc = true
		}
	}
	hdr := gen.ICCHeader(0)
	if hasDesc {
		if p.Desc.Kind == "v2" {
			hdr[8], hdr[9] = 2, 0x40
			ascii := unitsToString(textUnits(p.Desc.Tid, true))
			if variant%2 == 1 { // with a Unicode form that says something else: the description is the ASCII form
				blocks[0].Data = gen.TextDescFull(ascii, "Unicode form – "+ascii+" (anders)")
			} else {
				blocks[0].Data = gen.TextDesc(ascii)
			}
		} else {
			recs := make([]gen.MlucRec, len(p.Desc.Recs))
			for i, r := range p.Desc.Recs {
				recs[i] = gen.MlucRec{Lang: r.Lang, Country: r.Country, Text: unitsToString(textUnits(r.Tid, false))}
			}
			blocks[0].Data, _ = gen.Mluc(recs, p.Desc.Place, p.Desc.RecSize)
		}
	}
	tags := make([]gen.ICCTag, len(p.Tags))
	for i, t := range p.Tags {
		tags[i] = gen.ICCTag{Sig: sigFor(t.Sig), Block: t.Block - 1}
		// "t3" is Apple's private 'dscm' tag: when it has a data block of its own, that block holds a
		// well-formed multi-localised name that is NOT the description
		if t.Sig == "t3" && t.Block-1 > 0 && !(hasDesc && descBlockShared(p, t.Block)) {
			blocks[t.Block-1].Data, _ = gen.Mluc([]gen.MlucRec{{Lang: "en", Country: "US", Text: "A private localised name"}}, "table", 12)
		}
	}
	order := make([]int, len(p.Order))
	for i, o := range p.Order {
		order[i] = o - 1
	}
	return gen.BuildICC(hdr, tags, blocks, order, nil)
}

// project maps an observed description onto <<tid, units>> (or <<0,0>> none, <<-1,n>> unknown).
func projectDesc(p aProfile, allowed [][2]int, s string, derr error) [2]int {
	if derr != nil {
		return [2]int{0, 0}
	}
	ascii := p.Desc.Kind == "v2"
	match := func(c [2]int) bool {
		if c[0] < 1 || c[0] > 10 {
			return false
		}
		u := textUnits(c[0], ascii)
		if c[1] > len(u) {
			return false
		}
		return unitsToString(u[:c[1]]) == s
	}
	for _, c := range allowed {
		if match(c) {
			return c
		}
	}
	for tid := 1; tid <= 10; tid++ {
		u := textUnits(tid, ascii)
		if match([2]int{tid, len(u)}) {
			return [2]int{tid, len(u)}
		}
	}
	return [2]int{-1, len(s)}
}

func iccdescCmd(args []string) error {
	fs := flag.NewFlagSet("iccdesc", flag.ExitOnError)
	in := fs.String("cases", "", "")
	outDir := fs.String("out", "", "")
	seeded := fs.Int("seeded", 0, "extra seeded profiles beyond the TLC-generated ones")
	seed := fs.Int64("seed", 1, "")
	fs.Parse(args)
	f, err := os.Open(*in)
	if err != nil {
		return err
	}
	defer f.Close()
	sc := bufio.NewScanner(f)
	sc.Buffer(make([]byte, 1<<20), 1<<26)
	var lines [][]byte
	for sc.Scan() {
		lines = append(lines, append([]byte{}, sc.Bytes()...))
	}
	lines = append(lines, seededProfiles(*seeded, *seed)...)
	sink, done, err := newSink(filepath.Join(*outDir, "c17.ndjson"))
	if err != nil {
		return err
	}
	defer done()
	var firstErr error
	parallel(len(lines), func(i int) {
		var c descCase
		var p aProfile
		if err := json.Unmarshal(lines[i], &c); err != nil {
			firstErr = err
			return
		}
		if err := json.Unmarshal(c.ProfileRaw, &p); err != nil {
			firstErr = err
			return
		}
		big := 0
		if i%5 == 2 {
			big = bigBlockSizes[(i/5)%len(bigBlockSizes)]
		}
		prof := buildProfileBig(p, i%3, big)
		emit := func(via string, pr *icc.Profile, rerr error) {
			ev := map[string]interface{}{"id": i + 1, "via": via, "profile": c.ProfileRaw, "read_ok": rerr == nil, "len": len(prof)}
			if rerr != nil {
				ev["desc"] = [2]int{-2, 0}
				ev["err"] = rerr.Error()
			} else {
				var s string
				var derr error
				func() {
					defer func() {
						if r := recover(); r != nil {
							derr = fmt.Errorf("PANIC: %v", r)
							ev["panic"] = fmt.Sprint(r)
						}
					}()
					s, derr = pr.Description()
					if strings.HasSuffix(via, ":again") {
						// asking again: the call does not use the profile up (which of several admissible
						// records is returned may differ from call to call; the contract judges this one)
						s, derr = pr.Description()
					}
				}()
				d := projectDesc(p, c.Allowed, s, derr)
				if _, isPanic := ev["panic"]; isPanic {
					d = [2]int{-3, 0}
				}
				ev["desc"] = d
				if d[0] < 0 {
					ev["observed"] = s
				}
			}
			sink.put(ev)
		}
		// directly
		pr, rerr := icc.NewProfileReader(bytes.NewReader(prof)).ReadProfile()
		emit("reader", pr, rerr)
		if i%4 == 1 && rerr == nil {
			emit("reader:again", pr, rerr)
		}
		// ... and through the other ways a caller may present the bytes (small / default bufio over
		// short-reading sources, unbuffered, embedded across a buffer refill)
		if how := i % nPresent; how != 0 {
			rd, name := present(prof, how)
			pr2, rerr2 := icc.NewProfileReader(rd).ReadProfile()
			emit("reader:"+name, pr2, rerr2)
		}
		// through a container and meta.Data.ICCProfile()
		var data []byte
		var loader string
		switch i % 3 {
		case 0:
			loader = "png"
			data, _ = gen.BuildPNG([]gen.PNGChunk{gen.IHDR(3, 4, 8, 2, 0), gen.ICCP("p", 0, gen.Deflate(prof, 6)), gen.Chunk("IDAT", []byte{1}), gen.Chunk("IEND", nil)})
		case 1:
			loader = "jpeg"
			segs := []gen.JSeg{gen.SOI()}
			nparts := 1 + i%3
			if need := (len(prof) + 59999) / 60000; need > nparts {
				nparts = need
			}
			parts := gen.SplitICC(prof, nparts)
			for k, part := range parts {
				segs = append(segs, gen.ICCSeg(byte(k+1), byte(len(parts)), part))
			}
			segs = append(segs, gen.SOF(0xC0, 8, 4, 3, gen.StdComps(3, 0x11)), gen.SOS(3, []byte{1, 2}), gen.EOI())
			data, _ = gen.BuildJPEG(segs)
		case 2:
			loader = "webp"
			data, _ = gen.BuildWebP([]gen.WChunk{gen.VP8X(gen.VP8XICC, 3, 4), gen.WC("ICCP", prof), gen.VP8(3, 4, 0, 0, gen.VP8Body(16))}, -1)
		}
		if i%2 == 0 {
			loader = "auto"
		}
		o := obs.Run(loader, obs.NewSource(data, -1, nil, obs.Full), false, false)
		if o.MD() == nil {
			emit("container:"+loader, nil, fmt.Errorf("container load failed: %s %s", o.Err, o.Panic))
			return
		}
		pr2, rerr2 := o.MD().ICCProfile()
		if pr2 == nil && rerr2 == nil {
			rerr2 = fmt.Errorf("no profile in metadata")
		}
		emit("container:"+loader, pr2, rerr2)
	})
	if firstErr != nil {
		return firstErr
	}
	fmt.Printf("{\"cases\":%d,\"events\":%d}\n", len(lines), sink.n)
	return nil
}
