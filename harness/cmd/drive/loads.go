package main

import (
	"bufio"
	"bytes"
	"encoding/binary"
	"encoding/json"
	"flag"
	"fmt"
	"io"
	"math/rand"
	"os"
	"path/filepath"
	"runtime"
	"sort"
	"strings"
	"sync"
	"sync/atomic"

	"github.com/mandykoh/prism/meta/icc"

	"verif/harness/concrete"
	"verif/harness/gen"
	"verif/harness/obs"
)

func init() { commands["loads"] = loadsCmd }

// item is one corpus input.
type item struct {
	Name   string
	Fmt    string // png|jpeg|webp|junk
	Data   []byte
	Tail   int
	L      gen.Layout
	HasICC bool
	Well   bool // well-formed with known layout (C18)
	Light  bool // hostile variant: exercised at full length and a few cuts only
	TailFF bool // the virtual tail is a run of 0xFF fill bytes
}

func readCases(path string) ([]concrete.Case, error) {
	f, err := os.Open(path)
	if err != nil {
		return nil, err
	}
	defer f.Close()
	sc := bufio.NewScanner(f)
	sc.Buffer(make([]byte, 1<<20), 1<<26)
	var out []concrete.Case
	for sc.Scan() {
		c, err := concrete.ParseCase(sc.Bytes())
		if err != nil {
			return nil, err
		}
		out = append(out, c)
	}
	return out, sc.Err()
}

func wellFormed(c concrete.Case) bool {
	// exactly one allowed outcome, successful, and ICC either absent or data
	if len(c.Allowed) != 1 || !c.Allowed[0].OK {
		return false
	}
	s := string(c.Allowed[0].ICC)
	return !strings.Contains(s, "err")
}

// bigTail turns a concretised well-formed file into "header + huge pixel body":
// the body is virtual (obs.Source.Tail) so 64 MiB files cost nothing.
func bigTail(c concrete.Case, b concrete.Built, tail int) (data []byte, l gen.Layout, ok bool) {
	l = b.Layout
	switch c.Fmt {
	case "png":
		last := c.File[len(c.File)-1].T
		if last != "IEND" && last != "IDAT" {
			return nil, l, false
		}
		hasIDAT := false
		for _, ch := range c.File {
			if ch.T == "IDAT" {
				hasIDAT = true
			}
		}
		if !hasIDAT {
			return nil, l, false
		}
		data = append([]byte{}, b.Data[:l.PixStart]...)
		binary.BigEndian.PutUint32(data[l.PixStart-8:], uint32(tail))
	case "jpeg":
		data = append([]byte{}, b.Data[:l.PixStart]...)
	case "webp":
		if c.File[0].T == "VP8X" && tail%3 != 0 {
			// the payload is image data of the extended format ahead of (instead of) the VP8
			// bitstream: an alpha plane, or the frames of an animation
			cut := 12
			for cut+8 <= len(b.Data) && string(b.Data[cut:cut+3]) != "VP8" || cut == 12 {
				cut += 8 + int(binary.LittleEndian.Uint32(b.Data[cut+4:])+1)&^1
			}
			data = append([]byte{}, b.Data[:cut]...)
			var hdr [8]byte
			if tail%3 == 1 {
				copy(hdr[:], "ALPH")
				data[20] |= 0x10
			} else {
				data[20] |= 0x02
				data = append(data, 'A', 'N', 'I', 'M', 6, 0, 0, 0, 0, 0, 0, 0, 0, 0)
				copy(hdr[:], "ANMF")
			}
			binary.LittleEndian.PutUint32(hdr[4:], uint32(tail))
			data = append(data, hdr[:]...)
		} else if c.File[0].T == "VP8X" {
			data = append([]byte{}, b.Data...)
			var hdr [8]byte
			copy(hdr[:], "EXIF")
			binary.LittleEndian.PutUint32(hdr[4:], uint32(tail))
			data = append(data, hdr[:]...)
		} else {
			data = append([]byte{}, b.Data[:l.PixStart]...)
			hl := 10
			if c.File[0].T == "VP8L" {
				hl = 5
			}
			binary.LittleEndian.PutUint32(data[16:], uint32(hl+tail))
		}
		binary.LittleEndian.PutUint32(data[4:], uint32(len(data)+tail-8))
	}
	l.Total = len(data) + tail
	return data, l, true
}

func buildCorpus(caseFiles []string, repo string, tier string, rng *rand.Rand) ([]item, error) {
	var items []item
	// the repository's own test images
	paths, _ := filepath.Glob(filepath.Join(repo, "test-images", "*"))
	sort.Strings(paths)
	for _, p := range paths {
		d, err := os.ReadFile(p)
		if err != nil {
			return nil, err
		}
		f := "jpeg"
		if strings.HasSuffix(p, ".png") {
			f = "png"
		} else if strings.HasSuffix(p, ".webp") {
			f = "webp"
		}
		items = append(items, item{Name: "repo:" + filepath.Base(p), Fmt: f, Data: d})
	}
	per := 24
	if tier == "thorough" {
		per = 160
	}
	for _, cf := range caseFiles {
		cases, err := readCases(cf)
		if err != nil {
			return nil, err
		}
		idx := rng.Perm(len(cases))
		if len(idx) > per {
			idx = idx[:per]
		}
		sort.Ints(idx)
		for _, i := range idx {
			c := cases[i]
			v := rng.Intn(3)
			b := concrete.Build(c, v)
			if len(b.Data) > 400_000 {
				b = concrete.Build(c, 0)
				if len(b.Data) > 400_000 && rng.Intn(4) != 0 {
					continue // keep a few multi-MiB files only
				}
			}
			it := item{Name: fmt.Sprintf("%s#%d.%d", c.Fmt, i+1, v), Fmt: c.Fmt, Data: b.Data, L: b.Layout, HasICC: b.HasICC, Well: wellFormed(c)}
			items = append(items, it)
			if it.Well {
				tails := []int{1 << 20, 64 << 20, 1<<20 + 1, 64<<20 - 1, 1<<20 + 2}
				if d, l, ok := bigTail(c, b, tails[len(items)%5]); ok {
					items = append(items, item{Name: it.Name + "+big", Fmt: c.Fmt, Data: d, Tail: tails[len(items)%5], L: l, HasICC: b.HasICC, Well: true})
				}
			}
		}
	}
	// well-formed files the sampled grammar cases may not contain: the longest legal iCCP name,
	// more than a MiB of ancillary data ahead of the image data in each format
	for k, spec := range []struct{ fmt, file string }{
		{"png", `[{"t":"IHDR","w":9,"h":8,"d":8,"ct":2,"il":0},{"t":"iCCP","name":79,"method":0,"z":"ok6","pid":3,"cross":false},{"t":"IDAT"},{"t":"IEND"}]`},
		{"png", `[{"t":"IHDR","w":9,"h":8,"d":8,"ct":2,"il":0},{"t":"iCCP","name":1,"method":0,"z":"ok6","pid":3,"cross":false},{"t":"anc","size":"pad:1600000"},{"t":"IDAT"},{"t":"IEND"}]`},
		{"png", `[{"t":"IHDR","w":9,"h":8,"d":8,"ct":2,"il":0},{"t":"anc","size":"pad:1100000"},{"t":"anc","size":"pad:300000"},{"t":"IDAT"},{"t":"IEND"}]`},
		{"webp", `[{"t":"VP8X","iccf":true,"alpha":false,"exif":false,"xmp":false,"w":700,"h":3},{"t":"ICCP","pid":8,"cross":true},{"t":"VP8","w":5,"h":6,"ws":0,"hs":0}]`},
		// empty ancillary chunks (length 0: only the CRC follows the header) before the image data
		{"png", `[{"t":"IHDR","w":9,"h":8,"d":8,"ct":2,"il":0},{"t":"anc","size":"pad:0"},{"t":"iCCP","name":2,"method":0,"z":"ok6","pid":2,"cross":false},{"t":"anc","size":"pad:0"},{"t":"IDAT"},{"t":"IEND"}]`},
		{"png", `[{"t":"IHDR","w":9,"h":8,"d":8,"ct":2,"il":0},{"t":"anc","size":"pad:0"},{"t":"IDAT"},{"t":"IEND"}]`},
		// a profile whose compressed form exceeds 64 KiB, followed by more than 64 KiB of ancillary data
		{"png", `[{"t":"IHDR","w":9,"h":8,"d":8,"ct":2,"il":0},{"t":"iCCP","name":2,"method":0,"z":"ok6","pid":6,"cross":true},{"t":"anc","size":"pad:100000"},{"t":"anc","size":"pad:100000"},{"t":"IDAT"},{"t":"IEND"}]`},
		// the frame header first, then the profile's chunks in reverse order
		{"jpeg", `[{"t":"SOF","kind":0,"p":8,"h":33,"w":44,"nc":3},{"t":"ICC","seq":2,"total":2,"pid":1},{"t":"ICC","seq":1,"total":2,"pid":3},{"t":"OTHER","kind":"com"},{"t":"SOS"}]`},
		{"jpeg", `[{"t":"SOF","kind":2,"p":8,"h":33,"w":44,"nc":1},{"t":"ICC","seq":3,"total":3,"pid":1},{"t":"ICC","seq":1,"total":3,"pid":2},{"t":"ICC","seq":2,"total":3,"pid":1},{"t":"SOS"}]`},
	} {
		c := concrete.Case{Fmt: spec.fmt, File: mustFile(spec.file)}
		b := concrete.Build(c, 0)
		it := item{Name: fmt.Sprintf("%s:extra%d", spec.fmt, k), Fmt: spec.fmt, Data: b.Data, L: b.Layout, HasICC: b.HasICC, Well: true}
		items = append(items, it)
		if d, l, ok := bigTail(c, b, 1<<20); ok {
			items = append(items, item{Name: it.Name + "+big", Fmt: spec.fmt, Data: d, Tail: 1 << 20, L: l, HasICC: b.HasICC, Well: true})
		}
	}
	{ // JPEG: 20 full-size COM segments (1.3 MiB) ahead of the frame header
		segs := []gen.JSeg{gen.SOI(), gen.JFIF()}
		for q := 0; q < 20; q++ {
			segs = append(segs, gen.COM(gen.Payload(65533, uint32(q), true)))
		}
		segs = append(segs, gen.DQT(0), gen.SOF(0xC0, 8, 21, 34, gen.StdComps(3, 0x22)), gen.DHT(0, 0), gen.SOS(3, gen.EntropyBytes(120, 5)), gen.EOI())
		d, l := gen.BuildJPEG(segs)
		items = append(items, item{Name: "jpeg:extra-com", Fmt: "jpeg", Data: d, L: l, Well: true})
	}
	{ // JPEG: a frame header that declares zero lines (T.81 B.2.5: the number of lines is then given by a DNL
		// segment after the first scan) - nothing in that says the scan must be searched for it (round 11)
		for k, sofm := range []byte{0xC0, 0xC2} {
			d, l := gen.BuildJPEG([]gen.JSeg{gen.SOI(), gen.JFIF(), gen.DQT(0), gen.SOF(sofm, 8, 0, 34, gen.StdComps(3, 0x22)), gen.DHT(0, 0),
				gen.SOS(3, gen.EntropyBytes(120, 5)), gen.Seg(0xDC, []byte{0, 21}), gen.EOI()})
			items = append(items, item{Name: fmt.Sprintf("jpeg:extra-dnl%d", k), Fmt: "jpeg", Data: d, L: l, Well: true})
			if dd, ll, ok := bigTail(concrete.Case{Fmt: "jpeg"}, concrete.Built{Data: d, Layout: l}, 1<<20); ok {
				items = append(items, item{Name: fmt.Sprintf("jpeg:extra-dnl%d+big", k), Fmt: "jpeg", Data: dd, Tail: 1 << 20, L: ll, Well: true})
			}
		}
	}
	{ // JPEG: a profile in 70 and in 200 chunks (more chunks than bits in a machine word), the frame
		// header ahead of them, then 190 KiB of comments before the scan
		for _, nch := range []int{64, 65, 70, 127, 128, 129, 200, 254, 255} {
			prof := gen.SimpleProfile(nch*40+17, "many chunks", true, uint32(nch))
			segs := []gen.JSeg{gen.SOI(), gen.JFIF(), gen.SOF(0xC0, 8, 21, 34, gen.StdComps(3, 0x22))}
			for q, part := range gen.SplitICC(prof, nch) {
				segs = append(segs, gen.ICCSeg(byte(q+1), byte(nch), part))
			}
			for q := 0; q < 3; q++ {
				segs = append(segs, gen.COM(gen.Payload(65533, uint32(q), true)))
			}
			segs = append(segs, gen.DQT(0), gen.DHT(0, 0), gen.SOS(3, gen.EntropyBytes(120, 5)), gen.EOI())
			d, l := gen.BuildJPEG(segs)
			items = append(items, item{Name: fmt.Sprintf("jpeg:extra-icc%d", nch), Fmt: "jpeg", Data: d, L: l, HasICC: true, Well: true})
		}
	}
	// JPEG: one comment sized so that the end of what is needed (the scan header) lands on each of the 64
	// offsets just past 64 KiB: a reader whose buffer is a little larger than 64 KiB then fills it twice
	comFile := func(n int) ([]byte, gen.Layout) {
		return gen.BuildJPEG([]gen.JSeg{gen.SOI(), gen.JFIF(), gen.SOF(0xC0, 8, 21, 34, gen.StdComps(3, 0x22)), gen.COM(gen.Payload(n, uint32(n), true)),
			gen.DQT(0), gen.DHT(0, 0), gen.SOS(3, gen.EntropyBytes(120, 5)), gen.EOI()})
	}
	_, l0 := comFile(65000)
	for target := 65537; target <= 65600; target++ { // where the scan header ends: just past 64 KiB
		n := 65000 + target - l0.PixStart
		d, l := comFile(n)
		c := concrete.Case{Fmt: "jpeg"}
		if dd, ll, ok := bigTail(c, concrete.Built{Data: d, Layout: l}, 1<<20); ok {
			items = append(items, item{Name: fmt.Sprintf("jpeg:extra-com%d+big", n), Fmt: "jpeg", Data: dd, Tail: 1 << 20, L: ll, Well: true})
		}
	}
	{ // JPEG: APP2 segments that are not ICC chunks (MPF index, FlashPix) ahead of, between and after the chunks
		prof := gen.SimpleProfile(3000, "app2 neighbours", true, 77)
		parts := gen.SplitICC(prof, 3)
		mpf := gen.APP(2, append([]byte("MPF\x00MM\x00*\x00\x00\x00\x08"), gen.Payload(60, 5, true)...))
		fpx := gen.APP(2, append([]byte("FPXR\x00\x00\x01"), gen.Payload(200, 6, true)...))
		sof := gen.SOF(0xC0, 8, 21, 34, gen.StdComps(3, 0x22))
		icc := func(k int) gen.JSeg { return gen.ICCSeg(byte(k), 3, parts[k-1]) }
		for k, segs := range [][]gen.JSeg{
			{sof, mpf, icc(1), icc(2), icc(3)},
			{mpf, sof, icc(1), fpx, icc(2), icc(3)},
			{fpx, mpf, icc(1), icc(2), icc(3), sof},
			{icc(1), icc(2), icc(3), mpf, sof},
		} {
			all := append([]gen.JSeg{gen.SOI(), gen.JFIF()}, segs...)
			for q := 0; q < 3; q++ {
				all = append(all, gen.COM(gen.Payload(65533, uint32(q), true)))
			}
			all = append(all, gen.DQT(0), gen.DHT(0, 0), gen.SOS(3, gen.EntropyBytes(120, 5)), gen.EOI())
			d, l := gen.BuildJPEG(all)
			items = append(items, item{Name: fmt.Sprintf("jpeg:extra-app2-%d", k), Fmt: "jpeg", Data: d, L: l, HasICC: true, Well: true})
		}
	}
	// PNG: ancillary chunks whose length is at, just below and just above a multiple of 4096,
	// ahead of a MiB of image data
	for _, n := range []int{4095, 4096, 4097, 8192, 12288, 65536} {
		c := concrete.Case{Fmt: "png", File: mustFile(fmt.Sprintf(`[{"t":"IHDR","w":9,"h":8,"d":8,"ct":2,"il":0},{"t":"anc","size":"pad:%d"},{"t":"IDAT"},{"t":"IEND"}]`, n))}
		b := concrete.Build(c, 0)
		items = append(items, item{Name: fmt.Sprintf("png:extra-anc%d", n), Fmt: "png", Data: b.Data, L: b.Layout, HasICC: b.HasICC, Well: true})
		if d, l, ok := bigTail(c, b, 1<<20); ok {
			items = append(items, item{Name: fmt.Sprintf("png:extra-anc%d+big", n), Fmt: "png", Data: d, Tail: 1 << 20, L: l, HasICC: b.HasICC, Well: true})
		}
	}
	// PNG: the 8-byte header of the iCCP chunk (and of the IDAT chunk after it) lying across the offsets
	// 4096, 8192 and 16384: a reader that works on a head of the file meets the end of its head there
	for _, bnd := range []int{4096, 8192, 16384} {
		for _, k := range []int{0, 2, 4, 7} {
			c := concrete.Case{Fmt: "png", File: mustFile(fmt.Sprintf(`[{"t":"IHDR","w":9,"h":8,"d":8,"ct":2,"il":0},{"t":"anc","size":"pad:%d"},{"t":"iCCP","name":4,"method":0,"z":"ok6","pid":2,"cross":false},{"t":"IDAT"},{"t":"IEND"}]`, bnd-45-k))}
			b := concrete.Build(c, 0)
			items = append(items, item{Name: fmt.Sprintf("png:extra-iccp-header-%d-before-%d", k, bnd), Fmt: "png", Data: b.Data, L: b.Layout, HasICC: b.HasICC, Well: true})
		}
	}
	{ // inputs whose last structure has no payload at all, at the very end of the stream
		sof := gen.SOF(0xC0, 8, 21, 34, gen.StdComps(3, 0x22))
		a, _ := gen.BuildJPEG([]gen.JSeg{gen.SOI(), gen.JFIF(), sof, gen.COM(nil)})
		b, _ := gen.BuildJPEG([]gen.JSeg{gen.SOI(), sof, gen.APP(2, nil)})
		c, _ := gen.BuildJPEG([]gen.JSeg{gen.SOI(), gen.COM(nil), sof, gen.EOI()})
		d, _ := gen.BuildPNG([]gen.PNGChunk{gen.IHDR(5, 6, 8, 2, 0), gen.Chunk("tEXt", nil)})
		e, _ := gen.BuildWebP([]gen.WChunk{gen.VP8X(0, 55, 66), gen.WC("EXIF", nil)}, -1)
		for k, dta := range [][]byte{a, b, c, d, e} {
			items = append(items, item{Name: fmt.Sprintf("junk:ends-with-empty-structure%d", k), Fmt: "junk", Data: dta})
		}
	}
	// junk, polyglots, degenerate inputs
	sig := gen.PNGSig
	junk := map[string][]byte{
		"empty":         {},
		"one":           {0x89},
		"rand16":        gen.Payload(16, 1, false),
		"rand9000":      gen.Payload(9000, 2, false),
		"pngsig":        sig,
		"pngsig+junk":   append(append([]byte{}, sig...), gen.Payload(6000, 3, false)...),
		"pngsig+zeros":  append(append([]byte{}, sig...), make([]byte, 5000)...),
		"soi":           {0xFF, 0xD8},
		"soi+junk":      append([]byte{0xFF, 0xD8}, gen.Payload(5000, 4, false)...),
		"riff":          []byte("RIFF\x10\x00\x00\x00WEBP"),
		"riff+junk":     append([]byte("RIFF\x10\x00\x00\x00WEBPJUNK"), gen.Payload(5000, 5, false)...),
		"riff-not-webp": append([]byte("RIFF\x10\x00\x00\x00WAVEfmt "), gen.Payload(50, 6, false)...),
	}
	// JPEG without a start-of-frame but with a long run of segments before SOS
	jnosof, _ := gen.BuildJPEG([]gen.JSeg{gen.SOI(), gen.APP(1, gen.Payload(6000, 7, true)), gen.DQT(0), gen.SOS(3, gen.EntropyBytes(100, 1)), gen.EOI()})
	junk["jpeg-no-sof"] = jnosof
	// polyglots: one format's signature, another format's body
	pngBody, _ := gen.BuildPNG([]gen.PNGChunk{gen.IHDR(5, 6, 8, 2, 0), gen.Chunk("IDAT", gen.Payload(40, 1, false)), gen.Chunk("IEND", nil)})
	jpegBody, _ := gen.BuildJPEG([]gen.JSeg{gen.SOI(), gen.JFIF(), gen.DQT(0), gen.SOF(0xC0, 8, 7, 9, gen.StdComps(3, 0x22)), gen.DHT(0, 0), gen.SOS(3, gen.EntropyBytes(50, 2)), gen.EOI()})
	webpBody, _ := gen.BuildWebP([]gen.WChunk{gen.VP8L(11, 13, false, gen.Payload(20, 3, false))}, -1)
	junk["png-sig+jpeg"] = append(append([]byte{}, sig...), jpegBody...)
	junk["soi+riff"] = append([]byte{0xFF, 0xD8}, webpBody...)
	junk["riffwebp+pngchunks"] = append([]byte("RIFF\x00\x10\x00\x00WEBP"), pngBody[8:]...)
	junk["jpeg-then-png"] = append(append([]byte{}, jpegBody...), pngBody...)
	junk["png-damaged-ihdr-type"] = func() []byte { d := append([]byte{}, pngBody...); d[13] = 'X'; return d }()
	// an iCCP chunk whose compressed stream is nothing but zero bytes (not a zlib stream at all), with further
	// chunks behind it: zeros parse as empty chunks of type 00000000, so a parser that loses its place inside
	// such a payload finds its way back or not depending on where it stood (round 12)
	for _, n := range []int{2, 10, 22, 34, 4086, 4096, 4106, 4810, 8200, 12*1000 + 10, 12*1000 + 11, 70000} {
		d, _ := gen.BuildPNG([]gen.PNGChunk{gen.IHDR(7, 5, 8, 2, 0), gen.ICCP("zeros", 0, make([]byte, n)), gen.Chunk("tEXt", gen.Payload(30, 8, true)),
			gen.Chunk("IDAT", gen.Payload(40, 1, false)), gen.Chunk("IEND", nil)})
		junk[fmt.Sprintf("png-iccp-zeros/%d", n)] = d
		e, _ := gen.BuildPNG([]gen.PNGChunk{gen.ICCP("zeros", 0, make([]byte, n)), gen.IHDR(7, 5, 8, 2, 0), gen.Chunk("IDAT", gen.Payload(40, 1, false)), gen.Chunk("IEND", nil)})
		junk[fmt.Sprintf("png-iccp-zeros-first/%d", n)] = e
	}
	// fill bytes ahead of the start-of-image marker itself (T.81 B.1.1.2 lets any number precede any marker,
	// and the JPEG loader takes them): the input does not begin FF D8, so a detector that looks at the
	// first bytes instead of asking the loaders sees no JPEG (round 11)
	{
		jpegICC, _ := gen.BuildJPEG([]gen.JSeg{gen.SOI(), gen.ICCSeg(1, 1, gen.SimpleProfile(600, "after fill", true, 9)), gen.SOF(0xC2, 8, 17, 19, gen.StdComps(3, 0x11)), gen.SOS(3, gen.EntropyBytes(40, 3)), gen.EOI()})
		for _, n := range []int{1, 2, 3, 10, 11, 12, 13, 4094, 4095, 4097} {
			fill := bytes.Repeat([]byte{0xFF}, n)
			junk[fmt.Sprintf("fill%d+jpeg", n)] = append(append([]byte{}, fill...), jpegBody...)
			junk[fmt.Sprintf("fill%d+jpeg-icc", n)] = append(append([]byte{}, fill...), jpegICC...)
		}
	}
	// a degenerate structure after (or before) the valid one that carries the metadata: the
	// parser has extracted something when it trips
	{
		prof := gen.SimpleProfile(700, "degenerate", true, 5)
		sof := gen.SOF(0xC0, 8, 21, 34, gen.StdComps(3, 0x22))
		for n := 0; n <= 6; n++ {
			short := gen.Seg(0xC0, make([]byte, n))
			for _, m := range []byte{0xC0, 0xC2} {
				short.Marker = m
				a, _ := gen.BuildJPEG([]gen.JSeg{gen.SOI(), gen.JFIF(), sof, short, gen.DHT(0, 0), gen.SOS(3, gen.EntropyBytes(60, 5)), gen.EOI()})
				b, _ := gen.BuildJPEG([]gen.JSeg{gen.SOI(), gen.JFIF(), short, sof, gen.DHT(0, 0), gen.SOS(3, gen.EntropyBytes(60, 5)), gen.EOI()})
				c, _ := gen.BuildJPEG([]gen.JSeg{gen.SOI(), gen.ICCSeg(1, 1, prof), sof, short, gen.SOS(3, gen.EntropyBytes(60, 5)), gen.EOI()})
				junk[fmt.Sprintf("degenerate:jpeg-sof-then-sof%x/%d", m, n)] = a
				junk[fmt.Sprintf("degenerate:jpeg-sof%x/%d-then-sof", m, n)] = b
				junk[fmt.Sprintf("degenerate:jpeg-icc-sof-then-sof%x/%d", m, n)] = c
			}
			iccShort := gen.APP(2, append([]byte("ICC_PROFILE\x00"), make([]byte, n%3)...))
			d, _ := gen.BuildJPEG([]gen.JSeg{gen.SOI(), sof, iccShort, gen.SOS(3, gen.EntropyBytes(60, 5)), gen.EOI()})
			junk[fmt.Sprintf("degenerate:jpeg-sof-then-icc-short/%d", n%3)] = d
			ih := gen.Chunk("IHDR", make([]byte, n*2))
			e, _ := gen.BuildPNG([]gen.PNGChunk{gen.IHDR(5, 6, 8, 2, 0), ih, gen.Chunk("IDAT", gen.Payload(40, 1, false)), gen.Chunk("IEND", nil)})
			junk[fmt.Sprintf("degenerate:png-ihdr-then-ihdr/%d", n*2)] = e
			ic := gen.Chunk("iCCP", append([]byte("nameonly")[:n], make([]byte, n%2)...))
			f, _ := gen.BuildPNG([]gen.PNGChunk{gen.IHDR(5, 6, 8, 2, 0), ic, gen.Chunk("IDAT", gen.Payload(40, 1, false)), gen.Chunk("IEND", nil)})
			junk[fmt.Sprintf("degenerate:png-ihdr-then-iccp-short/%d", n)] = f
			g, _ := gen.BuildWebP([]gen.WChunk{gen.VP8X(gen.VP8XICC, 55, 66), gen.WC("ICCP", make([]byte, n)), gen.WC("VP8 ", make([]byte, n))}, -1)
			junk[fmt.Sprintf("degenerate:webp-vp8x-then-short/%d", n)] = g
			h, _ := gen.BuildWebP([]gen.WChunk{gen.VP8X(0, 55, 66), gen.WC("VP8X", make([]byte, n)), gen.WC("VP8 ", make([]byte, n))}, -1)
			junk[fmt.Sprintf("degenerate:webp-vp8x-then-vp8x/%d", n)] = h
		}
	}
	// hostile variants of valid files (the C09 matrix in miniature): declared lengths
	// and counts driven to boundary values, including the ones that make a parser
	// panic internally (recovered) - the replay stream and autometa must not care
	isd := iccSeeds()
	for _, hs := range append(containerSeeds(isd[0].Data), containerSeeds(isd[1].Data)[0]) {
		fnames := make([]string, 0, len(hs.Fields))
		for k := range hs.Fields {
			fnames = append(fnames, k)
		}
		sort.Strings(fnames)
		for _, fn := range fnames {
			for occ, p := range hs.Fields[fn] {
				if n := len(hs.Fields[fn]); n > 6 && occ >= 2 && occ < n-1 {
					continue // a field with hundreds of occurrences: the first two and the last
				}
				v := p.get(hs.Data)
				W := uint64(1) << (8 * p.Width)
				for _, nv := range []uint64{0, 1, 2, 4, 6, v - 1, v + 1, W - 1, W / 2} {
					d := append([]byte{}, hs.Data...)
					p.put(d, nv&(W-1))
					items = append(items, item{Name: fmt.Sprintf("hostile:%s:%s.%d=%d", hs.Name, fn, occ, nv&(W-1)), Fmt: "junk", Data: d, Light: true})
				}
			}
		}
	}
	names := make([]string, 0, len(junk))
	for k := range junk {
		names = append(names, k)
	}
	sort.Strings(names)
	for _, k := range names {
		items = append(items, item{Name: "junk:" + k, Fmt: "junk", Data: junk[k]})
	}
	return items, nil
}

// schedules of C08 (full delivery is the reference and comes first).
func schedules(rng *rand.Rand, total int, tier string) []obs.Sched {
	s := []obs.Sched{obs.Full}
	for _, k := range []int{1, 2, 3, 7, 8, 4095, 4096, 4097} {
		s = append(s, obs.Sched{Name: fmt.Sprintf("fixed%d", k), Sizes: []int{k}, Cyclic: true})
	}
	s = append(s, obs.Sched{Name: "full+eof", WithErr: true})
	s = append(s, obs.Sched{Name: "fixed7+eof", Sizes: []int{7}, Cyclic: true, WithErr: true})
	s = append(s, obs.Sched{Name: "full+idle2", IdleEvery: 2})
	s = append(s, obs.Sched{Name: "idle-first+full", IdleFirst: true})
	s = append(s, obs.Sched{Name: "idle-first+fixed7", Sizes: []int{7}, Cyclic: true, IdleFirst: true})
	s = append(s, obs.Sched{Name: "fixed7+idle3", Sizes: []int{7}, Cyclic: true, IdleEvery: 3})
	s = append(s, obs.Sched{Name: "fixed4097+idle5+eof", Sizes: []int{4097}, Cyclic: true, IdleEvery: 5, WithErr: true})
	nr := 3
	if tier == "thorough" {
		nr = 10
	}
	for i := 0; i < nr; i++ {
		sz := make([]int, 64)
		for j := range sz {
			switch rng.Intn(4) {
			case 0:
				sz[j] = 1 + rng.Intn(4)
			case 1:
				sz[j] = 1 + rng.Intn(64)
			case 2:
				sz[j] = 4000 + rng.Intn(200)
			default:
				sz[j] = 1 + rng.Intn(20000)
			}
		}
		s = append(s, obs.Sched{Name: fmt.Sprintf("rand%d", i), Sizes: sz, Cyclic: true})
	}
	return s
}

type lineSink struct {
	mu sync.Mutex
	w  *bufio.Writer
	n  int64
}

func newSink(path string) (*lineSink, func(), error) {
	f, err := os.Create(path)
	if err != nil {
		return nil, nil, err
	}
	w := bufio.NewWriterSize(f, 1<<20)
	return &lineSink{w: w}, func() { w.Flush(); f.Close() }, nil
}

func (s *lineSink) put(v interface{}) {
	js, _ := json.Marshal(v)
	s.mu.Lock()
	s.w.Write(js)
	s.w.WriteByte('\n')
	s.n++
	s.mu.Unlock()
}

func parallel(n int, fn func(i int)) {
	var wg sync.WaitGroup
	next := int64(-1)
	for g := 0; g < runtime.NumCPU(); g++ {
		wg.Add(1)
		go func() {
			defer wg.Done()
			for {
				i := int(atomic.AddInt64(&next, 1))
				if i >= n {
					return
				}
				fn(i)
			}
		}()
	}
	wg.Wait()
}

func failOf(kind string) error {
	switch kind {
	case "ioerr":
		return obs.ErrInjected
	case "uxeof": // the source's own terminal condition happens to be a sentinel the readers also use
		return io.ErrUnexpectedEOF
	case "closedpipe":
		return io.ErrClosedPipe
	}
	return io.EOF
}

func cutsFor(it item, tier string, rng *rand.Rand) []int {
	total := len(it.Data)
	if it.Light {
		return []int{1, total / 2, total}
	}
	set := map[int]bool{}
	add := func(c int) {
		if c >= 0 && c <= total {
			set[c] = true
		}
	}
	dense, step := 48, 61
	if tier == "thorough" {
		dense, step = 8192, 1
	}
	for c := 0; c <= dense; c++ {
		add(c)
	}
	for c := dense; c <= 8192; c += step {
		add(c)
	}
	for _, b := range []int{4096, 8192, it.L.HeaderEnd, it.L.ICCEnd, it.L.PixStart, total, 65536} {
		for d := -1; d <= 1; d++ {
			add(b + d)
		}
	}
	for i := 0; i < 6; i++ {
		if total > 0 {
			add(rng.Intn(total + 1))
		}
	}
	out := make([]int, 0, len(set))
	for c := range set {
		out = append(out, c)
	}
	sort.Ints(out)
	return out
}

// loadOSFile writes data (+ a sparse tail) to a file and loads from the *os.File itself.
func loadOSFile(dir, loader string, data []byte, tail int) (pulled int, o obs.Obs, err error) {
	f, err := os.CreateTemp(dir, "c18-*.img")
	if err != nil {
		return 0, o, err
	}
	defer os.Remove(f.Name())
	defer f.Close()
	if _, err = f.Write(data); err != nil {
		return 0, o, err
	}
	if tail > 0 {
		if err = f.Truncate(int64(len(data) + tail)); err != nil {
			return 0, o, err
		}
	}
	if _, err = f.Seek(0, io.SeekStart); err != nil {
		return 0, o, err
	}
	o = obs.RunReader(loader, f)
	off, err := f.Seek(0, io.SeekCurrent)
	return int(off), o, err
}

// hugeJunk: inputs on which a loader legitimately consumes tens of MiB before giving up (a PNG
// signature and one chunk declaring 40 MiB, the bytes supplied by the source's virtual tail)
func hugeJunk() []item {
	hdr := append(append([]byte{}, gen.PNGSig...), 0x02, 0x80, 0x00, 0x00, 't', 'E', 'X', 't') // length 0x02800000 = 40 MiB
	return []item{{Name: "junk:pngsig+40MiB-chunk", Fmt: "junk", Data: hdr, Tail: 40<<20 + 16},
		// a start-of-image followed by 40 MiB of fill bytes (any number may precede a marker)
		{Name: "junk:soi+40MiB-of-fill-bytes", Fmt: "junk", Data: []byte{0xFF, 0xD8}, Tail: 40 << 20, TailFF: true}}
}

// iccOutcome runs the ICC profile reader behind an arbitrary buffered reader.
// bufSize > 0: bufio of that size; 0: default bufio; -1: the instrumented source itself in its
// rich presentation (Seek, ReadAt, WriteTo, ... like *os.File); -2: a *bytes.Reader (what
// meta.Data.ICCProfile uses); -3: a *bytes.Buffer.
func iccOutcome(data []byte, s obs.Sched, bufSize int) string {
	src := obs.NewSource(data, -1, nil, s)
	var r interface {
		io.Reader
		io.ByteReader
	}
	switch {
	case bufSize > 0:
		r = bufio.NewReaderSize(src, bufSize)
	case bufSize == 0:
		r = bufio.NewReader(src)
	case bufSize == -1:
		r = src.WithShape("rich0").Reader().(obs.RichSource)
	case bufSize == -2:
		r = bytes.NewReader(data)
	default:
		r = bytes.NewBuffer(append([]byte{}, data...))
	}
	p, err := icc.NewProfileReader(r).ReadProfile()
	if err != nil {
		return "error"
	}
	d, derr := func() (s string, e error) {
		defer func() {
			if r := recover(); r != nil {
				e = fmt.Errorf("panic")
			}
		}()
		return p.Description()
	}()
	if derr != nil {
		return fmt.Sprintf("ok/%v/desc-error", p.Header.ProfileSize)
	}
	return fmt.Sprintf("ok/%v/%s/%x", p.Header.ProfileSize, obs.HashBytes([]byte(d)), p.Header.ProfileID)
}

func loadsCmd(args []string) error {
	fs := flag.NewFlagSet("loads", flag.ExitOnError)
	casesArg := fs.String("cases", "", "comma-separated TLC case files (Containers)")
	outDir := fs.String("out", "", "directory for c07/c08/c18/c19 ndjson traces")
	tier := fs.String("tier", "quick", "")
	seed := fs.Int64("seed", 1, "")
	repo := fs.String("repo", "/repo", "")
	which := fs.String("props", "c07,c08,c18,c19", "")
	usagePath := fs.String("usage", "", "usage combinations printed by TLC (spec/Usage.tla): the whole product is run for C07")
	fs.Parse(args)
	rng := rand.New(rand.NewSource(*seed))
	items, err := buildCorpus(strings.Split(*casesArg, ","), *repo, *tier, rng)
	if err != nil {
		return err
	}
	want := map[string]bool{}
	for _, p := range strings.Split(*which, ",") {
		want[p] = true
	}
	stats := map[string]int64{"items": int64(len(items))}

	// ---------------- C07: replay after any cut / fault / schedule ----------------
	if want["c07"] {
		sink, done, err := newSink(filepath.Join(*outDir, "c07.ndjson"))
		if err != nil {
			return err
		}
		type job struct {
			it     item
			cut    int
			fault  string
			s      obs.Sched
			loader string
			shape  string
		}
		var jobs []job
		// how the source presents itself: a bare io.Reader, or the way *bytes.Reader / *os.File
		// do (Seek, ReadAt, WriteTo, ...), at offset 0 or embedded after foreign bytes
		shapes := []string{"plain", "rich0", "rich5"}
		scheds := []obs.Sched{obs.Full, {Name: "fixed1", Sizes: []int{1}, Cyclic: true}, {Name: "fixed7", Sizes: []int{7}, Cyclic: true},
			{Name: "full+err", WithErr: true}, {Name: "fixed4097", Sizes: []int{4097}, Cyclic: true}}
		for _, it := range items {
			if it.Tail > 0 {
				continue
			}
			for ci, cut := range cutsFor(it, *tier, rng) {
				for fi, fault := range []string{"eof", "ioerr", "uxeof", "closedpipe"} {
					if fi >= 2 && (ci+fi)%3 != 0 { // the sentinel faults at every third cut
						continue
					}
					loaders := []string{it.Fmt, "auto"}
					if it.Fmt == "junk" {
						loaders = obs.LoaderNames
					}
					// every loader sees every cut of a small prefix; beyond that rotate
					for li, loader := range loaders {
						s := scheds[(ci+fi+li)%len(scheds)]
						if *tier == "thorough" || cut <= 48 || (ci+li)%2 == 0 {
							jobs = append(jobs, job{it, cut, fault, s, loader, shapes[(ci/len(scheds)+fi+2*li)%len(shapes)]})
						}
					}
				}
			}
		}
		parallel(len(jobs), func(i int) {
			j := jobs[i]
			src := obs.NewSource(j.it.Data, j.cut, failOf(j.fault), j.s).WithShape(j.shape)
			// the caller reads the returned stream in pieces of its own choosing
			src.DrainBuf = []int{0, 1, 7, 512, 4096, 4097}[i%6]
			src.DrainCopyAfter = []int{-1, -1, 0, 12, -1, 5000, 1}[i%7] // ... or reads some and io.Copy's the rest
			o := obs.Run(j.loader, src, true, false)
			sink.put(map[string]interface{}{
				"item": j.it.Name, "loader": j.loader, "n": len(j.it.Data), "cut": j.cut, "fault": j.fault,
				"sched": j.s.Name, "shape": j.shape, "drain_buf": src.DrainBuf, "drain_copy_after": src.DrainCopyAfter, "ok": o.OK, "panic": o.Panic != "", "stream_nil": o.StreamNil,
				"pulled": o.Pulled, "replay_len": o.ReplayLen, "prefix": o.Prefix, "final": o.FinalErr,
			})
		})
		// the whole product of spec/Usage.tla (presentation x delivery x fault x drain) on a few
		// files of every kind, at the cuts 0, middle and none
		if *usagePath != "" {
			raw, err := os.ReadFile(*usagePath)
			if err != nil {
				return err
			}
			type usage struct{ P, D, F, Dr string }
			var us []usage
			for _, l := range strings.Split(strings.TrimSpace(string(raw)), "\n") {
				var u struct {
					P  string `json:"p"`
					D  string `json:"d"`
					F  string `json:"f"`
					Dr string `json:"dr"`
				}
				if err := json.Unmarshal([]byte(l), &u); err != nil {
					return err
				}
				us = append(us, usage{u.P, u.D, u.F, u.Dr})
			}
			perFmt := map[string]int{}
			var pick []item
			for _, it := range items {
				if it.Tail == 0 && len(it.Data) > 40 && len(it.Data) < 20000 && perFmt[it.Fmt] < 2 {
					perFmt[it.Fmt]++
					pick = append(pick, it)
				}
			}
			type ujob struct {
				it     item
				cut    int
				loader string
				u      usage
			}
			var ujobs []ujob
			for _, it := range pick {
				loaders := []string{it.Fmt, "auto"}
				if it.Fmt == "junk" {
					loaders = []string{"png", "auto"}
				}
				for _, cut := range []int{0, len(it.Data) / 2, len(it.Data)} {
					for _, l := range loaders {
						for _, u := range us {
							ujobs = append(ujobs, ujob{it, cut, l, u})
						}
					}
				}
			}
			parallel(len(ujobs), func(i int) {
				j := ujobs[i]
				var k int
				fmt.Sscanf(j.u.D, "fixed%d", &k)
				sc := obs.Sched{Name: j.u.D, WithErr: strings.HasSuffix(j.u.F, "-with-data")}
				if k > 0 {
					sc.Sizes, sc.Cyclic = []int{k}, true
				}
				fault := strings.TrimSuffix(j.u.F, "-with-data")
				src := obs.NewSource(j.it.Data, j.cut, failOf(fault), sc).WithShape(j.u.P)
				switch {
				case j.u.Dr == "copy":
					src.DrainCopyAfter = 0
				case strings.HasSuffix(j.u.Dr, "-then-copy"):
					fmt.Sscanf(j.u.Dr, "read%d-then-copy", &src.DrainCopyAfter)
				default:
					fmt.Sscanf(j.u.Dr, "read%d", &src.DrainBuf)
				}
				o := obs.Run(j.loader, src, true, false)
				sink.put(map[string]interface{}{
					"item": j.it.Name, "loader": j.loader, "n": len(j.it.Data), "cut": j.cut, "fault": fault,
					"sched": sc.Name, "shape": j.u.P, "drain": j.u.Dr, "with_data": sc.WithErr, "usage": true,
					"ok": o.OK, "panic": o.Panic != "", "stream_nil": o.StreamNil,
					"pulled": o.Pulled, "replay_len": o.ReplayLen, "prefix": o.Prefix, "final": o.FinalErr,
				})
			})
		}
		for _, it := range hugeJunk() {
			for _, loader := range []string{"png", "auto"} {
				for _, fault := range []string{"eof", "ioerr"} {
					src := obs.NewSource(it.Data, -1, failOf(fault), obs.Full)
					src.Tail, src.Cut, src.TailFF = it.Tail, len(it.Data)+it.Tail, it.TailFF
					o := obs.Run(loader, src, true, false)
					sink.put(map[string]interface{}{
						"item": it.Name, "loader": loader, "n": src.Cut, "cut": src.Cut, "fault": fault,
						"sched": "full", "shape": "plain", "drain_buf": 0, "drain_copy_after": -1, "ok": o.OK, "panic": o.Panic != "", "stream_nil": o.StreamNil,
						"pulled": o.Pulled, "replay_len": o.ReplayLen, "prefix": o.Prefix, "final": o.FinalErr,
					})
				}
			}
		}
		done()
		stats["c07"] = sink.n
	}

	// ---------------- C08: outcome independent of the delivery schedule ----------------
	if want["c08"] {
		sink, done, err := newSink(filepath.Join(*outDir, "c08.ndjson"))
		if err != nil {
			return err
		}
		type job struct {
			it     item
			loader string
		}
		var jobs []job
		for _, it := range items {
			if it.Tail > 0 {
				continue
			}
			loaders := []string{it.Fmt, "auto"}
			if it.Fmt == "junk" {
				loaders = obs.LoaderNames
			}
			for _, l := range loaders {
				jobs = append(jobs, job{it, l})
			}
			// the input that ends exactly where the profile-carrying structure ends (the last bytes
			// of the profile may then arrive together with EOF)
			if it.HasICC && it.L.ICCEnd > 0 && it.L.ICCEnd < len(it.Data) {
				cutIt := it
				cutIt.Name, cutIt.Data = it.Name+"@iccend", it.Data[:it.L.ICCEnd]
				for _, l := range loaders {
					jobs = append(jobs, job{cutIt, l})
				}
			}
			// ... and the one that ends where the structure with the dimensions ends, and a byte later
			for _, d := range []int{0, 1} {
				if it.Well && it.L.HeaderEnd > 0 && it.L.HeaderEnd+d < len(it.Data) && len(it.Data) < 100000 {
					cutIt := it
					cutIt.Name, cutIt.Data = fmt.Sprintf("%s@hdrend+%d", it.Name, d), it.Data[:it.L.HeaderEnd+d]
					for _, l := range loaders {
						jobs = append(jobs, job{cutIt, l})
					}
				}
			}
		}
		// PNGs whose metadata ends a little below a round size (1, 16, 32 MiB; 64 MiB in the thorough
		// tier): what a reader holds for replay then depends on how far it has read ahead
		bigSizes := []int{1 << 20, 16 << 20, 32 << 20}
		if *tier == "thorough" {
			bigSizes = append(bigSizes, 64<<20)
		}
		for _, lim := range bigSizes {
			for _, below := range []int{1000, 3} {
				d, l := gen.BuildPNG([]gen.PNGChunk{gen.IHDR(31, 17, 8, 6, 0), gen.Chunk("prVt", make([]byte, lim-below-53)),
					gen.Chunk("IDAT", gen.Payload(300, 9, false)), gen.Chunk("IEND", nil)})
				it := item{Name: fmt.Sprintf("png:metadata-ends-%d-below-%dMiB", below, lim>>20), Fmt: "png", Data: d, L: l, Well: true}
				jobs = append(jobs, job{it, "png"})
				if below == 1000 {
					jobs = append(jobs, job{it, "auto"})
				}
			}
		}
		var mu sync.Mutex
		parallel(len(jobs), func(i int) {
			j := jobs[i]
			mu.Lock()
			lr := rand.New(rand.NewSource(*seed*7919 + int64(i)))
			mu.Unlock()
			ss := schedules(lr, len(j.it.Data), *tier)
			// every composition of the first 12 bytes (the model's exhaustive schedule
			// set, unscaled), and the same laid across the 4096 boundary
			comps := obs.Compositions(12)
			stride := 1
			if *tier != "thorough" {
				stride = 37
			}
			for k := i % stride; k < len(comps) && len(j.it.Data) < 4<<20; k += stride {
				ss = append(ss, obs.Sched{Name: fmt.Sprintf("comp12/%d", k), Sizes: comps[k]})
				if len(j.it.Data) > 4200 {
					ss = append(ss, obs.Sched{Name: fmt.Sprintf("comp12@4090/%d", k), Sizes: comps[k], Offset: 4090})
				}
			}
			// single cuts: deliver c bytes, then the rest
			cutStep := 509
			if *tier == "thorough" {
				cutStep = 17
			}
			for c := 1 + i%cutStep; c < len(j.it.Data) && c <= 8192 && len(j.it.Data) < 4<<20; c += cutStep {
				ss = append(ss, obs.Sched{Name: fmt.Sprintf("cut%d", c), Sizes: []int{c, 0}})
			}
			outs := make([][2]string, 0, len(ss))
			for _, s := range ss {
				o := obs.Run(j.loader, obs.NewSource(j.it.Data, -1, nil, s), false, false)
				outs = append(outs, [2]string{s.Name, o.Outcome()})
			}
			sink.put(map[string]interface{}{"item": j.it.Name, "kind": "loader", "loader": j.loader, "n": len(j.it.Data), "outs": outs})
		})
		// the ICC profile reader behind buffered readers of any size
		var profiles [][]byte
		pp, _ := filepath.Glob(filepath.Join(*repo, "test-profiles", "*.icc"))
		for _, p := range pp {
			d, _ := os.ReadFile(p)
			profiles = append(profiles, d)
		}
		for _, sz := range []int{200, 548, 4095, 4096, 4097, 9000, 70000} {
			profiles = append(profiles, gen.SimpleProfile(sz, "desc "+fmt.Sprint(sz), sz%2 == 0, uint32(sz)))
		}
		profiles = append(profiles, profiles[1][:300], profiles[1][:100], []byte{}) // truncated ones fail alike
		// malformed ones fail alike too: tags pointing into the header / the tag table / past the
		// end, overlapping and out-of-order tags (legal)
		{
			tags := []gen.ICCTag{{Sig: "desc", Block: 0}, {Sig: "cprt", Block: 1}, {Sig: "wtpt", Block: 1}}
			blocks := []gen.ICCBlock{{Data: gen.TextDesc("malformed")}, {Data: gen.Payload(40, 3, false)}}
			for _, ov := range []gen.ICCOverride{
				{TagCount: -1, ProfSize: -1, TagOffset: map[int]int64{1: 0}},
				{TagCount: -1, ProfSize: -1, TagOffset: map[int]int64{1: 100}},
				{TagCount: -1, ProfSize: -1, TagOffset: map[int]int64{0: 132}},
				{TagCount: -1, ProfSize: -1, TagOffset: map[int]int64{2: 140}, TagSize: map[int]int64{2: 12}},
				{TagCount: -1, ProfSize: -1, TagOffset: map[int]int64{1: 1 << 20}},
				{TagCount: -1, ProfSize: -1, TagSize: map[int]int64{1: 1 << 20}},
				{TagCount: -1, ProfSize: -1, TagSize: map[int]int64{0: 13}},
				{TagCount: 2, ProfSize: -1},
				{TagCount: 4, ProfSize: -1},
			} {
				ov := ov
				profiles = append(profiles, gen.BuildICC(nil, tags, blocks, nil, &ov))
			}
			profiles = append(profiles, gen.BuildICC(nil, tags, blocks, []int{1, 0}, nil))
		}
		parallel(len(profiles), func(i int) {
			lr := rand.New(rand.NewSource(*seed*31 + int64(i)))
			var outs [][2]string
			for _, s := range schedules(lr, len(profiles[i]), *tier) {
				for _, bs := range []int{0, 16, 17, 64, 128, 1000, 4096, -1} {
					outs = append(outs, [2]string{fmt.Sprintf("%s/buf%d", s.Name, bs), iccOutcome(profiles[i], s, bs)})
				}
				if s.Name == "full" {
					outs = append(outs, [2]string{"bytes.Reader", iccOutcome(profiles[i], s, -2)}, [2]string{"bytes.Buffer", iccOutcome(profiles[i], s, -3)})
				}
			}
			sink.put(map[string]interface{}{"item": fmt.Sprintf("profile%d", i), "kind": "icc", "loader": "icc", "n": len(profiles[i]), "outs": outs})
		})
		done()
		stats["c08"] = sink.n
	}

	// ---------------- C18: no over-reading; truncated reload agrees ----------------
	if want["c18"] {
		sink, done, err := newSink(filepath.Join(*outDir, "c18.ndjson"))
		if err != nil {
			return err
		}
		var well []item
		for _, it := range items {
			if it.Well {
				well = append(well, it)
			}
		}
		scheds := []obs.Sched{obs.Full, {Name: "fixed1", Sizes: []int{1}, Cyclic: true}, {Name: "fixed4097", Sizes: []int{4097}, Cyclic: true},
			{Name: "fixed100000", Sizes: []int{100000}, Cyclic: true}}
		tscheds := []obs.Sched{obs.Full, {Name: "full+eof", WithErr: true}, {Name: "fixed7+eof", Sizes: []int{7}, Cyclic: true, WithErr: true}}
		// files with a lot of metadata (200 KB profiles), loaded just before a measured load in the
		// serial pass: how far a load reads ahead may not depend on what was loaded before it
		bigProf := gen.Payload(200_000, 99, false)
		bparts := gen.SplitICC(bigProf, 4)
		bigJ, _ := gen.BuildJPEG([]gen.JSeg{gen.SOI(), gen.ICCSeg(1, 4, bparts[0]), gen.ICCSeg(2, 4, bparts[1]), gen.ICCSeg(3, 4, bparts[2]), gen.ICCSeg(4, 4, bparts[3]),
			gen.SOF(0xC0, 8, 5, 6, gen.StdComps(3, 0x11)), gen.SOS(3, gen.EntropyBytes(20, 1)), gen.EOI()})
		bigP, _ := gen.BuildPNG([]gen.PNGChunk{gen.IHDR(3, 4, 8, 2, 0), gen.ICCP("big", 0, gen.Deflate(bigProf, 0)), gen.Chunk("IDAT", gen.Payload(20, 2, false)), gen.Chunk("IEND", nil)})
		bigW, _ := gen.BuildWebP([]gen.WChunk{gen.VP8X(gen.VP8XICC, 5, 6), gen.WC("ICCP", bigProf), gen.VP8(5, 6, 0, 0, gen.VP8Body(20))}, -1)
		bigOf := map[string][]byte{"jpeg": bigJ, "png": bigP, "webp": bigW}
		measure := func(i int, history string) {
			it := well[i]
			for li, loader := range []string{it.Fmt, "auto"} {
				s := scheds[(i+li)%len(scheds)]
				shape := []string{"plain", "rich0", "rich5"}[(i/2+li)%3]
				if history == "after-big" {
					obs.Run(loader, obs.NewSource(bigOf[it.Fmt], -1, nil, obs.Full), false, false)
					s = obs.Full // a source that satisfies any request in full
				}
				src := obs.NewSource(it.Data, -1, nil, s).WithShape(shape)
				src.Tail = it.Tail
				src.Cut = len(it.Data) + it.Tail
				o := obs.Run(loader, src, false, false)
				needed := it.L.Needed(it.HasICC)
				// reload the file truncated just after `needed` (its last delivery may come with EOF)
				tdata, ttail := it.Data, 0
				if needed <= len(it.Data) {
					tdata = it.Data[:needed]
				} else {
					ttail = needed - len(it.Data)
				}
				ts := tscheds[(i+li)%len(tscheds)]
				tsrc := obs.NewSource(tdata, -1, nil, ts)
				tsrc.Tail, tsrc.Cut = ttail, len(tdata)+ttail
				to := obs.Run(loader, tsrc, false, false)
				sink.put(map[string]interface{}{
					"item": it.Name, "loader": loader, "sched": s.Name, "shape": shape, "history": history, "trunc_sched": ts.Name,
					"layout": map[string]interface{}{"header_end": it.L.HeaderEnd, "icc_end": it.L.ICCEnd, "pix_start": it.L.PixStart, "total": it.L.Total, "has_icc": it.HasICC},
					"pulled": o.Pulled, "ok": o.OK, "outcome": o.Outcome(), "trunc_outcome": to.Outcome(), "maxreq": o.MaxReq,
				})
				// the same file as a real *os.File (sparse beyond the data): what was consumed is the file offset
				if (i+li)%4 == 0 && it.Tail <= 1<<20 && history == "fresh" {
					if pulled, oo, err := loadOSFile(*outDir, loader, it.Data, it.Tail); err == nil {
						sink.put(map[string]interface{}{
							"item": it.Name, "loader": loader, "sched": "os.File", "shape": "os.File", "history": history, "trunc_sched": ts.Name,
							"layout": map[string]interface{}{"header_end": it.L.HeaderEnd, "icc_end": it.L.ICCEnd, "pix_start": it.L.PixStart, "total": it.L.Total, "has_icc": it.HasICC},
							"pulled": pulled, "ok": oo.OK, "outcome": oo.Outcome(), "trunc_outcome": to.Outcome(), "maxreq": 0,
						})
					}
				}
			}
		}
		parallel(len(well), func(i int) { measure(i, "fresh") })
		for i := range well { // serially: nothing else touches the library in between
			measure(i, "after-big")
		}
		done()
		stats["c18"] = sink.n
	}

	// ---------------- C19: autometa == first succeeding specific loader ----------------
	if want["c19"] {
		sink, done, err := newSink(filepath.Join(*outDir, "c19.ndjson"))
		if err != nil {
			return err
		}
		type job struct {
			it    item
			cut   int
			s     obs.Sched
			shape string // "" = rotate
		}
		var jobs []job
		// the product presentation x delivery x (EOF alone / together with the last bytes) of
		// spec/Usage.tla on a few files of every kind: auto-detection may depend on none of it
		if *usagePath != "" {
			raw, err := os.ReadFile(*usagePath)
			if err != nil {
				return err
			}
			seen := map[string]bool{}
			perFmt := map[string]int{}
			var pick []item
			for _, it := range items {
				if it.Tail == 0 && len(it.Data) > 40 && len(it.Data) < 20000 && perFmt[it.Fmt] < 2 {
					perFmt[it.Fmt]++
					pick = append(pick, it)
				}
			}
			for _, l := range strings.Split(strings.TrimSpace(string(raw)), "\n") {
				var u struct{ P, D, F string }
				if err := json.Unmarshal([]byte(l), &u); err != nil {
					return err
				}
				if !strings.HasPrefix(u.F, "eof") || seen[u.P+u.D+u.F] {
					continue
				}
				seen[u.P+u.D+u.F] = true
				var k int
				fmt.Sscanf(u.D, "fixed%d", &k)
				sc := obs.Sched{Name: u.D + "/" + u.F, WithErr: strings.HasSuffix(u.F, "-with-data")}
				if k > 0 {
					sc.Sizes, sc.Cyclic = []int{k}, true
				}
				for _, it := range pick {
					for _, cut := range []int{len(it.Data) / 2, len(it.Data)} {
						jobs = append(jobs, job{it, cut, sc, u.P})
					}
				}
			}
		}
		for k, it := range items {
			if it.Tail > 0 {
				continue
			}
			jobs = append(jobs, job{it: it, cut: len(it.Data), s: obs.Full})
			jobs = append(jobs, job{it: it, cut: len(it.Data), s: obs.Sched{Name: "fixed3", Sizes: []int{3}, Cyclic: true}})
			jobs = append(jobs, job{it: it, cut: len(it.Data), s: obs.Sched{Name: "idle-first+full", IdleFirst: true}})
			cuts := cutsFor(it, "quick", rng)
			step := 7
			if *tier == "thorough" {
				step = 1
			}
			for ci := k % step; ci < len(cuts); ci += step {
				jobs = append(jobs, job{it: it, cut: cuts[ci], s: obs.Full})
			}
		}
		parallel(len(jobs), func(i int) {
			j := jobs[i]
			// all four loaders see the same presentation of the source (plain, or the way
			// *bytes.Reader / *os.File present themselves, at offset 0 or embedded after foreign bytes)
			shape := j.shape
			if shape == "" {
				shape = []string{"plain", "rich5", "rich0"}[i%3]
			}
			ev := map[string]interface{}{"item": j.it.Name, "n": len(j.it.Data), "cut": j.cut, "sched": j.s.Name, "shape": shape}
			for _, loader := range obs.LoaderNames {
				src := obs.NewSource(j.it.Data, j.cut, nil, j.s).WithShape(shape)
				if loader == "auto" {
					// the caller reads the returned stream in pieces of its own choosing, or reads some
					// and io.Copy's the rest
					src.DrainBuf = []int{0, 1, 7, 512, 4096, 4097}[i%6]
					src.DrainCopyAfter = []int{-1, 12, 0, -1, 5000, 1, -1}[i%7]
					ev["drain_buf"], ev["drain_copy_after"] = src.DrainBuf, src.DrainCopyAfter
				}
				o := obs.Run(loader, src, loader == "auto", false)
				ev[loader] = o.Outcome()
				if loader == "auto" {
					ev["auto_replay_len"], ev["auto_prefix"], ev["auto_final"] = o.ReplayLen, o.Prefix, o.FinalErr
					ev["auto_has_md"] = o.HasMD
				}
			}
			sink.put(ev)
		})
		for _, it := range hugeJunk() {
			ev := map[string]interface{}{"item": it.Name, "n": len(it.Data) + it.Tail, "cut": len(it.Data) + it.Tail, "sched": "full", "shape": "plain"}
			for _, loader := range obs.LoaderNames {
				src := obs.NewSource(it.Data, -1, nil, obs.Full)
				src.Tail, src.Cut, src.TailFF = it.Tail, len(it.Data)+it.Tail, it.TailFF
				o := obs.Run(loader, src, loader == "auto", false)
				ev[loader] = o.Outcome()
				if loader == "auto" {
					ev["auto_replay_len"], ev["auto_prefix"], ev["auto_final"] = o.ReplayLen, o.Prefix, o.FinalErr
					ev["auto_has_md"] = o.HasMD
				}
			}
			sink.put(ev)
		}
		done()
		stats["c19"] = sink.n
	}
	js, _ := json.Marshal(stats)
	fmt.Println(string(js))
	_ = bytes.MinRead
	return nil
}
