//go:build verif

// Command lazyrace forces TLC-generated schedules of first use onto the real
// lazily-initialised look-up tables, or runs un-gated first-use stress trials,
// in a process built with -race.  The gates are spin-waits on plain memory in
// //go:norace functions: they impose an order without creating
// happens-before edges that would hide the race being looked for.
//
// Exit status: 0 ok; 66 race detected (GORACE exitcode); 3 a goroutine's
// return value differs from the sequential value; 4 schedule could not be
// forced (infeasible on this code); 2 usage.
package main

import (
	"bytes"
	"flag"
	"fmt"
	"image"
	"image/color"
	"image/draw"
	"os"
	"runtime"
	"strconv"
	"strings"
	"sync"
	"time"

	"github.com/mandykoh/prism/adobergb"
	"github.com/mandykoh/prism/ciexyy"
	"github.com/mandykoh/prism/ciexyz"
	"github.com/mandykoh/prism/displayp3"
	"github.com/mandykoh/prism/meta/autometa"
	"github.com/mandykoh/prism/meta/icc"
	"github.com/mandykoh/prism/prophotorgb"
	"github.com/mandykoh/prism/srgb"

	"verif/harness/gen"

	"github.com/mandykoh/prism"

	"sync/atomic"

	"github.com/mandykoh/prism/linear"
)

const maxG = 128

// all of this is touched only from //go:norace functions
var (
	goids    [maxG]int64
	want     [maxG]int32 // role code the goroutine is waiting for (0 none)
	granted  [maxG]int32
	winner   [maxG]int32
	nreg     int32
	schedule []int32
	pos      int32
	gated    bool
	tracing  bool
	traceBuf [4096]int32 // g*8+role, appended by the arbiter in grant order
	traceLen int32
	stuck    int32
)

const (
	rE = 1 + iota
	rB
	rP
	rRw
	rRl
)

var roleNames = map[string]int32{"E": rE, "B": rB, "P": rP, "Rw": rRw, "Rl": rRl}

func curGoid() int64 {
	var buf [64]byte
	n := runtime.Stack(buf[:], false)
	// "goroutine 123 ["
	s := buf[len("goroutine "):n]
	i := bytes.IndexByte(s, ' ')
	id, _ := strconv.ParseInt(string(s[:i]), 10, 64)
	return id
}

//go:norace
//go:noinline
func register(g int) { goids[g] = curGoid(); nreg++ }

//go:norace
//go:noinline
func lookup(id int64) int {
	for g := 0; g < maxG; g++ {
		if goids[g] == id {
			return g
		}
	}
	return -1
}

//go:norace
//go:noinline
func waitGrant(g int, role int32) {
	want[g] = role
	for granted[g] == 0 {
		if stuck != 0 {
			return
		}
		runtime.Gosched()
	}
	granted[g] = 0
}

//go:norace
//go:noinline
func markWinner(g int) { winner[g] = 1 }

//go:norace
//go:noinline
func isWinner(g int) bool { return winner[g] != 0 }

// hook is installed as VerifHook of the three packages.
func hook(point string) {
	if !gated {
		return
	}
	g := lookup(curGoid())
	if g < 0 {
		return // not one of ours (sequential re-evaluation after the trial)
	}
	var role int32
	switch {
	case strings.HasSuffix(point, ".entry"):
		role = rE
	case strings.HasSuffix(point, ".build"):
		role = rB
		markWinner(g)
	case strings.HasSuffix(point, ".publish"):
		role = rP
	case strings.HasSuffix(point, ".ret"):
		role = rRl
		if isWinner(g) {
			role = rRw
		}
	}
	waitGrant(g, role)
}

// arbiter grants the schedule's events one by one to whichever goroutine is
// waiting in the matching role; returns false if it cannot make progress.
//
//go:norace
//go:noinline
func arbiter(n int) bool {
	last := time.Now()
	for int(pos) < len(schedule) {
		r := schedule[pos]
		found := false
		for g := 0; g < n; g++ {
			if want[g] == r && granted[g] == 0 {
				want[g] = 0
				traceBuf[traceLen] = int32(g)*8 + r
				traceLen++
				granted[g] = 1
				pos++
				found = true
				last = time.Now()
				break
			}
		}
		if !found {
			if time.Since(last) > 8*time.Second {
				stuck = 1
				return false
			}
			runtime.Gosched()
		}
	}
	return true
}

//go:norace
//go:noinline
func resetGates() {
	for g := 0; g < maxG; g++ {
		goids[g], want[g], granted[g], winner[g] = 0, 0, 0, 0
	}
	nreg, pos, traceLen, stuck = 0, 0, 0, 0
}

//go:norace
//go:noinline
func spinUntil(p *int32, v int32) {
	for *p < v {
		runtime.Gosched()
	}
}

//go:norace
//go:noinline
func setFlag(p *int32, v int32) { *p = v }

type target struct {
	name string
	call func(arg int) uint32 // returns a comparable rendering of the result
}

func f32bits(f float32) uint32 { return uint32(int64(f * 1e6)) }

var targets = []target{
	{"srgb.from16", func(a int) uint32 { return f32bits(srgb.From16Bit(uint16(a * 257))) }},
	{"srgb.to16", func(a int) uint32 { return uint32(srgb.To16Bit(float32(a%256) / 255)) }},
	{"adobergb.from16", func(a int) uint32 { return f32bits(adobergb.From16Bit(uint16(a * 257))) }},
	{"adobergb.to16", func(a int) uint32 { return uint32(adobergb.To16Bit(float32(a%256) / 255)) }},
	{"prophotorgb.from16", func(a int) uint32 { return f32bits(prophotorgb.From16Bit(uint16(a * 257))) }},
	{"prophotorgb.to16", func(a int) uint32 { return uint32(prophotorgb.To16Bit(float32(a%256) / 255)) }},
	// entry points that reach the same tables through colour / image APIs
	{"srgb.LineariseColor", func(a int) uint32 {
		c := srgb.LineariseColor(color.NRGBA{R: uint8(a), G: uint8(a * 3), B: uint8(a * 7), A: 255})
		return uint32(c.R)<<16 | uint32(c.G)
	}},
	{"displayp3.EncodeColor", func(a int) uint32 {
		c := displayp3.EncodeColor(color.RGBA64{R: uint16(a * 200), G: uint16(a * 100), B: 77, A: 65535})
		return uint32(c.R)<<16 | uint32(c.B)
	}},
}

// Functions that hold no tables today: the first conversions of a process race here too (a
// table or derived matrix introduced behind them must be published properly).
func init() {
	x3 := func(c ciexyz.Color) uint32 {
		return f32bits(c.X)*31 + f32bits(c.Y)*17 + f32bits(c.Z)
	}
	lin := func(a int) (float32, float32, float32) {
		return float32(a%7) / 7, float32(a%5) / 5, float32(a%3) / 3
	}
	targets = append(targets,
		target{"srgb.xyz", func(a int) uint32 {
			r, g, b := lin(a)
			c := srgb.ColorFromLinear(r, g, b).ToXYZ()
			d := srgb.ColorFromXYZ(c)
			return x3(c) ^ f32bits(d.R)
		}},
		target{"adobergb.xyz", func(a int) uint32 {
			r, g, b := lin(a)
			c := adobergb.ColorFromLinear(r, g, b).ToXYZ()
			d := adobergb.ColorFromXYZ(c)
			return x3(c) ^ f32bits(d.G)
		}},
		target{"prophotorgb.xyz", func(a int) uint32 {
			r, g, b := lin(a)
			c := prophotorgb.ColorFromLinear(r, g, b).ToXYZ()
			d := prophotorgb.ColorFromXYZ(c)
			return x3(c) ^ f32bits(d.B)
		}},
		target{"displayp3.xyz", func(a int) uint32 {
			r, g, b := lin(a)
			c := displayp3.ColorFromLinear(r, g, b).ToXYZ()
			d := displayp3.ColorFromXYZ(c)
			return x3(c) ^ f32bits(d.R)
		}},
		target{"ciexyz.lab", func(a int) uint32 {
			r, g, b := lin(a)
			l := ciexyz.Color{X: r, Y: g + 0.01, Z: b}.ToLAB(ciexyz.D50)
			c := ciexyz.ColorFromLAB(l, ciexyz.D65)
			return f32bits(l.L)*13 + f32bits(l.A+200)*7 + f32bits(l.B+200) ^ x3(c)
		}},
		target{"ciexyz.adapt", func(a int) uint32 {
			ws := []ciexyy.Color{ciexyy.D50, ciexyy.D65, {X: 0.31, Y: 0.32, YY: 1}, {X: 0.4, Y: 0.4, YY: 1}}
			ad := ciexyz.AdaptBetweenXYYWhitePoints(ws[a%4], ws[(a/4+1)%4])
			return x3(ad.Apply(ciexyz.Color{X: 0.3, Y: 0.4, Z: 0.5}))
		}},
		target{"ciexyz.primaries", func(a int) uint32 {
			w := []ciexyy.Color{ciexyy.D50, ciexyy.D65}[a%2]
			m := ciexyz.TransformToXYZForXYYPrimaries(srgb.PrimaryRed, srgb.PrimaryGreen, srgb.PrimaryBlue, w)
			n := ciexyz.TransformFromXYZForXYYPrimaries(adobergb.PrimaryRed, adobergb.PrimaryGreen, adobergb.PrimaryBlue, w)
			return uint32(int64(m[0][0]*1e6)) ^ uint32(int64(n[1][1]*1e6))
		}},
		target{"icc.strings", func(a int) uint32 {
			s := icc.Version{Major: byte(a % 8), MinorAndRev: byte(a * 16)}.String() + icc.DeviceClass(0x6D6E7472+uint32(a%2)).String() +
				icc.ColorSpace(0x52474220).String() + icc.Signature(uint32(a)<<8|0x61).String()
			var h uint32
			for _, ch := range []byte(s) {
				h = h*31 + uint32(ch)
			}
			return h
		}},
	)
}

func findTarget(name string) *target {
	for i := range targets {
		if targets[i].name == name {
			return &targets[i]
		}
	}
	return nil
}

// trial runs n goroutines calling t concurrently (gated by sched if given).
func trial(t *target, n int, sched []int32) (ok bool, infeasible bool) {
	resetGates()
	schedule = sched
	gated = sched != nil
	results := make([]uint32, n)
	var startFlag int32
	var wg sync.WaitGroup
	for g := 0; g < n; g++ {
		wg.Add(1)
		go func(g int) {
			defer wg.Done()
			register(g)
			spinUntil(&startFlag, 1) // un-synchronised barrier
			results[g] = t.call(g + 1)
		}(g)
	}
	if gated {
		setFlag(&startFlag, 1)
		if !arbiter(n) {
			infeasible = true
		}
	} else {
		setFlag(&startFlag, 1)
	}
	wg.Wait()
	gated = false
	ok = true
	for g := 0; g < n; g++ {
		if exp := t.call(g + 1); exp != results[g] {
			fmt.Printf("VALUE-MISMATCH target=%s goroutine=%d got=%d sequential=%d\n", t.name, g, results[g], exp)
			ok = false
		}
	}
	return
}

// trialMixed: n goroutines released together, goroutine g calling ts[g % len(ts)] - the first uses
// of DIFFERENT entry points meet (two tables guarded by two Onces must not touch each other's state).
func trialMixed(ts []*target, n int) bool {
	results := make([]uint32, n)
	var startFlag int32
	var wg sync.WaitGroup
	for g := 0; g < n; g++ {
		wg.Add(1)
		go func(g int) {
			defer wg.Done()
			spinUntil(&startFlag, 1)
			results[g] = ts[g%len(ts)].call(g + 1)
		}(g)
	}
	setFlag(&startFlag, 1)
	wg.Wait()
	ok := true
	for g := 0; g < n; g++ {
		if exp := ts[g%len(ts)].call(g + 1); exp != results[g] {
			fmt.Printf("VALUE-MISMATCH target=%s goroutine=%d got=%d sequential=%d\n", ts[g%len(ts)].name, g, results[g], exp)
			ok = false
		}
	}
	return ok
}

// sharedWork exercises the other concurrency claims of C11 in the same -race
// process: image transforms with parallelism > 1 on shared images, concurrent
// loaders, concurrent adaptation constructors.
var sharedWorkFailed bool

func sharedWork(file []byte) {
	// files of the other formats next to the one given: concurrent loads of DIFFERENT formats
	var others [][]byte
	if file != nil {
		prof := gen.SimpleProfile(800, "race", true, 3)
		profW := gen.SimpleProfile(1300, "race webp", false, 4) // another profile: v4, other tags, other description
		j, _ := gen.BuildJPEG([]gen.JSeg{gen.SOI(), gen.JFIF(), gen.ICCSeg(1, 1, prof), gen.DQT(0),
			gen.SOF(0xC0, 8, 21, 34, gen.StdComps(3, 0x22)), gen.DHT(0, 0), gen.SOS(3, gen.EntropyBytes(60, 5)), gen.EOI()})
		w, _ := gen.BuildWebP([]gen.WChunk{gen.VP8X(gen.VP8XICC, 55, 66), gen.WC("ICCP", profW), gen.VP8(55, 66, 0, 0, gen.VP8Body(40))}, -1)
		// files with more than 4 KiB of data the loaders skip (ancillary chunk, EXIF) ahead of what they want
		bigp, _ := gen.BuildPNG([]gen.PNGChunk{gen.IHDR(33, 44, 8, 6, 0), gen.Chunk("tEXt", gen.Payload(9000, 7, true)),
			gen.ICCP("big skip", 0, gen.Deflate(prof, 6)), gen.Chunk("IDAT", gen.Payload(40, 1, false)), gen.Chunk("IEND", nil)})
		bigw, _ := gen.BuildWebP([]gen.WChunk{gen.VP8X(gen.VP8XICC|0x08, 55, 66), gen.WC("ICCP", profW), gen.WC("EXIF", gen.Payload(12000, 8, true)),
			gen.VP8(55, 66, 0, 0, gen.VP8Body(40))}, -1)
		others = [][]byte{file, j, w, gen.Payload(300, 1, false), bigp, bigw, bigp,
			// streams cut inside a structure (the loaders' error paths run concurrently too)
			j[:len(j)/2], j[:30], w[:len(w)/2], file[:len(file)/3], j[:len(j)-3]}
	}
	src := image.NewNRGBA(image.Rect(0, 0, 37, 29))
	for i := range src.Pix {
		src.Pix[i] = byte(i * 31)
	}
	// the conversion helpers on vertically subsampled Y'CbCr crops that start on odd rows / columns
	// (their own workers must own disjoint rows whatever the origin), and on the other input types
	for _, ratio := range []image.YCbCrSubsampleRatio{image.YCbCrSubsampleRatio420, image.YCbCrSubsampleRatio440, image.YCbCrSubsampleRatio422} {
		big := image.NewYCbCr(image.Rect(0, 0, 170, 310), ratio)
		for i := range big.Y {
			big.Y[i] = byte(i * 7)
		}
		for i := range big.Cb {
			big.Cb[i], big.Cr[i] = byte(i*3), byte(255-i)
		}
		for _, r := range []image.Rectangle{image.Rect(3, 5, 163, 306), image.Rect(2, 4, 160, 301), image.Rect(1, 1, 33, 42)} {
			crop := big.SubImage(r)
			for _, par := range []int{2, 3, 4} {
				prism.ConvertImageToNRGBA(crop, par)
				prism.ConvertImageToRGBA64(crop, par)
				prism.ConvertImageToRGBA(crop, par)
			}
		}
	}
	// the generic transform with a colour function that makes the library's workers advance in
	// lockstep: they reach every hand-over point together; rows below the destination window are guarded
	for par := 2; par <= 4; par++ {
		for rep := 0; rep < 150; rep++ {
			rows := par + 1 + rep%3
			small := image.NewNRGBA(image.Rect(0, 0, 1, rows))
			for i := range small.Pix {
				small.Pix[i] = byte(i*29 + rep)
			}
			parent := image.NewRGBA64(image.Rect(0, 0, 1, rows+par+2))
			for i := range parent.Pix {
				parent.Pix[i] = 0xA5
			}
			win := parent.SubImage(image.Rect(0, 0, 1, rows)).(*image.RGBA64)
			var arrived int64
			f := func(c color.Color) color.RGBA64 {
				n := atomic.AddInt64(&arrived, 1)
				target := ((n-1)/int64(par) + 1) * int64(par)
				deadline := time.Now().Add(200 * time.Microsecond)
				for atomic.LoadInt64(&arrived) < target && time.Now().Before(deadline) {
					runtime.Gosched()
				}
				r, g, b, a := c.RGBA()
				return color.RGBA64{R: uint16(b), G: uint16(r), B: uint16(g), A: uint16(a)}
			}
			linear.TransformImageColor(win, small, par, f)
			for i := rows * parent.Stride; i < len(parent.Pix); i++ {
				if parent.Pix[i] != 0xA5 {
					fmt.Printf("VALUE-MISMATCH target=linear.TransformImageColor(lockstep) parallelism=%d rows=%d: byte %d below the destination window was written\n", par, rows, i)
					sharedWorkFailed = true
					i = len(parent.Pix)
				}
			}
		}
	}
	// the CALLER's goroutines each transform their own band (full-width rows, or columns) of images
	// they share: every call may touch its own band only, whatever the image types
	bandWork()
	crowdWork()
	ownResultWork()
	var wg sync.WaitGroup
	for k := 0; k < 4; k++ {
		wg.Add(1)
		go func(k int) {
			defer wg.Done()
			dst := image.NewRGBA64(src.Rect)
			srgb.LineariseImage(dst, src, 3+k)
			adobergb.EncodeImage(dst, dst, 2+k) // in place
			out := image.NewNRGBA(src.Rect)
			prophotorgb.EncodeImage(out, dst, 5)
			a := ciexyz.AdaptBetweenXYYWhitePoints(ciexyy.D50, ciexyy.D65)
			_ = a.Apply(ciexyz.Color{X: 0.3, Y: 0.4, Z: 0.5})
			if file != nil {
				for q := 0; q < len(others); q++ {
					idx := (k + q) % len(others)
					md, _, _ := autometa.Load(bytes.NewReader(others[idx]))
					// every caller parses the profile of ITS file and reads ITS description
					if md == nil {
						continue
					}
					if p, err := md.ICCProfile(); err == nil && p != nil {
						d, derr := p.Description()
						want := map[int]string{1: "race", 2: "race webp"}[idx]
						if want != "" && (derr != nil || d != want) {
							fmt.Printf("VALUE-MISMATCH target=icc.Profile.Description(concurrent loads): file %d gives %q (%v), alone it gives %q\n", idx, d, derr, want)
							sharedWorkFailed = true
						}
					}
				}
			}
		}(k)
	}
	wg.Wait()
}

type subImager interface {
	draw.Image
	SubImage(r image.Rectangle) image.Image
}

func newImg(kind int, r image.Rectangle) subImager {
	switch kind {
	case 0:
		return image.NewRGBA64(r)
	case 1:
		return image.NewNRGBA(r)
	case 2:
		return image.NewRGBA(r)
	}
	return image.NewNRGBA64(r)
}

// crowdWork: many callers at once, each asking for a large parallelism (together far more workers
// than processors): every call returns, with the result it has when it runs alone.
func crowdWork() {
	r := image.Rect(0, 0, 6, 70)
	src := image.NewNRGBA64(r)
	for y := 0; y < 70; y++ {
		for x := 0; x < 6; x++ {
			src.Set(x, y, color.NRGBA64{R: uint16(x*9000 + y), G: uint16(y * 900), B: uint16((x + y) * 800), A: 65535})
		}
	}
	ref := image.NewRGBA64(r)
	srgb.LineariseImage(ref, src, 1)
	const callers = 24
	outs := make([]*image.RGBA64, callers)
	done := make(chan struct{})
	go func() {
		var wg sync.WaitGroup
		for rep := 0; rep < 6; rep++ {
			for c := 0; c < callers; c++ {
				wg.Add(1)
				go func(c int) {
					defer wg.Done()
					outs[c] = image.NewRGBA64(r)
					srgb.LineariseImage(outs[c], src, []int{24, 48, 17, 64}[c%4])
				}(c)
			}
			wg.Wait()
		}
		close(done)
	}()
	select {
	case <-done:
	case <-time.After(40 * time.Second):
		fmt.Printf("VALUE-MISMATCH target=srgb.LineariseImage(crowd): %d concurrent calls with parallelism 17..64 on a 6x70 image did not all return within 40 s (alone each returns in milliseconds)\n", callers)
		os.Stdout.Sync()
		os.Exit(3) // the blocked calls cannot be abandoned: whatever they hold stays held
	}
	for c, o := range outs {
		if !bytes.Equal(o.Pix, ref.Pix) {
			fmt.Printf("VALUE-MISMATCH target=srgb.LineariseImage(crowd): caller %d's result differs from the call executed alone\n", c)
			sharedWorkFailed = true
			return
		}
	}
}

// ownResultWork: goroutines convert one image they share and then work on what they got back, in
// place: a result belongs to the caller that asked for it (and the shared input is not touched).
func ownResultWork() {
	r := image.Rect(0, 0, 9, 11)
	mk := []func() image.Image{
		func() image.Image { // opaque RGBA (what image/png returns for truecolour files)
			m := image.NewRGBA(r)
			for i := range m.Pix {
				m.Pix[i] = byte(i * 13)
				if i%4 == 3 {
					m.Pix[i] = 255
				}
			}
			return m
		},
		func() image.Image {
			m := image.NewNRGBA(r)
			for i := range m.Pix {
				m.Pix[i] = byte(i*7 + 3)
			}
			return m
		},
		func() image.Image {
			m := image.NewGray(r)
			for i := range m.Pix {
				m.Pix[i] = byte(i * 5)
			}
			return m
		},
	}
	convs := []func(image.Image) draw.Image{
		func(m image.Image) draw.Image { return prism.ConvertImageToNRGBA(m, 2) },
		func(m image.Image) draw.Image { return prism.ConvertImageToRGBA(m, 2) },
		func(m image.Image) draw.Image { return prism.ConvertImageToRGBA64(m, 2) },
	}
	pix := func(m image.Image) []byte {
		switch v := m.(type) {
		case *image.RGBA:
			return v.Pix
		case *image.NRGBA:
			return v.Pix
		case *image.RGBA64:
			return v.Pix
		case *image.Gray:
			return v.Pix
		}
		return nil
	}
	// few rows, many columns, many workers: the conversion has finished when it returns
	{
		wide := image.NewNRGBA(image.Rect(0, 0, 20000, 3))
		for i := range wide.Pix {
			wide.Pix[i] = byte(i*11 + 5)
		}
		alone := prism.ConvertImageToRGBA64(wide, 1)
		got := prism.ConvertImageToRGBA64(wide, 64)
		if !bytes.Equal(got.Pix, alone.Pix) {
			fmt.Printf("VALUE-MISMATCH target=prism.ConvertImageToRGBA64(3 rows, parallelism 64): the result differs from parallelism 1 at the moment the call returns\n")
			sharedWorkFailed = true
			return
		}
	}
	for si, mkSrc := range mk {
		for ci, conv := range convs {
			if (si == 0 && ci == 1) || (si == 1 && ci == 0) {
				continue // already of the target type: the documented result is the input itself
			}
			shared := mkSrc()
			before := append([]byte{}, pix(shared)...)
			alone := conv(mkSrc())
			srgb.LineariseImage(alone, alone, 1)
			const callers = 4
			outs := make([]draw.Image, callers)
			var wg sync.WaitGroup
			for c := 0; c < callers; c++ {
				wg.Add(1)
				go func(c int) {
					defer wg.Done()
					outs[c] = conv(shared)
					srgb.LineariseImage(outs[c], outs[c], 1+c%2)
				}(c)
			}
			wg.Wait()
			if !bytes.Equal(pix(shared), before) {
				fmt.Printf("VALUE-MISMATCH target=prism.ConvertImage(own result) %T: the shared input changed while callers worked on their results\n", shared)
				sharedWorkFailed = true
				return
			}
			for c := range outs {
				if !bytes.Equal(pix(outs[c]), pix(alone)) {
					fmt.Printf("VALUE-MISMATCH target=prism.ConvertImage(own result) %T -> %T: caller %d's linearised result differs from the same steps executed alone\n", shared, outs[c], c)
					sharedWorkFailed = true
					return
				}
			}
		}
	}
}

func bandWork() {
	r := image.Rect(0, 0, 24, 40)
	for sk := 0; sk < 3; sk++ {
		for dk := 0; dk < 3; dk++ {
			for _, rowBands := range []bool{true, false} {
				src := newImg(sk, r)
				for y := 0; y < 40; y++ {
					for x := 0; x < 24; x++ {
						src.Set(x, y, color.NRGBA64{R: uint16(x*2700 + y), G: uint16(y * 1600), B: uint16((x + y) * 1000), A: uint16(65535 - 900*(x%5))})
					}
				}
				ref := newImg(dk, r)
				srgb.LineariseImage(ref, src, 1)
				dst := newImg(dk, r)
				const bands = 4
				var wg sync.WaitGroup
				for b := 0; b < bands; b++ {
					wg.Add(1)
					go func(b int) {
						defer wg.Done()
						br := image.Rect(0, b*10, 24, b*10+10)
						if !rowBands {
							br = image.Rect(b*6, 0, b*6+6, 40)
						}
						srgb.LineariseImage(dst.SubImage(br).(draw.Image), src.SubImage(br), 1+b%3)
					}(b)
				}
				wg.Wait()
				for y := 0; y < 40 && !sharedWorkFailed; y++ {
					for x := 0; x < 24; x++ {
						if dst.At(x, y) != ref.At(x, y) {
							fmt.Printf("VALUE-MISMATCH target=srgb.LineariseImage(bands) src=%T dst=%T rowBands=%v: pixel (%d,%d) is %v, the whole-image call gives %v\n", src, dst, rowBands, x, y, dst.At(x, y), ref.At(x, y))
							sharedWorkFailed = true
							break
						}
					}
				}
			}
		}
	}
}

func main() {
	scheds := flag.String("scheds", "", "';'-separated list of target=E,E,B,P,Rl,Rw (one first use per table per process)")
	ungated := flag.String("ungated", "", "comma-separated targets for un-gated first-use trials")
	mixed := flag.String("mixed", "", "comma-separated targets whose first uses are released together, one target per goroutine (round robin)")
	n := flag.Int("n", 2, "goroutines per trial")
	procs := flag.Int("procs", 0, "GOMAXPROCS (0 = default)")
	file := flag.String("file", "", "image file for concurrent loader calls")
	trace := flag.Bool("trace", false, "print the granted hook events (non-race tracing runs)")
	flag.Parse()
	if *procs > 0 {
		runtime.GOMAXPROCS(*procs)
	}
	srgb.VerifHook, adobergb.VerifHook, prophotorgb.VerifHook = hook, hook, hook
	tracing = *trace
	exit := 0
	if *scheds != "" {
		for _, item := range strings.Split(*scheds, ";") {
			kv := strings.SplitN(item, "=", 2)
			t := findTarget(kv[0])
			if t == nil {
				fmt.Fprintln(os.Stderr, "unknown target", kv[0])
				os.Exit(2)
			}
			var sched []int32
			cnt := 0
			for _, r := range strings.Split(kv[1], ",") {
				sched = append(sched, roleNames[r])
				if r == "E" {
					cnt++
				}
			}
			ok, inf := trial(t, cnt, sched)
			if *trace {
				var ev []string
				for i := int32(0); i < traceLen; i++ {
					ev = append(ev, fmt.Sprintf("%d:%d", traceBuf[i]/8, traceBuf[i]%8))
				}
				fmt.Printf("TRACE target=%s n=%d events=%s\n", t.name, cnt, strings.Join(ev, ","))
			}
			if inf {
				fmt.Printf("INFEASIBLE target=%s sched=%s reached=%d\n", t.name, kv[1], pos)
				if exit == 0 {
					exit = 4
				}
			}
			if !ok {
				exit = 3
			}
		}
	}
	if *ungated != "" {
		for _, name := range strings.Split(*ungated, ",") {
			t := findTarget(name)
			if t == nil {
				fmt.Fprintln(os.Stderr, "unknown target", name)
				os.Exit(2)
			}
			if ok, _ := trial(t, *n, nil); !ok {
				exit = 3
			}
		}
	}
	if *mixed != "" {
		var ts []*target
		for _, name := range strings.Split(*mixed, ",") {
			t := findTarget(name)
			if t == nil {
				fmt.Fprintln(os.Stderr, "unknown target", name)
				os.Exit(2)
			}
			ts = append(ts, t)
		}
		if !trialMixed(ts, *n) {
			exit = 3
		}
	}
	var data []byte
	if *file != "" {
		data, _ = os.ReadFile(*file)
	}
	sharedWork(data)
	if sharedWorkFailed && exit == 0 {
		exit = 3
	}
	os.Exit(exit)
}
