module verif/harness

go 1.23

require (
	github.com/mandykoh/prism v0.0.0
	golang.org/x/image v0.18.0
)

require github.com/mandykoh/go-parallel v0.1.0 // indirect

replace github.com/mandykoh/prism => /repo
