// Package numlog renders floating-point results as exact fixed-point decimals
// in the limb format of spec/Num.tla (little-endian base-1000 limbs), so that
// TLC judges the very value the code returned, not a rounded print of it.
package numlog

import (
	"math"
	"math/big"
)

var pow10 = map[int]*big.Int{}

func p10(d int) *big.Int {
	if v, ok := pow10[d]; ok {
		return v
	}
	v := new(big.Int).Exp(big.NewInt(10), big.NewInt(int64(d)), nil)
	pow10[d] = v
	return v
}

func init() {
	for _, d := range []int{9, 12, 18, 24, 30} {
		p10(d)
	}
}

// Limbs converts a non-negative integer to little-endian base-1000 limbs (zero = empty).
func Limbs(v *big.Int) []int {
	out := []int{}
	if v.Sign() == 0 {
		return out
	}
	x := new(big.Int).Set(v)
	k := big.NewInt(1000)
	r := new(big.Int)
	for x.Sign() > 0 {
		x.DivMod(x, k, r)
		out = append(out, int(r.Int64()))
	}
	return out
}

// Fixed returns floor(|v| * 10^digits) and ceil(|v| * 10^digits) as limbs, the
// sign of v (1 or -1; 1 for zero) and whether the two coincide.  v must be finite.
func Fixed(v float64, digits int) (lo, hi []int, sign int, exact bool) {
	sign = 1
	if v < 0 || (v == 0 && math.Signbit(v)) {
		sign = -1
		v = -v
	}
	if math.IsNaN(v) || math.IsInf(v, 0) {
		v = 1e300 // a non-finite observation is recorded as a value no tolerance accepts
	}
	r := new(big.Rat).SetFloat64(v)
	r.Mul(r, new(big.Rat).SetInt(p10(digits)))
	q := new(big.Int).Quo(r.Num(), r.Denom())
	exact = new(big.Int).Mul(q, r.Denom()).Cmp(r.Num()) == 0
	lo = Limbs(q)
	if exact {
		return lo, lo, sign, true
	}
	return lo, Limbs(new(big.Int).Add(q, big.NewInt(1))), sign, false
}

// Exact returns v as (sign, numerator limbs, power-of-two exponent k) with
// |v| = num / 2^k exactly (k >= 0), for rational arithmetic in the specification.
func Exact(v float64) (sign int, num []int, k int) {
	sign = 1
	if v < 0 {
		sign = -1
		v = -v
	}
	r := new(big.Rat).SetFloat64(v)
	// denominator of a float is a power of two
	k = r.Denom().BitLen() - 1
	return sign, Limbs(r.Num()), k
}
