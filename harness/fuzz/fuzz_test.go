// Package fuzz drives Go's coverage-guided fuzzing over the byte-consuming entry points of
// prism (C09, thorough tier, exploration (d)).  The fuzz target has no oracle of its own: the
// inputs it discovers are written out and then exercised and judged like every other hostile
// input (spec/Hostile.tla budget contract, in resource-limited workers).
package fuzz

import (
	"bytes"
	"testing"

	"github.com/mandykoh/prism/meta/icc"

	"verif/harness/gen"
	"verif/harness/obs"
)

func FuzzBytes(f *testing.F) {
	prof := gen.SimpleProfile(600, "fuzz seed", true, 1)
	p4 := gen.SimpleProfile(700, "fuzz seed v4", false, 2)
	png, _ := gen.BuildPNG([]gen.PNGChunk{gen.IHDR(33, 44, 8, 6, 0), gen.ICCP("prof", 0, gen.Deflate(prof, 6)),
		gen.Chunk("IDAT", gen.Payload(40, 2, false)), gen.Chunk("IEND", nil)})
	parts := gen.SplitICC(p4, 2)
	jpg, _ := gen.BuildJPEG([]gen.JSeg{gen.SOI(), gen.JFIF(), gen.ICCSeg(1, 2, parts[0]), gen.ICCSeg(2, 2, parts[1]), gen.DQT(0),
		gen.SOF(0xC0, 8, 21, 34, gen.StdComps(3, 0x22)), gen.DHT(0, 0), gen.SOS(3, gen.EntropyBytes(40, 5)), gen.EOI()})
	webp, _ := gen.BuildWebP([]gen.WChunk{gen.VP8X(gen.VP8XICC, 55, 66), gen.WC("ICCP", prof), gen.VP8(55, 66, 0, 0, gen.VP8Body(40))}, -1)
	vp8l, _ := gen.BuildWebP([]gen.WChunk{gen.VP8L(7, 9, true, gen.Payload(30, 1, false))}, -1)
	for _, s := range [][]byte{png, jpg, webp, vp8l, prof, p4, {}, []byte("RIFF\x10\x00\x00\x00WEBP")} {
		f.Add(s)
	}
	f.Fuzz(func(t *testing.T, data []byte) {
		if len(data) > 1<<16 {
			return
		}
		for _, l := range obs.LoaderNames {
			md, _, _ := obs.Loaders[l](bytes.NewReader(data))
			if md != nil {
				if p, _ := md.ICCProfile(); p != nil {
					p.Description()
				}
			}
		}
		if p, _ := icc.NewProfileReader(bytes.NewReader(data)).ReadProfile(); p != nil {
			p.Description()
		}
	})
}
