// Package concrete turns the abstract files of spec/ContainersContract.tla
// (as printed by TLC) into real byte streams, and projects real outcomes back
// onto the abstract outcome records of the contract.
package concrete

import (
	"bytes"
	"encoding/json"
	"fmt"
	"sort"
	"strconv"
	"strings"
	"sync"

	"verif/harness/gen"
	"verif/harness/obs"
)

// Chunk is one abstract chunk/segment record (union of all fields).
type Chunk struct {
	T      string          `json:"t"`
	W      int64           `json:"w,omitempty"`
	H      int64           `json:"h,omitempty"`
	D      int             `json:"d,omitempty"`
	CT     int             `json:"ct,omitempty"`
	IL     int             `json:"il,omitempty"`
	Size   string          `json:"size,omitempty"`
	Name   int             `json:"name,omitempty"`
	NameCh int             `json:"namech,omitempty"` // when set: the character every other position of the profile name holds
	Method int             `json:"method,omitempty"`
	Z      string          `json:"z,omitempty"`
	Pid    int             `json:"pid,omitempty"`
	Cross  bool            `json:"cross,omitempty"`
	Kind   json.RawMessage `json:"kind,omitempty"`
	P      int             `json:"p,omitempty"`
	NC     int             `json:"nc,omitempty"`
	Seq    int             `json:"seq,omitempty"`
	Total  int             `json:"total,omitempty"`
	WS     int             `json:"ws,omitempty"`
	HS     int             `json:"hs,omitempty"`
	Alpha  bool            `json:"alpha,omitempty"`
	ICCF   bool            `json:"iccf,omitempty"`
	Exif   bool            `json:"exif,omitempty"`
	XMP    bool            `json:"xmp,omitempty"`
}

func (c Chunk) KindStr() string {
	var s string
	if json.Unmarshal(c.Kind, &s) == nil {
		return s
	}
	return ""
}
func (c Chunk) KindInt() int {
	var n int
	json.Unmarshal(c.Kind, &n)
	return n
}

// Outcome is the contract's outcome record.
type Outcome struct {
	OK  bool            `json:"ok"`
	W   int64           `json:"w"`
	H   int64           `json:"h"`
	BPC int64           `json:"bpc"`
	ICC json.RawMessage `json:"icc"`
}

func (o Outcome) Key() string {
	return fmt.Sprintf("%v/%d/%d/%d/%s", o.OK, o.W, o.H, o.BPC, compact(o.ICC))
}
func compact(r json.RawMessage) string {
	var b bytes.Buffer
	json.Compact(&b, r)
	return b.String()
}

// Case is one line printed by TLC for Containers.tla.
type Case struct {
	Fmt     string          `json:"fmt"`
	FileRaw json.RawMessage `json:"file"`
	File    []Chunk         `json:"-"`
	Allowed []Outcome       `json:"allowed"`
	Impl    Outcome         `json:"impl"`
}

// ParseCase decodes one TLC-printed line.
func ParseCase(line []byte) (Case, error) {
	var c Case
	if err := json.Unmarshal(line, &c); err != nil {
		return c, err
	}
	err := json.Unmarshal(c.FileRaw, &c.File)
	return c, err
}

// PNGPayload / JPEGPayload / WebPPayload: the payload tables (pid -> bytes).
// Sizes straddle every internal buffer boundary named by C06.
// profileShaped is payload 9: a complete ICC profile (its first four bytes give its size) followed
// by bytes that size field does not count - zeros, or (variant 2) a size field larger than what follows.
// Embedded profiles are opaque: every byte of the payload is the profile.
func profileShaped(variant int, seed uint32) []byte {
	p := gen.SimpleProfile(360, "payload nine", true, seed)
	switch variant % 3 {
	case 0:
		return append(p, make([]byte, 40)...)
	case 1:
		return append(p, make([]byte, 3)...)
	}
	p[2], p[3] = 0x02, 0x58 // declares 600 bytes
	return append(p, make([]byte, 40)...)
}

func PNGPayload(pid int, variant int) []byte {
	switch pid {
	case 9:
		return profileShaped(variant, 91)
	case 1:
		return []byte{byte(0x41 + variant)}
	case 2:
		return gen.Payload(500+variant, 2, true)
	case 3:
		return gen.Payload(4095, 3, false)
	case 4:
		return gen.Payload(4096, 4, false)
	case 5:
		return gen.Payload(4097, 5, false)
	case 6:
		return gen.Payload(70000+variant, 6, false)
	case 7:
		return gen.Payload(3<<20, 7, true)
	case 8:
		return gen.Payload(5<<20+1, 8, false) // several MiB, incompressible
	}
	panic("bad pid")
}

// JPEGPayload: per-chunk payloads. pid 2 is the largest payload an APP2 segment
// can carry (65519 bytes), pid 3 sits just above the bufio window.
func JPEGPayload(pid int, variant int) []byte {
	switch pid {
	case 9:
		return profileShaped(variant, 92)
	case 1:
		if variant == 1 {
			return gen.Payload(65518, 11, false)
		}
		return []byte{byte(0x61 + variant)}
	case 2:
		return gen.Payload(gen.MaxICCChunk, 12, false)
	case 3:
		return gen.Payload(4097, 13, true)
	}
	if pid >= 1000 { // per-chunk payloads of the many-chunk profiles: size and content coded by pid
		return gen.Payload(1+(pid*37)%300, uint32(pid), pid%2 == 0)
	}
	if pid >= 100 { // full-size chunks (65519 bytes) with distinct contents
		return gen.Payload(gen.MaxICCChunk, uint32(pid), false)
	}
	panic("bad pid")
}

func WebPPayload(pid int, variant int) []byte {
	switch pid {
	case 9:
		return profileShaped(variant, 93)
	case 1:
		return []byte{byte(0x51 + variant)} // odd length: padded
	case 2:
		return gen.Payload(500+variant, 22, true)
	case 3:
		return gen.Payload(4095, 23, false)
	case 4:
		return gen.Payload(4096, 24, false)
	case 5:
		return gen.Payload(4097, 25, false)
	case 6:
		return gen.Payload(1<<20+1, 26, false)
	case 8:
		return gen.Payload(6<<20, 28, false)
	}
	panic("bad pid")
}

var pcache = map[string][]byte{}
var pcacheMu sync.Mutex

func Payload(fmtName string, pid, variant int) []byte {
	k := fmt.Sprintf("%s/%d/%d", fmtName, pid, variant)
	pcacheMu.Lock()
	defer pcacheMu.Unlock()
	if v, ok := pcache[k]; ok {
		return v
	}
	v := payload(fmtName, pid, variant)
	pcache[k] = v
	return v
}

func payload(fmtName string, pid, variant int) []byte {
	switch fmtName {
	case "png":
		return PNGPayload(pid, variant)
	case "jpeg":
		return JPEGPayload(pid, variant)
	}
	return WebPPayload(pid, variant)
}

// Built is a concretised file.
type Built struct {
	Data   []byte
	Layout gen.Layout
	HasICC bool
}

var zcache = map[string][]byte{}
var cacheMu sync.Mutex

// zstreamFor memoises the deflate streams (the same payload is embedded in
// thousands of abstract files).
func zstreamFor(z string, pid, variant int) []byte {
	k := fmt.Sprintf("%s/%d/%d", z, pid, variant)
	cacheMu.Lock()
	defer cacheMu.Unlock()
	if v, ok := zcache[k]; ok {
		return v
	}
	v := zstream(z, PNGPayload(pid, variant))
	zcache[k] = v
	return v
}

func zstream(z string, data []byte) []byte {
	switch z {
	case "ok0":
		return gen.Deflate(data, 0)
	case "ok6":
		return gen.Deflate(data, 6)
	case "ok9":
		return gen.Deflate(data, 9)
	case "trunc":
		d := gen.Deflate(data, 6)
		return d[:len(d)/2]
	case "badhdr":
		d := gen.Deflate(data, 6)
		d[0] = 0x77
		return d
	case "badsum":
		d := gen.Deflate(data, 6)
		d[len(d)-1] ^= 0x5a
		return d
	case "fixed": // one final block with the fixed Huffman code (literals only), the way zlib / libpng emit tiny streams
		return gen.DeflateFixed(data)
	case "badblock": // valid zlib header, then a reserved block type: inflation stops at once, most of the chunk unread
		d := gen.Deflate(data, 6)
		d[2] = 0x07
		return d
	}
	panic("bad z " + z)
}

const win = 4096

// Build concretises an abstract file. variant selects among equivalent
// concretisations (payload contents, ancillary chunk sizes and types,
// sampling factors).
func Build(c Case, variant int) Built {
	switch c.Fmt {
	case "png":
		return buildPNG(c, variant)
	case "jpeg":
		return buildJPEG(c, variant)
	case "webp":
		return buildWebP(c, variant)
	}
	panic("bad fmt")
}

func buildPNG(c Case, variant int) Built {
	var chunks []gen.PNGChunk
	pos := 8
	hasICC := false
	add := func(ch gen.PNGChunk) {
		chunks = append(chunks, ch)
		pos += 12 + len(ch.Data)
	}
	ancTypes := []string{"tEXt", "gAMA", "pHYs", "zTXt", "tIME"}
	sbitLen := 0
	for k, a := range c.File {
		switch a.T {
		case "IHDR":
			sbitLen = map[int]int{0: 1, 2: 3, 3: 0, 4: 2, 6: 4}[int(a.CT)] // 0: no sBIT (it would have to precede PLTE)
			add(gen.IHDR(uint32(a.W), uint32(a.H), byte(a.D), byte(a.CT), byte(a.IL)))
			if a.CT == 3 {
				add(gen.Chunk("PLTE", []byte{0, 0, 0, 255, 255, 255}))
			}
		case "anc":
			n := 9 + variant*3
			if a.Size == "big" {
				n = 5000 + 1000*variant
			}
			if strings.HasPrefix(a.Size, "pad:") { // exact size: places what follows at a chosen offset
				n, _ = strconv.Atoi(a.Size[4:])
			}
			if a.Size == "small" && (k+variant)%3 == 1 && sbitLen > 0 {
				// significant bits: every channel narrower than the stored depth (the stored depth stays the depth)
				add(gen.Chunk("sBIT", []byte{1, 1, 1, 1}[:sbitLen]))
			} else if a.Size == "small" && (k+variant)%3 == 0 {
				add(gen.Chunk("eXIf", gen.ExifThumb(false))) // Exif with a JPEG thumbnail inside
			} else {
				add(gen.Chunk(ancTypes[(k+variant)%len(ancTypes)], gen.Payload(n, uint32(k), true)))
			}
		case "iCCP":
			hasICC = true
			// profile names are Latin-1: printable ASCII and 161..255 (PNG 11.3.3.3); every other
			// character of a longer name is taken from the upper range
			name := bytes.Repeat([]byte{'n'}, a.Name)
			for q := 1; q < len(name); q += 2 {
				name[q] = byte(0xA1 + (q*37+variant)%95)
				if a.NameCh != 0 {
					name[q] = byte(a.NameCh)
				}
			}
			z := zstreamFor(a.Z, a.Pid, variant)
			var d []byte
			if a.Name == 80 {
				d = append(append([]byte{}, name...), z...) // no terminator within 80 bytes
			} else {
				d = append(append(append([]byte{}, name...), 0, byte(a.Method)), z...)
			}
			dataStart := pos + 8 + a.Name + 2
			dataLen := len(z)
			crosses := dataStart/win != (dataStart+dataLen-1)/win
			if dataLen < win && crosses != a.Cross {
				// insert a filler chunk so that the data does / does not straddle a window
				want := 0
				if a.Cross {
					want = win - dataLen/2 // data starts dataLen/2 before the boundary
				} else {
					want = 64
				}
				fill := 0
				for (dataStart+12+fill)%win != want%win {
					fill++
				}
				add(gen.Chunk("fiLl", gen.Payload(fill, 99, true)))
			}
			add(gen.PNGChunk{Type: "iCCP", Data: d, DeclLen: -1})
		case "IDAT":
			add(gen.Chunk("IDAT", gen.Payload(300+variant, 5, false)))
		case "IEND":
			add(gen.Chunk("IEND", nil))
		}
	}
	data, l := gen.BuildPNG(chunks)
	return Built{data, l, hasICC}
}

func buildJPEG(c Case, variant int) Built {
	segs := []gen.JSeg{gen.SOI()}
	hasICC := false
	nc := 3
	for _, a := range c.File {
		switch a.T {
		case "SOF":
			marker := byte(0xC0)
			if a.KindInt() == 2 {
				marker = 0xC2
			}
			hv := []byte{0x11, 0x22, 0x21, 0x12}[variant%4]
			nc = a.NC
			segs = append(segs, gen.SOF(marker, byte(a.P), uint16(a.H), uint16(a.W), gen.StdComps(a.NC, hv)))
		case "ICC":
			hasICC = true
			segs = append(segs, gen.ICCSeg(byte(a.Seq), byte(a.Total), JPEGPayload(a.Pid, variant)))
		case "OTHER":
			switch k := a.KindStr(); {
			case k == "dqt":
				segs = append(segs, gen.DQT(0), gen.DQT(1))
			case k == "dht":
				segs = append(segs, gen.DHT(0, 0), gen.DHT(1, 0))
			case k == "com":
				segs = append(segs, gen.COM(gen.Payload(40+variant, 3, true)))
			case k == "dri":
				segs = append(segs, gen.DRI(uint16(4+variant)))
			case k == "fill": // fill bytes ahead of whatever marker comes next (T.81 B.1.1.2)
				segs = append(segs, gen.Fill(1+variant%3))
			case k == "fillcom": // ... and ahead of a comment
				c := gen.COM(gen.Payload(9+variant, 4, true))
				c.Fill = 2
				segs = append(segs, c)
			case k == "app2short": // APP2 that is not an ICC segment and shorter than the 12-byte identifier
				segs = append(segs, gen.APP(2, []byte("MPF")))
			case k == "app2empty":
				segs = append(segs, gen.APP(2, nil))
			case k == "app2almost": // the identifier and nothing else (no chunk number / total)
				segs = append(segs, gen.APP(2, []byte("ICC_PROFILE\x00")), gen.APP(2, []byte("ICC_PROFILE\x00\x01")))
			case k == "app0":
				segs = append(segs, gen.JFIF())
			case k == "app14": // Adobe marker as image/jpeg expects it
				segs = append(segs, gen.APP(14, []byte{'A', 'd', 'o', 'b', 'e', 0, 100, 0, 0, 0, 0, 1}))
			case strings.HasPrefix(k, "app") && k != "app1":
				n, _ := strconv.Atoi(k[3:])
				segs = append(segs, gen.APP(n, gen.Payload(24+variant, uint32(n), true)))
			default:
				switch variant % 4 {
				case 0: // Exif with a JPEG thumbnail of other dimensions inside
					segs = append(segs, gen.APP(1, gen.ExifThumb(true)))
				case 1:
					segs = append(segs, gen.COM(gen.Payload(5000, 2, true)))
				case 2:
					segs = append(segs, gen.APP(2, []byte("ICC_PROFILX\x00\x01\x01zz"))) // APP2, not ICC
				case 3:
					segs = append(segs, gen.APP(2, []byte("short")), gen.DRI(4))
				}
			}
		case "SOS":
			segs = append(segs, gen.SOS(nc, gen.EntropyBytes(200+variant, 9)), gen.EOI())
		}
	}
	data, l := gen.BuildJPEG(segs)
	return Built{data, l, hasICC}
}

func buildWebP(c Case, variant int) Built {
	var chunks []gen.WChunk
	hasICC := false
	for k, a := range c.File {
		switch a.T {
		case "VP8":
			// the frame tag's other fields (bitstream version, show_frame, the 19-bit size of the first
			// partition) take all their values across the files: dimensions do not depend on them
			sizes := []int{32 + 2*variant, 300, 1100, 2100, 4100, 32 + 2*variant, 3000, 32 + 2*variant}
			n := sizes[int(a.W+3*a.H)%len(sizes)]
			if (a.W+a.H)%97 == 0 {
				n = []int{9000, 20000, 40000, 70000, 140000, 270000, 524287}[int(a.W+a.H)/97%7]
			}
			chunks = append(chunks, gen.VP8Tag(uint16(a.W), uint16(a.H), byte(a.WS), byte(a.HS), gen.VP8Body(n), byte((a.W+a.H)%4), (a.W+2*a.H)%5 != 0))
		case "VP8L":
			// the lossless bitstream after the 5-byte header may be very short (a solid colour needs a few
			// bytes): payloads of 5, 6 and 8 bytes as well as ordinary ones
			bl := []int{20 + variant, 3, 0, 1, 20 + variant}[int(a.W+2*a.H)%5]
			chunks = append(chunks, gen.VP8L(uint32(a.W), uint32(a.H), a.Alpha, gen.Payload(bl, 3, false)))
		case "VP8X":
			var fl byte
			if a.ICCF {
				fl |= 0x20
			}
			if a.Alpha {
				fl |= 0x10
			}
			if a.Exif {
				fl |= 0x08
			}
			if a.XMP {
				fl |= 0x04
			}
			chunks = append(chunks, gen.VP8X(fl, uint32(a.W), uint32(a.H)))
			if k == 0 && a.ICCF {
				hasICC = true
			}
		case "ICCP":
			chunks = append(chunks, gen.WC("ICCP", WebPPayload(a.Pid, variant)))
		case "OTHERW":
			if a.KindStr() == "EXIF" && variant%2 == 0 {
				chunks = append(chunks, gen.WC("EXIF", gen.ExifThumb(variant%4 == 2))) // with a JPEG thumbnail inside
			} else {
				chunks = append(chunks, gen.WC(a.KindStr(), gen.Payload(7+variant, 4, true)))
			}
		}
	}
	data, l := gen.BuildWebP(chunks, -1)
	return Built{data, l, hasICC}
}

// Project maps an observation onto the contract's outcome record, recognising
// ICC bytes as payload identities by comparing them with every "data" outcome
// the contract allows (unknown bytes become ["data", [-1]]).
func Project(c Case, variant int, o *obs.Obs) Outcome {
	if !o.OK || !o.HasMD {
		return Outcome{ICC: json.RawMessage(`["none"]`)}
	}
	out := Outcome{OK: true, W: int64(o.W), H: int64(o.H), BPC: int64(o.BPC)}
	switch o.ICC {
	case "none":
		out.ICC = json.RawMessage(`["none"]`)
	case "err":
		out.ICC = json.RawMessage(`["err"]`)
	case "mutated-after-later-loads":
		out.ICC = json.RawMessage(`["mutated-after-later-loads"]`)
	case "data":
		out.ICC = json.RawMessage(`["data",[-1]]`)
		seen := map[string]bool{}
		try := func(raw json.RawMessage) bool {
			var t []json.RawMessage
			if json.Unmarshal(raw, &t) != nil || len(t) != 2 {
				return false
			}
			var tag string
			json.Unmarshal(t[0], &tag)
			if tag != "data" {
				return false
			}
			var ids []int
			json.Unmarshal(t[1], &ids)
			var want []byte
			for _, id := range ids {
				want = append(want, Payload(c.Fmt, id, variant)...)
			}
			if bytes.Equal(want, o.ICCData()) {
				out.ICC = json.RawMessage(compact(raw))
				return true
			}
			return false
		}
		for _, a := range c.Allowed {
			k := compact(a.ICC)
			if !seen[k] {
				seen[k] = true
				if try(a.ICC) {
					return out
				}
			}
		}
		// candidates read off the abstract file itself (used when no Allowed set came
		// with the case): the ICC payload ids in sequence-number order / the single pid.
		// This only NAMES the observed bytes; TLC decides whether that identity is allowed.
		var ids []int
		type sp struct{ seq, pid int }
		var segs []sp
		for _, ch := range c.File {
			switch ch.T {
			case "ICC":
				segs = append(segs, sp{ch.Seq, ch.Pid})
			case "iCCP", "ICCP":
				if ids == nil {
					ids = []int{ch.Pid}
				}
			}
		}
		if len(segs) > 0 {
			sort.SliceStable(segs, func(i, j int) bool { return segs[i].seq < segs[j].seq })
			for _, s := range segs {
				ids = append(ids, s.pid)
			}
		}
		if ids != nil {
			js, _ := json.Marshal([]interface{}{"data", ids})
			if try(js) {
				return out
			}
		}
		// not an allowed identity: still name it if it is a single known payload
		for pid := 1; pid <= 7; pid++ {
			func() {
				defer func() { recover() }()
				if bytes.Equal(Payload(c.Fmt, pid, variant), o.ICCData()) {
					out.ICC = json.RawMessage(fmt.Sprintf(`["data",[%d]]`, pid))
				}
			}()
		}
	default:
		out.ICC = json.RawMessage(fmt.Sprintf(`[%q]`, o.ICC))
	}
	return out
}
