package gen

import "bytes"

// JSeg is one JPEG marker segment. DeclLen < 0 means "len(Data)+2"; markers
// without a length field (SOI, EOI, RSTn) have NoLen set.
type JSeg struct {
	Marker  byte
	Data    []byte
	DeclLen int
	NoLen   bool
	Entropy []byte // raw bytes following the segment (after SOS)
	Fill    int    // fill bytes (0xFF) ahead of the marker: ITU-T T.81 B.1.1.2 allows any number
}

// Fill is a run of n fill bytes with no marker of its own: they precede whatever marker comes next.
func Fill(n int) JSeg { return JSeg{Fill: n, Marker: 0, DeclLen: -1} }

func SOI() JSeg { return JSeg{Marker: 0xD8, NoLen: true, DeclLen: -1} }
func EOI() JSeg { return JSeg{Marker: 0xD9, NoLen: true, DeclLen: -1} }

func Seg(marker byte, data []byte) JSeg { return JSeg{Marker: marker, Data: data, DeclLen: -1} }

func APP(n int, payload []byte) JSeg { return Seg(byte(0xE0+n), payload) }
func COM(payload []byte) JSeg        { return Seg(0xFE, payload) }

// JFIF is a valid APP0 JFIF header.
func JFIF() JSeg {
	return APP(0, []byte{'J', 'F', 'I', 'F', 0, 1, 1, 0, 0, 1, 0, 1, 0, 0})
}

// DQT is one valid 8-bit quantisation table with id tq.
func DQT(tq byte) JSeg {
	d := make([]byte, 65)
	d[0] = tq & 3
	for i := 1; i < 65; i++ {
		d[i] = 1
	}
	return Seg(0xDB, d)
}

// DHT is one valid minimal Huffman table (class tc, id th).
func DHT(tc, th byte) JSeg {
	d := make([]byte, 17+1)
	d[0] = tc<<4 | th
	d[1] = 1 // one code of length 1
	d[17] = 0
	return Seg(0xC4, d)
}

func DRI(interval uint16) JSeg { return Seg(0xDD, []byte{byte(interval >> 8), byte(interval)}) }

// JComp is a frame component.
type JComp struct{ ID, HV, TQ byte }

// SOF builds a start-of-frame segment (marker 0xC0 baseline, 0xC2 progressive).
func SOF(marker byte, precision byte, h, w uint16, comps []JComp) JSeg {
	d := []byte{precision, byte(h >> 8), byte(h), byte(w >> 8), byte(w), byte(len(comps))}
	for _, c := range comps {
		d = append(d, c.ID, c.HV, c.TQ)
	}
	return Seg(marker, d)
}

// StdComps returns a legal component list for 1, 3 or 4 components with the
// given luma sampling factor byte (e.g. 0x22 for 4:2:0).
func StdComps(n int, lumaHV byte) []JComp {
	switch n {
	case 1:
		return []JComp{{1, 0x11, 0}}
	case 3:
		return []JComp{{1, lumaHV, 0}, {2, 0x11, 1}, {3, 0x11, 1}}
	case 4:
		return []JComp{{1, lumaHV, 0}, {2, lumaHV, 0}, {3, lumaHV, 0}, {4, lumaHV, 0}}
	}
	c := make([]JComp, n)
	for i := range c {
		c[i] = JComp{byte(i + 1), 0x11, 0}
	}
	return c
}

var ICCIdent = []byte("ICC_PROFILE\x00")

// ICCSeg is an APP2 ICC_PROFILE segment carrying chunk seq of total.
func ICCSeg(seq, total byte, payload []byte) JSeg {
	d := append(append([]byte{}, ICCIdent...), seq, total)
	d = append(d, payload...)
	return APP(2, d)
}

// SOS builds a start-of-scan header followed by entropy-coded bytes.
func SOS(ncomp int, entropy []byte) JSeg {
	d := []byte{byte(ncomp)}
	for i := 0; i < ncomp; i++ {
		d = append(d, byte(i+1), 0x00)
	}
	d = append(d, 0, 63, 0)
	s := Seg(0xDA, d)
	s.Entropy = entropy
	return s
}

// EntropyBytes produces n bytes that are legal inside a scan (0xFF is stuffed).
func EntropyBytes(n int, seed uint32) []byte {
	p := Payload(n, seed, false)
	for i := range p {
		if p[i] == 0xFF {
			p[i] = 0xFE
		}
	}
	return p
}

// BuildJPEG serialises the segments and computes the layout.
func BuildJPEG(segs []JSeg) ([]byte, Layout) {
	var b bytes.Buffer
	var l Layout
	for _, s := range segs {
		for i := 0; i < s.Fill; i++ {
			b.WriteByte(0xFF)
		}
		if s.Marker == 0 { // fill bytes only
			continue
		}
		b.WriteByte(0xFF)
		b.WriteByte(s.Marker)
		if !s.NoLen {
			n := len(s.Data) + 2
			if s.DeclLen >= 0 {
				n = s.DeclLen
			}
			b.WriteByte(byte(n >> 8))
			b.WriteByte(byte(n))
		}
		b.Write(s.Data)
		switch {
		case (s.Marker == 0xC0 || s.Marker == 0xC2) && l.HeaderEnd == 0:
			l.HeaderEnd = b.Len()
		case s.Marker == 0xE2 && l.PixStart == 0 && len(s.Data) >= 14 && bytes.Equal(s.Data[:12], ICCIdent):
			l.ICCEnd = b.Len()
		case (s.Marker == 0xDA || s.Marker == 0xD9) && l.PixStart == 0:
			l.PixStart = b.Len()
		}
		b.Write(s.Entropy)
	}
	l.Total = b.Len()
	if l.PixStart == 0 {
		l.PixStart = l.Total
	}
	return b.Bytes(), l
}

// SplitICC cuts a profile into n APP2 payloads (as evenly as the 65519 limit allows).
func SplitICC(profile []byte, n int) [][]byte {
	out := make([][]byte, n)
	per := (len(profile) + n - 1) / n
	for i := 0; i < n; i++ {
		lo := i * per
		hi := lo + per
		if lo > len(profile) {
			lo = len(profile)
		}
		if hi > len(profile) {
			hi = len(profile)
		}
		out[i] = profile[lo:hi]
	}
	return out
}

const MaxICCChunk = 65533 - 14 // 65519 bytes of payload per APP2 segment

// ExifThumb is an Exif block (TIFF header, a few filler bytes) carrying a complete baseline JPEG
// thumbnail of 16x12 pixels: metadata of this kind is what real APP1 / EXIF / eXIf payloads hold, and
// a container parser must not mistake the thumbnail's markers for the container's own.
func ExifThumb(withPrefix bool) []byte {
	thumb, _ := BuildJPEG([]JSeg{SOI(), JFIF(), DQT(0), SOF(0xC0, 8, 12, 16, StdComps(3, 0x22)), DHT(0, 0), SOS(3, EntropyBytes(40, 8)), EOI()})
	var b []byte
	if withPrefix {
		b = append(b, 'E', 'x', 'i', 'f', 0, 0)
	}
	b = append(b, 'M', 'M', 0, 42, 0, 0, 0, 8, 0, 0, 0, 0, 0, 0)
	return append(b, thumb...)
}
