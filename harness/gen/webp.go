package gen

import (
	"bytes"
	"encoding/binary"
)

// WChunk is one RIFF chunk. DeclLen < 0 means len(Data).
type WChunk struct {
	FourCC  string
	Data    []byte
	DeclLen int64
}

func WC(fourcc string, data []byte) WChunk { return WChunk{FourCC: fourcc, Data: data, DeclLen: -1} }

// VP8 builds a lossy key-frame chunk payload: frame tag, start code, 14-bit
// width/height with 2-bit scale each, then body bytes (first partition data).
func VP8(w, h uint16, wscale, hscale byte, body []byte) WChunk {
	return VP8Tag(w, h, wscale, hscale, body, 0, true)
}

// VP8Tag is VP8 with the frame tag's bitstream version (0..3) and show_frame bit chosen.
func VP8Tag(w, h uint16, wscale, hscale byte, body []byte, version byte, show bool) WChunk {
	partLen := uint32(len(body))
	tag := uint32(0) | uint32(version&7)<<1 | partLen<<5 // bit 0 clear: key frame
	if show {
		tag |= 1 << 4
	}
	d := []byte{byte(tag), byte(tag >> 8), byte(tag >> 16), 0x9d, 0x01, 0x2a,
		byte(w), byte(w>>8)&0x3f | wscale<<6, byte(h), byte(h>>8)&0x3f | hscale<<6}
	d = append(d, body...)
	return WC("VP8 ", d)
}

// VP8L builds a lossless chunk payload: 0x2f, then 14 bits width-1, 14 bits
// height-1, alpha flag, 3-bit version.
func VP8L(w, h uint32, alpha bool, body []byte) WChunk {
	v := (w-1)&0x3fff | ((h-1)&0x3fff)<<14
	if alpha {
		v |= 1 << 28
	}
	d := []byte{0x2f, byte(v), byte(v >> 8), byte(v >> 16), byte(v >> 24)}
	d = append(d, body...)
	return WC("VP8L", d)
}

// VP8X builds the extended header: flags, 3 reserved bytes, 24-bit canvas
// width-1 and height-1.
func VP8X(flags byte, w, h uint32) WChunk {
	d := []byte{flags, 0, 0, 0,
		byte(w - 1), byte((w - 1) >> 8), byte((w - 1) >> 16),
		byte(h - 1), byte((h - 1) >> 8), byte((h - 1) >> 16)}
	return WC("VP8X", d)
}

const VP8XICC = 0x20

// BuildWebP serialises RIFF/WEBP + chunks and computes the layout.
// riffLen < 0 means the correct size.
func BuildWebP(chunks []WChunk, riffLen int64) ([]byte, Layout) {
	var body bytes.Buffer
	var l Layout
	body.WriteString("WEBP")
	for i, c := range chunks {
		var hdr [8]byte
		copy(hdr[:4], c.FourCC)
		n := uint32(len(c.Data))
		if c.DeclLen >= 0 {
			n = uint32(c.DeclLen)
		}
		binary.LittleEndian.PutUint32(hdr[4:], n)
		body.Write(hdr[:])
		start := 8 + body.Len()
		body.Write(c.Data)
		if len(c.Data)%2 == 1 {
			body.WriteByte(0)
		}
		end := 8 + body.Len()
		if i == 0 {
			switch c.FourCC {
			case "VP8 ":
				l.HeaderEnd = start + 10
				l.PixStart = l.HeaderEnd
			case "VP8L":
				l.HeaderEnd = start + 5
				l.PixStart = l.HeaderEnd
			case "VP8X":
				l.HeaderEnd = start + 10
				l.PixStart = l.HeaderEnd
			}
		}
		if c.FourCC == "ICCP" && l.ICCEnd == 0 {
			l.ICCEnd = end
		}
	}
	var out bytes.Buffer
	out.WriteString("RIFF")
	var sz [4]byte
	n := uint32(body.Len())
	if riffLen >= 0 {
		n = uint32(riffLen)
	}
	binary.LittleEndian.PutUint32(sz[:], n)
	out.Write(sz[:])
	out.Write(body.Bytes())
	l.Total = out.Len()
	if l.HeaderEnd > l.Total {
		l.HeaderEnd = l.Total
	}
	if l.PixStart == 0 || l.PixStart > l.Total {
		l.PixStart = l.Total
	}
	return out.Bytes(), l
}

// VP8Body returns n bytes usable as a VP8 first partition (all zero bits decode
// as a legal, if meaningless, frame header for DecodeConfig).
func VP8Body(n int) []byte { return make([]byte, n) }
