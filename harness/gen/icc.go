package gen

import (
	"encoding/binary"
	"unicode/utf16"
)

// ICCHeader returns a 128-byte header with the 'acsp' signature, version 4.3,
// and otherwise recognisable filler; callers overwrite fields as needed.
func ICCHeader(size uint32) []byte {
	h := make([]byte, 128)
	binary.BigEndian.PutUint32(h[0:], size)
	copy(h[4:], "appl")
	h[8], h[9] = 4, 0x30
	copy(h[12:], "mntr")
	copy(h[16:], "RGB ")
	copy(h[20:], "XYZ ")
	// 2020-02-03 04:05:06
	for i, v := range []uint16{2020, 2, 3, 4, 5, 6} {
		binary.BigEndian.PutUint16(h[24+2*i:], v)
	}
	copy(h[36:], "acsp")
	copy(h[40:], "APPL")
	copy(h[48:], "manu")
	copy(h[52:], "modl")
	binary.BigEndian.PutUint32(h[68:], 0x0000F6D6)
	binary.BigEndian.PutUint32(h[72:], 0x00010000)
	binary.BigEndian.PutUint32(h[76:], 0x0000D32D)
	copy(h[80:], "crea")
	return h
}

// ICCTag is one tag-table entry. Block selects the data block it points at;
// several tags may name the same block (shared data).
type ICCTag struct {
	Sig   string
	Block int
}

// ICCBlock is one tag data element placed in the file.
type ICCBlock struct {
	Data []byte
	Gap  int // padding bytes inserted before this block (0..3)
}

// ICCOverride lets hostile-input generators overwrite fields after layout.
type ICCOverride struct {
	TagCount  int64 // <0: real
	ProfSize  int64
	TagOffset map[int]int64 // tag index -> declared offset
	TagSize   map[int]int64 // tag index -> declared size
}

// BuildICC lays out header, tag table (in the order of tags) and the blocks in
// the order given by blockOrder (a permutation of block indices).
func BuildICC(hdr []byte, tags []ICCTag, blocks []ICCBlock, blockOrder []int, ov *ICCOverride) []byte {
	if hdr == nil {
		hdr = ICCHeader(0)
	}
	out := append([]byte{}, hdr...)
	tabLen := 4 + 12*len(tags)
	pos := 128 + tabLen
	off := make([]int, len(blocks))
	var data []byte
	if blockOrder == nil {
		for i := range blocks {
			blockOrder = append(blockOrder, i)
		}
	}
	for _, bi := range blockOrder {
		b := blocks[bi]
		for g := 0; g < b.Gap; g++ {
			data = append(data, 0)
			pos++
		}
		off[bi] = pos
		data = append(data, b.Data...)
		pos += len(b.Data)
	}
	tab := make([]byte, tabLen)
	tc := uint32(len(tags))
	if ov != nil && ov.TagCount >= 0 {
		tc = uint32(ov.TagCount)
	}
	binary.BigEndian.PutUint32(tab, tc)
	for i, t := range tags {
		e := tab[4+12*i:]
		copy(e[0:4], t.Sig)
		o, s := uint32(off[t.Block]), uint32(len(blocks[t.Block].Data))
		if ov != nil {
			if v, ok := ov.TagOffset[i]; ok {
				o = uint32(v)
			}
			if v, ok := ov.TagSize[i]; ok {
				s = uint32(v)
			}
		}
		binary.BigEndian.PutUint32(e[4:], o)
		binary.BigEndian.PutUint32(e[8:], s)
	}
	out = append(out, tab...)
	out = append(out, data...)
	sz := uint32(len(out))
	if ov != nil && ov.ProfSize >= 0 {
		sz = uint32(ov.ProfSize)
	}
	binary.BigEndian.PutUint32(out[0:], sz)
	return out
}

// TextDesc builds a v2 textDescriptionType element for an ASCII string
// (count includes the terminating NUL), with empty Unicode and ScriptCode parts.
func TextDesc(ascii string) []byte {
	return TextDescRaw(uint32(len(ascii)+1), append([]byte(ascii), 0), true)
}

// TextDescFull is a complete v2 textDescription: the ASCII form, a Unicode form (UTF-16BE, with its
// own count and terminating null) that need not say the same, and an empty ScriptCode form.
func TextDescFull(ascii, uni string) []byte {
	d := TextDescRaw(uint32(len(ascii)+1), append([]byte(ascii), 0), false)
	u := utf16.Encode([]rune(uni))
	d = append(d, 0, 0, 0, 0) // Unicode language code
	var n [4]byte
	binary.BigEndian.PutUint32(n[:], uint32(len(u)+1))
	d = append(d, n[:]...)
	for _, c := range u {
		d = append(d, byte(c>>8), byte(c))
	}
	d = append(d, 0, 0)
	return append(d, make([]byte, 2+1+67)...)
}

// TextDescRaw lets the ASCII count be declared independently of the bytes.
func TextDescRaw(count uint32, asciiBytes []byte, tail bool) []byte {
	d := []byte{'d', 'e', 's', 'c', 0, 0, 0, 0, 0, 0, 0, 0}
	binary.BigEndian.PutUint32(d[8:], count)
	d = append(d, asciiBytes...)
	if tail {
		d = append(d, make([]byte, 4+4+2+1+67)...)
	}
	return d
}

// MlucRec is one multiLocalizedUnicode record.
type MlucRec struct {
	Lang, Country string
	Text          string
}

// Mluc builds a multiLocalizedUnicodeType element. place selects where the
// strings go relative to the record table:
//
//	"table"   strings in record order, contiguous
//	"reverse" strings in reverse record order
//	"shared"  every record points at the first record's string
//	"gapped"  record order with 2 bytes of padding before each string
//	"overlap" record i's string is a prefix-sharing overlap of one long string
//
// recSize is the declared record size (12 normally; larger adds padding).
// It returns the element and, per record, the string stored at its declared
// (offset, length) so that callers know the expected description.
func Mluc(recs []MlucRec, place string, recSize int) ([]byte, []string) {
	if recSize < 12 {
		recSize = 12
	}
	n := len(recs)
	head := 16 + n*recSize
	enc := make([][]byte, n)
	for i, r := range recs {
		u := utf16.Encode([]rune(r.Text))
		b := make([]byte, 2*len(u))
		for j, c := range u {
			binary.BigEndian.PutUint16(b[2*j:], c)
		}
		enc[i] = b
	}
	offs := make([]int, n)
	lens := make([]int, n)
	var strs []byte
	switch place {
	case "reverse":
		for i := n - 1; i >= 0; i-- {
			offs[i] = head + len(strs)
			lens[i] = len(enc[i])
			strs = append(strs, enc[i]...)
		}
	case "shared":
		strs = append(strs, enc[0]...)
		for i := range recs {
			offs[i], lens[i] = head, len(enc[0])
		}
	case "gapped":
		for i := 0; i < n; i++ {
			// gaps of one and of two bytes in turn: strings start at odd and at even offsets (the
			// format aligns tags, not the strings inside an mluc tag)
			strs = append(strs, 0)
			if i%2 == 1 {
				strs = append(strs, 0)
			}
			offs[i] = head + len(strs)
			lens[i] = len(enc[i])
			strs = append(strs, enc[i]...)
		}
	case "overlap":
		// one long string (record 0's); record i uses its first len(enc[i]) bytes,
		// clipped to the long string
		strs = append(strs, enc[0]...)
		for i := range recs {
			offs[i] = head
			lens[i] = len(enc[i])
			if lens[i] > len(enc[0]) {
				lens[i] = len(enc[0])
			}
		}
	default:
		for i := 0; i < n; i++ {
			offs[i] = head + len(strs)
			lens[i] = len(enc[i])
			strs = append(strs, enc[i]...)
		}
	}
	d := make([]byte, head)
	copy(d, "mluc")
	binary.BigEndian.PutUint32(d[8:], uint32(n))
	binary.BigEndian.PutUint32(d[12:], uint32(recSize))
	for i, r := range recs {
		e := d[16+i*recSize:]
		copy(e[0:2], r.Lang)
		copy(e[2:4], r.Country)
		binary.BigEndian.PutUint32(e[4:], uint32(lens[i]))
		binary.BigEndian.PutUint32(e[8:], uint32(offs[i]))
	}
	d = append(d, strs...)
	exp := make([]string, n)
	for i := range recs {
		b := d[offs[i] : offs[i]+lens[i]]
		u := make([]uint16, len(b)/2)
		for j := range u {
			u[j] = binary.BigEndian.Uint16(b[2*j:])
		}
		exp[i] = string(utf16.Decode(u))
	}
	return d, exp
}

// SimpleProfile is a well-formed profile of roughly n bytes whose description
// is desc (v2 text when v2 is true, else a one-record mluc), padded with a
// filler tag to reach the requested size.
func SimpleProfile(n int, desc string, v2 bool, seed uint32) []byte {
	var d []byte
	if v2 {
		d = TextDesc(desc)
	} else {
		d, _ = Mluc([]MlucRec{{"en", "US", desc}}, "table", 12)
	}
	fill := n - (128 + 4 + 24 + len(d))
	if fill < 4 {
		fill = 4
	}
	blocks := []ICCBlock{{Data: d}, {Data: Payload(fill, seed, false)}}
	tags := []ICCTag{{"desc", 0}, {"cprt", 1}}
	hdr := ICCHeader(0)
	if v2 {
		hdr[8], hdr[9] = 2, 0x40
	}
	return BuildICC(hdr, tags, blocks, nil, nil)
}
