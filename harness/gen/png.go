// Package gen builds concrete PNG / JPEG / WebP / ICC byte streams from the
// abstract structures used by the TLA+ models (spec/Png.tla, Jpeg.tla, ...).
// Every builder also returns the structural offsets the contracts talk about
// (where the header ends, where the ICC payload ends, where pixel data starts).
package gen

import (
	"bytes"
	"compress/zlib"
	"encoding/binary"
	"hash/crc32"
)

var PNGSig = []byte{0x89, 'P', 'N', 'G', 0x0D, 0x0A, 0x1A, 0x0A}

// Layout records the offsets the LoadContract is phrased in.
type Layout struct {
	HeaderEnd int // end of the structure carrying width/height/depth (incl. CRC/padding)
	ICCEnd    int // end of the last ICC-carrying structure (0 if none)
	PixStart  int // end of the structure that announces pixel data (IDAT header, SOS segment, VP8 frame header)
	Total     int
}

// Needed is LoadContract!Needed: the generous bound on what a loader has to see.
func (l Layout) Needed(hasICC bool) int {
	n := l.PixStart
	if hasICC {
		n = l.HeaderEnd
		if l.ICCEnd > n {
			n = l.ICCEnd
		}
	}
	if n > l.Total {
		n = l.Total
	}
	return n
}

// PNGChunk is one chunk; Len overrides the declared length when >= 0 (hostile files).
type PNGChunk struct {
	Type    string
	Data    []byte
	DeclLen int64 // -1: len(Data)
	BadCRC  bool
}

func Chunk(t string, data []byte) PNGChunk { return PNGChunk{Type: t, Data: data, DeclLen: -1} }

func IHDR(w, h uint32, depth, colorType, interlace byte) PNGChunk {
	d := make([]byte, 13)
	binary.BigEndian.PutUint32(d[0:], w)
	binary.BigEndian.PutUint32(d[4:], h)
	d[8], d[9], d[10], d[11], d[12] = depth, colorType, 0, 0, interlace
	return Chunk("IHDR", d)
}

// Deflate compresses with the given level (0..9, -1 default, -2 huffman only).
func Deflate(data []byte, level int) []byte {
	var b bytes.Buffer
	w, err := zlib.NewWriterLevel(&b, level)
	if err != nil {
		panic(err)
	}
	w.Write(data)
	w.Close()
	return b.Bytes()
}

// ICCP builds an iCCP chunk from already-compressed bytes.
func ICCP(name string, method byte, z []byte) PNGChunk {
	d := append([]byte(name), 0, method)
	d = append(d, z...)
	return Chunk("iCCP", d)
}

// BuildPNG serialises signature + chunks and computes the layout.
func BuildPNG(chunks []PNGChunk) ([]byte, Layout) {
	var b bytes.Buffer
	var l Layout
	b.Write(PNGSig)
	for _, c := range chunks {
		start := b.Len()
		n := uint32(len(c.Data))
		if c.DeclLen >= 0 {
			n = uint32(c.DeclLen)
		}
		var hdr [8]byte
		binary.BigEndian.PutUint32(hdr[:], n)
		copy(hdr[4:], c.Type)
		b.Write(hdr[:])
		b.Write(c.Data)
		crc := crc32.NewIEEE()
		crc.Write(hdr[4:])
		crc.Write(c.Data)
		s := crc.Sum32()
		if c.BadCRC {
			s ^= 0xdeadbeef
		}
		var t [4]byte
		binary.BigEndian.PutUint32(t[:], s)
		b.Write(t[:])
		switch c.Type {
		case "IHDR":
			if l.HeaderEnd == 0 {
				l.HeaderEnd = b.Len()
			}
		case "iCCP":
			if l.ICCEnd == 0 {
				l.ICCEnd = b.Len()
			}
		case "IDAT", "IEND":
			if l.PixStart == 0 {
				l.PixStart = start + 8
			}
		}
	}
	l.Total = b.Len()
	if l.PixStart == 0 {
		l.PixStart = l.Total
	}
	return b.Bytes(), l
}

// PNGChannels is the number of channels for a colour type (0 if illegal).
func PNGChannels(ct byte) int {
	switch ct {
	case 0:
		return 1
	case 2:
		return 3
	case 3:
		return 1
	case 4:
		return 2
	case 6:
		return 4
	}
	return 0
}

// LegalPNGModes lists the 15 legal (colour type, bit depth) pairs.
func LegalPNGModes() [][2]byte {
	return [][2]byte{{0, 1}, {0, 2}, {0, 4}, {0, 8}, {0, 16}, {2, 8}, {2, 16},
		{3, 1}, {3, 2}, {3, 4}, {3, 8}, {4, 8}, {4, 16}, {6, 8}, {6, 16}}
}

// Payload returns n deterministic bytes: compressible (pattern) or not (xorshift).
func Payload(n int, seed uint32, compressible bool) []byte {
	p := make([]byte, n)
	if compressible {
		for i := range p {
			p[i] = byte('A' + (i/7+int(seed))%23)
		}
		return p
	}
	x := seed*2654435761 + 0x9e3779b9
	if x == 0 {
		x = 1
	}
	for i := range p {
		x ^= x << 13
		x ^= x >> 17
		x ^= x << 5
		p[i] = byte(x >> 11)
	}
	return p
}

// DeflateFixed returns a zlib stream holding data in ONE final block coded with the fixed Huffman
// code, literals only (RFC 1951 3.2.6): 2-byte header, the block, Adler-32.  For tiny inputs this is
// shorter than anything compress/flate emits (1 byte of data: 9 bytes in all).
func DeflateFixed(data []byte) []byte {
	out := []byte{0x78, 0x01}
	var acc uint32
	var nbits uint
	put := func(v uint32, n uint) { // n bits of v, least significant first (header bits)
		acc |= v << nbits
		nbits += n
		for nbits >= 8 {
			out = append(out, byte(acc))
			acc >>= 8
			nbits -= 8
		}
	}
	putCode := func(code uint32, n uint) { // Huffman codes are packed most significant bit first
		var rev uint32
		for i := uint(0); i < n; i++ {
			rev = rev<<1 | (code>>i)&1
		}
		put(rev, n)
	}
	put(1, 1) // BFINAL
	put(1, 2) // BTYPE = 01 fixed
	for _, b := range data {
		if b < 144 {
			putCode(0x30+uint32(b), 8)
		} else {
			putCode(0x190+uint32(b)-144, 9)
		}
	}
	putCode(0, 7) // end of block (256)
	if nbits > 0 {
		out = append(out, byte(acc))
	}
	a, bsum := uint32(1), uint32(0)
	for _, x := range data {
		a = (a + uint32(x)) % 65521
		bsum = (bsum + a) % 65521
	}
	ad := bsum<<16 | a
	return append(out, byte(ad>>24), byte(ad>>16), byte(ad>>8), byte(ad))
}
