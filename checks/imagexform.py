"""C10: image linearise/encode is the per-pixel function, everywhere and only there
(spec/ImageXform.tla, ImageXformContract.tla, TraceImageXform.tla)."""
import json
import os

import vlib


def check(pid, tier, args):
    run = vlib.Run(pid, tier)
    drive = vlib.go_build("cmd/drive")
    # 1. design level: all interleavings of the workers on small images
    r = vlib.tlc("MC_ImageXform", "MC_ImageXform_interleave.cfg", heap="3g", coverage=True)
    if r.violated:
        raise vlib.Infra("ImageXform (the code's design) violates %s" % r.violated)
    vlib.require_coverage(r, ["WorkerPixel"])
    run.add_tlc("MC_ImageXform/interleave (MaxW=2 MaxH=3 P<=3, all interleavings)", r)
    for cfg, expect in (("MC_ImageXform_offmax.cfg", "Exact"), ("MC_ImageXform_stripe.cfg", "Exact")):
        r = vlib.tlc("MC_ImageXform", cfg, heap="2g")
        if r.violated not in ("Exact", "InSubImage", "WriteOnce"):
            raise vlib.Infra("mutant design %s not rejected (%s)" % (cfg, r.violated))
        run.add_tlc("MC_ImageXform/%s (expected counterexample)" % cfg, r)
    # 2. generation: every configuration with the specification's write map
    r = vlib.tlc("MC_ImageXform", "MC_ImageXform_gen.cfg", heap="6g", timeout=3000)
    if r.violated or not r.printed:
        raise vlib.Infra("ImageXform generation failed: %s" % r.violated)
    run.add_tlc("MC_ImageXform/gen (MaxW=3 MaxH=3 P<=5, 3 origins x 3 origins, margins, in place)", r)
    # 2b. wide / tall configurations (513, 1025, 4097 columns; 300 rows): the contract's map printed directly
    rw = vlib.tlc("MC_ImageXformWide", "MC_ImageXformWide.cfg", files=["ImageXformContract.tla"], heap="3g", timeout=1200)
    if rw.violated or len(rw.printed) != rw.distinct:
        raise vlib.Infra("wide configurations were not generated: %s" % rw.violated)
    run.add_tlc("MC_ImageXformWide (Expected(cfg) of %d wide / tall configurations)" % len(rw.printed), rw)
    run.cov["wide_configurations"] = len(rw.printed)
    sc = vlib.scratch()
    cases = os.path.join(sc, "cases_xform.ndjson")
    with open(cases, "w") as o:
        for c in r.printed:
            o.write(json.dumps(c) + "\n")
        for c in rw.printed:
            c["wide"] = True
            o.write(json.dumps(c) + "\n")
    # the library's worker pool under the default GOMAXPROCS and under a small one (requested
    # parallelism larger than the processors available): the write map may depend on neither
    passes = [("", None), ("-P2", "2")] if tier == "quick" else [("", None), ("-P2", "2"), ("-P1", "1"), ("-P5", "5")]
    for tag, procs in passes:
        env = dict(vlib.goenv(), GOMAXPROCS=procs) if procs else None
        out = os.path.join(sc, "c10" + tag)
        os.makedirs(out, exist_ok=True)
        cmd = [drive, "imagexform", "-cases", cases, "-out", out, "-tier", tier, "-seed", str(vlib.seed())]
        p = vlib.run(cmd, timeout=3000, check=False, env=env)
        if p.returncode != 0:
            # a panic inside one of the library's worker goroutines cannot be recovered by the
            # caller: the process dies.  That death is an observation of the real code; find
            # the configuration by re-running single-threaded with a marker before each run.
            if "goroutine" not in p.stderr or "mandykoh" not in p.stderr:
                raise vlib.Infra("imagexform driver failed: %s" % p.stderr[-1500:])
            marker = os.path.join(sc, "xform_marker.ndjson")
            p2 = None
            for attempt in range(3):      # a crash that depends on how the library's workers interleave may need a few tries
                p2 = vlib.run(cmd + ["-serial", marker], timeout=6000, check=False, env=env)
                if p2.returncode != 0:
                    break
            if p2.returncode != 0:
                last = json.loads(open(marker).read().strip().splitlines()[-1])
                first_line = [l for l in p2.stderr.splitlines() if l.startswith("panic:") or l.startswith("fatal error:")][:1]
                run.violation({"finding_key": None, "crashing_run": last, "stderr": p2.stderr[:1500]},
                              "process died (%s) in %s %s->%s parallelism %d on cfg %s (GOMAXPROCS %s)" % (
                                  first_line[0] if first_line else "crash", last["xform"], last["src"], last["dst"], last["par"],
                                  json.dumps(last["cfg"]), procs or "default"))
            else:
                # not with one job at a time: observe the whole run again; a second death inside the library
                # is reported with its stack (the configuration stays unknown)
                again = None
                for attempt in range(3):
                    pa = vlib.run(cmd, timeout=3000, check=False, env=env)
                    if pa.returncode != 0 and "goroutine" in pa.stderr and "mandykoh" in pa.stderr:
                        again = pa
                        break
                if again is None:
                    raise vlib.Infra("driver crash did not reproduce: %s" % p.stderr[-1500:])
                first_line = [l for l in again.stderr.splitlines() if l.startswith("panic:") or l.startswith("fatal error:")][:1]
                frames = [l.strip() for l in again.stderr.splitlines() if "mandykoh/prism" in l][:4]
                last = {"note": "died in the concurrent run only; two independent runs", "frames": frames}
                run.violation({"finding_key": None, "stderr_first": p.stderr[:1500], "stderr_second": again.stderr[:1500]},
                              "process died twice (%s) inside the library's workers during the image transforms (GOMAXPROCS %s): %s" % (
                                  first_line[0] if first_line else "crash", procs or "default", "; ".join(frames)[:300]))
            run.cov["traces_validated_against_impl"] = 0
            run.sample(last)
            return run.finish()
        stats = json.loads(p.stdout.strip().splitlines()[-1])
        # 3a. binding G: real transforms, every byte against the specification's map
        nbad = 0
        for l in open(os.path.join(out, "c10_g.ndjson")):
            if '"ok":false' in l:
                ev = json.loads(l)
                nbad += 1
                if len(run.violations) < 10:
                    run.violation({"finding_key": None, "replay_case": ev},
                                  "%s %s->%s parallelism %d on cfg %s: %s" % (ev["xform"], ev["src"], ev["dst"], ev["par"],
                                                                              json.dumps(ev["cfg"]), ev["why"] + (" (GOMAXPROCS %s)" % procs if procs else "")))
        run.cov["replayed_transforms"] = run.cov.get("replayed_transforms", 0) + stats["replays"]
        # 3b. binding T: observed write maps judged by the contract
        results, rejects, lines = vlib.validate_trace("TraceImageXform", "TraceImageXform.cfg",
                                                      os.path.join(out, "c10.ndjson"), shards=8, heap="3g")
        for res in results:
            run.add_tlc("TraceImageXform" + tag, res)
        run.cov["traces_validated_against_impl"] = run.cov.get("traces_validated_against_impl", 0) + len(lines)
        run.cov["configurations"] = len(r.printed)
        run.cov["exhaustive"] = False
        run.sample(json.loads(lines[len(lines) // 3]))
        for n, pr in rejects[:10]:
            ev = json.loads(lines[n])
            run.violation({"finding_key": None, "event": ev},
                          "TransformImageColor %s->%s parallelism %d wrote %s for cfg %s (GOMAXPROCS %s)" % (
                              ev["src"], ev["dst"], ev["par"], json.dumps(ev["observed"])[:200], json.dumps(ev["cfg"]), procs or "default"))
    run.cov["bounds"] = {"sizes": "0..3 x 0..3", "origins": "(0,0),(-2,-2),(3,1) for source and destination independently",
                         "dst_extra": "0/1 each axis", "parent_margins": 4, "parallelism": "1..5 structural + {1,2,3,7,16,rows+5}", "gomaxprocs": [p or "default" for _, p in passes],
                         "type_combinations_per_configuration": 12 if tier == "quick" else 200}
    run.assumptions += ["subsampled YCbCr sources are not placed at negative origins (image.YCbCr itself mis-indexes there)",
                        "expected pixel = destination type's Set of the package's per-colour function applied to src.At(p)"]
    return run.finish()
