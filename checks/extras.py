"""Behaviour outside the twenty listed properties (spec/Extras.tla): meta.Data as a state
machine, the ICC enumerations, Luminance / Dot / MulS / ToV / ColorFromV, the linear/lut table
builders with arbitrary curves.  Not registered in MANIFEST.json; a rejection is printed as
EXTRA-REJECT (exit 1), never as a VIOLATION of a listed property."""
import json
import os
import sys
import time

import vlib


def main():
    t0 = time.time()
    drive = vlib.go_build("cmd/drive")
    out = os.path.join(vlib.scratch(), "extras")
    os.makedirs(out, exist_ok=True)
    vlib.run([drive, "extras", "-out", out, "-seed", str(vlib.seed())], timeout=1800)
    results, rejects, lines = vlib.validate_trace("TraceExtras", "TraceExtras.cfg", os.path.join(out, "extras.ndjson"),
                                                  shards=8, heap="3g", timeout=3000)
    kinds = {}
    for l in lines:
        k = json.loads(l)["kind"]
        kinds[k] = kinds.get(k, 0) + 1
    # binding demonstration: corrupted observations must be rejected
    demo = []
    for l in lines:
        e = json.loads(l)
        if e["kind"] == "enum" and e["type"] == "class" and e["str"] == "Display":
            f = dict(e, str="Output"); demo.append(f)
        elif e["kind"] == "mdops" and any(o and o[0] == "A" for o in e["obs"]) and len(demo) < 4:
            f = json.loads(l)
            for o in f["obs"]:
                if o and o[0] == "A":
                    o[0] = "B"
                    break
            demo.append(f)
        elif e["kind"] == "builder" and e["out"] == 100 and len(demo) < 8:
            demo.append(dict(e, out=102))
        if len(demo) >= 8:
            break
    dpath = os.path.join(out, "demo.ndjson")
    with open(dpath, "w") as f:
        for e in demo:
            f.write(json.dumps(e) + "\n")
    _, drej, dlines = vlib.validate_trace("TraceExtras", "TraceExtras.cfg", dpath, shards=1, heap="1g")
    if len(drej) != len(dlines):
        raise vlib.Infra("binding demonstration: %d of %d corrupted observations were accepted" % (len(dlines) - len(drej), len(dlines)))
    # spec/BinaryCursor.tla: TLC checks the cursor's design invariants and prints every behaviour
    # of <= 4 calls over sources of <= 12 bytes; the real package replays them
    rb = vlib.tlc("BinaryCursor", "BinaryCursor.cfg", heap="2g", workers=4)
    if rb.violated:
        raise vlib.Infra("BinaryCursor.tla: TLC reports a violation of the model's own invariants")
    cpath = os.path.join(out, "binarycursor.ndjson")
    with open(cpath, "w") as f:
        for c in rb.printed:
            f.write(json.dumps(c) + "\n")
    pb = vlib.run([drive, "binarycursor", "-cases", cpath, "-seed", str(vlib.seed())], timeout=1800)
    blines = [json.loads(l) for l in pb.stdout.strip().splitlines()]
    bsum = blines[-1]
    bmis = [l["mismatch"] for l in blines if "mismatch" in l]
    if not bsum.get("summary") or bsum["cases"] != len(rb.printed) - 1 or bsum["calls"] == 0:
        raise vlib.Infra("binarycursor replay did not run all cases: %r" % bsum)
    # binding demonstration: a case whose expected value has two bytes swapped must be reported
    demo_case = next(c for c in rb.printed if "calls" in c and c["calls"][0]["op"] == "u32b" and c["calls"][0]["err"] == "nil")
    bad = json.loads(json.dumps(demo_case))
    bad["calls"][0]["val"][0], bad["calls"][0]["val"][1] = bad["calls"][0]["val"][1], bad["calls"][0]["val"][0]
    dp = os.path.join(out, "binarycursor_demo.ndjson")
    open(dp, "w").write(json.dumps(bad) + "\n")
    pd = vlib.run([drive, "binarycursor", "-cases", dp, "-seed", str(vlib.seed())], timeout=600)
    if json.loads(pd.stdout.strip().splitlines()[-1])["mismatches"] == 0:
        raise vlib.Infra("binarycursor binding demonstration: a swapped expectation was not reported")
    # spec/JpegLexer.tla: the marker lexer beneath jpegmeta.Load; the as-found design must violate
    # FillAccepted (defect 12), the repaired one is checked and every session over 7 byte values
    # of length <= 6 is replayed on the real segment reader
    ra = vlib.tlc("JpegLexer", "JpegLexer_asfound.cfg", heap="1g", workers=2)
    if "FillAccepted" not in (ra.violated or ""):
        raise vlib.Infra("JpegLexer as found should violate FillAccepted (got %s)" % ra.violated)
    rl = vlib.tlc("JpegLexer", "JpegLexer_repaired.cfg", heap="3g", workers=4)
    if rl.violated:
        raise vlib.Infra("JpegLexer repaired violates %s" % rl.violated)
    lpath = os.path.join(out, "jpeglexer.ndjson")
    with open(lpath, "w") as f:
        for c in rl.printed:
            f.write(json.dumps(c) + "\n")
    pl = vlib.run([drive, "jpeglexer", "-cases", lpath], timeout=1800)
    llines = [json.loads(l) for l in pl.stdout.strip().splitlines()]
    lsum = llines[-1]
    lmis = [l["mismatch"] for l in llines if "mismatch" in l]
    if not lsum.get("summary") or lsum["cases"] != len(rl.printed) or lsum["calls"] == 0:
        raise vlib.Infra("jpeglexer replay did not run all cases: %r" % lsum)
    # binding demonstration: an expectation with the marker code changed must be reported
    dc = json.loads(json.dumps(next(c for c in rl.printed if c["calls"] and c["calls"][0]["err"] == "nil" and c["calls"][0]["code"] == 216)))
    dc["calls"][0]["code"] = 217
    dlp = os.path.join(out, "jpeglexer_demo.ndjson")
    open(dlp, "w").write(json.dumps(dc) + "\n")
    pdl = vlib.run([drive, "jpeglexer", "-cases", dlp], timeout=600)
    if json.loads(pdl.stdout.strip().splitlines()[-1])["mismatches"] == 0:
        raise vlib.Infra("jpeglexer binding demonstration: a changed expectation was not reported")
    # spec/PngLexer.tla: the chunk loop of pngmeta.extractMetadata at byte granularity; TLC checks the
    # design invariants and prints every (tokens, cut); pngmeta.Load and autometa.Load replay them
    rp = vlib.tlc("PngLexer", "PngLexer.cfg", heap="3g", workers=8)
    if rp.violated:
        raise vlib.Infra("PngLexer.tla: TLC reports a violation of the model's own invariants (%s)" % rp.violated)
    ppath = os.path.join(out, "pnglexer.ndjson")
    with open(ppath, "w") as f:
        for c in rp.printed:
            f.write(json.dumps(c) + "\n")
    pp = vlib.run([drive, "pnglexer", "-cases", ppath], timeout=1800)
    plines = [json.loads(l) for l in pp.stdout.strip().splitlines()]
    psum = plines[-1]
    pmis = [l["mismatch"] for l in plines if "mismatch" in l]
    if not psum.get("summary") or psum["cases"] != len(rp.printed) or psum["loads"] != 2 * len(rp.printed):
        raise vlib.Infra("pnglexer replay did not run all cases: %r" % psum)
    # binding demonstration: expectations with the byte count, the dimensions or the profile changed must be reported
    pd1 = json.loads(json.dumps(next(c for c in rp.printed if c["res"] == "ok" and c["icc"] == "p1")))
    pd2, pd3 = dict(pd1, icc="p2"), dict(pd1, w=pd1["h"], h=pd1["w"])
    pd1["taken"] -= 1
    pdp = os.path.join(out, "pnglexer_demo.ndjson")
    open(pdp, "w").write("".join(json.dumps(c) + "\n" for c in (pd1, pd2, pd3)))
    ppd = vlib.run([drive, "pnglexer", "-cases", pdp], timeout=600)
    if not pmis and json.loads(ppd.stdout.strip().splitlines()[-1])["mismatches"] < 4:      # pd1: pngmeta only; pd2, pd3: both loaders
        raise vlib.Infra("pnglexer binding demonstration: a changed expectation was not reported")
    # spec/WebpLexer.tla: webpmeta.extractMetadata at byte granularity, same binding
    rw = vlib.tlc("WebpLexer", "WebpLexer.cfg", heap="1g", workers=4)
    if rw.violated:
        raise vlib.Infra("WebpLexer.tla: TLC reports a violation of the model's own invariants (%s)" % rw.violated)
    wpath = os.path.join(out, "webplexer.ndjson")
    with open(wpath, "w") as f:
        for c in rw.printed:
            f.write(json.dumps(c) + "\n")
    pw = vlib.run([drive, "webplexer", "-cases", wpath], timeout=1800)
    wlines = [json.loads(l) for l in pw.stdout.strip().splitlines()]
    wsum = wlines[-1]
    wmis = [l["mismatch"] for l in wlines if "mismatch" in l]
    if not wsum.get("summary") or wsum["cases"] != len(rw.printed) or wsum["loads"] != 2 * len(rw.printed):
        raise vlib.Infra("webplexer replay did not run all cases: %r" % wsum)
    wd1 = json.loads(json.dumps(next(c for c in rw.printed if c["res"] == "ok" and c["icc"] == "q3")))
    wd2, wd3 = dict(wd1, icc="err"), dict(wd1, w=wd1["h"], h=wd1["w"])
    wd1["taken"] += 1           # as if the pad byte were read
    wdp = os.path.join(out, "webplexer_demo.ndjson")
    open(wdp, "w").write("".join(json.dumps(c) + "\n" for c in (wd1, wd2, wd3)))
    pwd = vlib.run([drive, "webplexer", "-cases", wdp], timeout=600)
    if not wmis and json.loads(pwd.stdout.strip().splitlines()[-1])["mismatches"] < 5:    # (meaningful only when the tree conforms)      # wd1: webpmeta only; wd2, wd3: both loaders
        raise vlib.Infra("webplexer binding demonstration: a changed expectation was not reported")
    ev = {"what": "spec/Extras.tla judged %d observations of the real code" % len(lines), "events_by_kind": kinds,
          "webp_lexer": {"tlc_distinct_states": rw.distinct, "inputs_replayed": wsum["cases"], "loads_compared": wsum["loads"],
                         "mismatches": wsum["mismatches"], "binding_demo": "three changed expectations reported"},
          "png_lexer": {"tlc_distinct_states": rp.distinct, "inputs_replayed": psum["cases"], "loads_compared": psum["loads"],
                        "mismatches": psum["mismatches"], "binding_demo": "three changed expectations reported"},
          "jpeg_lexer": {"tlc_distinct_states": rl.distinct, "sessions_replayed": lsum["cases"], "calls_compared": lsum["calls"],
                         "mismatches": lsum["mismatches"], "as_found_design": "violates FillAccepted (expected counterexample)",
                         "binding_demo": "changed expectation reported"},
          "binary_cursor": {"tlc_distinct_states": rb.distinct, "behaviours_replayed": bsum["cases"], "calls_compared": bsum["calls"],
                            "writes_compared": bsum["writes"], "mismatches": bsum["mismatches"], "binding_demo": "swapped expectation reported"},
          "rejected": len(rejects), "binding_demo_corrupted_rejected": len(drej), "wall_s": round(time.time() - t0, 1),
          "tlc": [{"distinct_states": r.distinct, "wall_s": round(r.wall, 1)} for r in results]}
    os.makedirs(os.path.join(vlib.VERIF, "extras"), exist_ok=True)
    json.dump(ev, open(os.path.join(vlib.VERIF, "extras", "evidence.json"), "w"), indent=1)
    for n, _ in rejects[:10]:
        print("EXTRA-REJECT %s" % lines[n][:400])
    for m in bmis[:10]:
        print("EXTRA-REJECT binarycursor %s" % json.dumps(m)[:400])
    for m in lmis[:10]:
        print("EXTRA-REJECT jpeglexer %s" % json.dumps(m)[:400])
    for m in pmis[:10]:
        print("EXTRA-REJECT pnglexer %s" % json.dumps(m)[:400])
    for m in wmis[:10]:
        print("EXTRA-REJECT webplexer %s" % json.dumps(m)[:400])
    if rejects or bmis or lmis or pmis or wmis:
        return 1
    print("OK extras events=%d wall=%.1fs" % (len(lines), time.time() - t0))
    return 0


if __name__ == "__main__":
    try:
        sys.exit(main())
    except vlib.Infra as e:
        print("ERROR (machinery, not a verdict): %s" % e)
        sys.exit(2)
    except Exception as e:  # noqa
        import traceback
        traceback.print_exc()
        sys.exit(2)
