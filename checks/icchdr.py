"""C16: ICC header field decoding (spec/IccHeader.tla)."""
import json
import os

import vlib


def key(ev):
    if ev["kind"] == "ver":
        return None
    return None


def check(pid, tier, args):
    run = vlib.Run(pid, tier)
    drive = vlib.go_build("cmd/drive")
    # 1. the specification's own table: partition + every bit feeds exactly its field
    r = vlib.tlc("MC_IccHeader", "MC_IccHeader.cfg", heap="1g", workers=4)
    if r.violated or r.distinct != 1024:
        raise vlib.Infra("IccHeader field table lemma failed: %s" % r.violated)
    run.add_tlc("MC_IccHeader (design lemma: 1024 bit positions x 2 base headers)", r)
    # 2. real reader over header patterns, 3. judged by the specification
    out = os.path.join(vlib.scratch(), "c16")
    os.makedirs(out, exist_ok=True)
    vlib.run([drive, "icchdr", "-out", out, "-tier", tier, "-seed", str(vlib.seed())])
    results, rejects, lines = vlib.validate_trace("TraceIccHeader", "TraceIccHeader.cfg",
                                                  os.path.join(out, "c16.ndjson"), shards=8, heap="3g")
    for res in results:
        run.add_tlc("TraceIccHeader", res)
    run.cov["traces_validated_against_impl"] = len(lines)
    nh = sum(1 for l in lines if '"kind":"hdr"' in l)
    run.cov["header_events"] = nh
    run.cov["version_events"] = len(lines) - nh
    run.cov["exhaustive"] = False
    run.cov["bounds"] = {"walking_bits": "1024 positions x 3 base headers", "version_pairs": 65536,
                         "random_headers": 3000 if tier == "quick" else 20000}
    run.sample(json.loads(lines[5]))
    run.sample(json.loads(lines[-3]))
    seen = set()
    for n, pr in rejects:
        ev = json.loads(lines[n])
        if ev["kind"] == "ver":
            cls = "version"
            what = "Version{%d,%d}.String() = %s" % (ev["major"], ev["minor"], ev["str"])
        else:
            cls = "hdr"
            what = "header %s -> ok=%s obs=%s date=%s" % (
                bytes(ev["hdr"]).hex(), ev["ok"], json.dumps(ev["obs"]), ev["date"])
        if (cls in seen and len(run.violations) >= 6) or len(run.violations) >= 12:
            continue
        seen.add(cls)
        run.violation({"finding_key": None, "event": ev}, what[:600])
    if rejects:
        run.cov["rejected_events"] = len(rejects)
    run.assumptions.append("dates are compared only when all six components are valid (the property's domain)")
    return run.finish()
