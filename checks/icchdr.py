"""C16: ICC header field decoding (spec/IccHeader.tla)."""
import json
import os

import vlib


def key(ev):
    if ev["kind"] == "ver":
        return None
    return None


def interleavings(run):
    """All interleavings of two readers' deliveries, from the specification (shared with C11)."""
    r = vlib.tlc("Interleave", "Interleave_private.cfg", heap="1g", workers=1)
    if r.violated or not r.printed:
        raise vlib.Infra("Interleave (private staging) violates %s" % r.violated)
    run.add_tlc("Interleave/private (2 readers x 4 deliveries, all interleavings; Isolation holds)", r)
    r2 = vlib.tlc("Interleave", "Interleave_shared.cfg", heap="1g", workers=1)
    if r2.violated != "Isolation":
        raise vlib.Infra("Interleave (shared staging) was not refuted: the model cannot see the defect it is for")
    run.add_tlc("Interleave/shared (expected counterexample)", r2)
    # TLAPS: Isolation for private staging with ANY number of deliveries (TLC fixes 4)
    import shutil
    import subprocess
    import time
    wd = os.path.join(vlib.scratch(), "tlaps-%d" % os.getpid())
    os.makedirs(wd, exist_ok=True)
    shutil.copy(os.path.join(vlib.SPEC, "InterleaveProof.tla"), wd)
    t0 = time.time()
    try:
        # tlapm's front end leaves SANY* directories in the temporary directory: give it the scratch one
        pt = subprocess.run(["tlapm", "--threads", "8", "InterleaveProof.tla"], cwd=wd, capture_output=True, text=True, timeout=900,
                            env=dict(os.environ, TMPDIR=wd, TMP=wd, TEMP=wd))
    except subprocess.TimeoutExpired:
        raise vlib.Infra("tlapm timed out on InterleaveProof")
    m = __import__("re").search(r"All (\d+) obligations proved", pt.stdout + pt.stderr)
    if not m:
        raise vlib.Infra("TLAPS did not prove InterleaveProof: %s" % (pt.stdout + pt.stderr)[-800:])
    run.cov["tlaps_proof"] = {"module": "InterleaveProof", "theorem": "Spec => []Isolation (private staging, NChunks arbitrary)",
                              "obligations_proved": int(m.group(1)), "wall_s": round(time.time() - t0, 1)}
    shutil.rmtree(wd, ignore_errors=True)
    return r.printed


def check(pid, tier, args):
    run = vlib.Run(pid, tier)
    drive = vlib.go_build("cmd/drive")
    # 1. the specification's own table: partition + every bit feeds exactly its field
    r = vlib.tlc("MC_IccHeader", "MC_IccHeader.cfg", heap="1g", workers=4)
    if r.violated or r.distinct != 1024:
        raise vlib.Infra("IccHeader field table lemma failed: %s" % r.violated)
    run.add_tlc("MC_IccHeader (design lemma: 1024 bit positions x 2 base headers)", r)
    # 2. real reader over header patterns, 3. judged by the specification
    out = os.path.join(vlib.scratch(), "c16")
    os.makedirs(out, exist_ok=True)
    vlib.run([drive, "icchdr", "-out", out, "-tier", tier, "-seed", str(vlib.seed())])
    # 2b. two readers at once: every interleaving of their sources' deliveries (Interleave.tla),
    # forced on the real reader with gated sources; each header still decodes to its own fields
    scheds = interleavings(run)
    sp = os.path.join(out, "scheds.ndjson")
    with open(sp, "w") as f:
        for k in range(1 if tier == "quick" else 6):
            for sc in scheds:
                f.write(json.dumps(sc) + "\n")
    p = vlib.run([drive, "interleave", "-what", "icc", "-scheds", sp, "-out", out, "-seed", str(vlib.seed())], timeout=1800)
    st = json.loads(p.stdout.strip().splitlines()[-1])
    # when the schedules cannot be forced (the reader refuses the harness's headers, say) the single-reader
    # observations are judged first: only if THEY are all accepted is the failure to force machinery
    forced_ok = st["followed"] * 2 >= st["schedules"]
    run.cov["forced_interleavings"] = st
    if forced_ok:
        with open(os.path.join(out, "c16.ndjson"), "a") as f:
            f.write(open(os.path.join(out, "c16i.ndjson")).read())
    results, rejects, lines = vlib.validate_trace("TraceIccHeader", "TraceIccHeader.cfg",
                                                  os.path.join(out, "c16.ndjson"), shards=8, heap="3g")
    for res in results:
        run.add_tlc("TraceIccHeader", res)
    if not forced_ok and not rejects:
        raise vlib.Infra("only %d of %d interleavings could be forced on the real reader" % (st["followed"], st["schedules"]))
    run.cov["traces_validated_against_impl"] = len(lines)
    nh = sum(1 for l in lines if '"kind":"hdr"' in l)
    run.cov["header_events"] = nh
    run.cov["version_events"] = len(lines) - nh
    run.cov["exhaustive"] = False
    run.cov["bounds"] = {"walking_bits": "1024 positions x 3 base headers", "version_pairs": 65536,
                         "random_headers": 3000 if tier == "quick" else 20000}
    run.sample(json.loads(lines[5]))
    run.sample(json.loads(lines[-3]))
    seen = set()
    for n, pr in rejects:
        ev = json.loads(lines[n])
        if ev["kind"] == "ver":
            cls = "version"
            what = "Version{%d,%d}.String() = %s" % (ev["major"], ev["minor"], ev["str"])
        else:
            cls = "hdr"
            what = "header %s read through %s -> ok=%s obs=%s date=%s unix=%s" % (
                bytes(ev["hdr"]).hex(), ev.get("reader"), ev["ok"], json.dumps(ev["obs"]), ev["date"], ev.get("unix"))
        if (cls in seen and len(run.violations) >= 6) or len(run.violations) >= 12:
            continue
        seen.add(cls)
        run.violation({"finding_key": None, "event": ev}, what[:600])
    if rejects:
        run.cov["rejected_events"] = len(rejects)
    run.assumptions.append("creation time: component-wise for valid dates; for every bit pattern as the instant time.Date's carrying rules give (spec: UnixOf)")
    return run.finish()
