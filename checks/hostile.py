"""C09: hostile input cannot crash the caller, hang, or balloon memory
(spec/Hostile.tla: case matrix + budget contract; spec/TraceHostile.tla)."""
import json
import os
import re
import resource
import subprocess

import vlib

WORKERS = 8
RLIMIT_AS = 3 * 1024 ** 3      # a worker that asks for more dies; that death is the observation


CORPUS = [None]


def fuzz_corpus(run, seconds):
    """Go's coverage-guided fuzzing over the same entry points (exploration (d) of the property's
    quantifier).  The fuzz target has no oracle; what it finds (interesting inputs and crashers)
    is exercised in the resource-limited workers and judged by TraceHostile like everything else."""
    import shutil
    hdir = os.path.join(vlib.scratch(), "harness-fuzz")
    shutil.copytree(vlib.HARNESS, hdir)
    gm = open(os.path.join(hdir, "go.mod")).read().replace("=> /repo", "=> " + os.path.abspath(vlib.REPO))
    open(os.path.join(hdir, "go.mod"), "w").write(gm)
    cache = os.path.join(vlib.scratch(), "fuzzcache")
    p = subprocess.run(["go", "test", "-run", "xxx", "-fuzz", "FuzzBytes", "-fuzztime", "%ds" % seconds, "-parallel", "8",
                        "-test.fuzzcachedir", cache, "."], cwd=os.path.join(hdir, "fuzz"), env=vlib.goenv(),
                       capture_output=True, text=True, timeout=seconds * 3 + 600)
    corpus = os.path.join(vlib.scratch(), "fuzzcorpus")
    os.makedirs(corpus, exist_ok=True)
    n = 0
    for d in (os.path.join(cache, "FuzzBytes"), os.path.join(hdir, "fuzz", "testdata", "fuzz", "FuzzBytes")):
        if os.path.isdir(d):
            for f in os.listdir(d):
                shutil.copy(os.path.join(d, f), os.path.join(corpus, "%d-%s" % (n, f)))
                n += 1
    execs = re.findall(r"execs: (\d+)", p.stdout)
    run.cov["fuzzing"] = {"seconds": seconds, "executions": int(execs[-1]) if execs else 0, "corpus_inputs": n,
                          "engine_exit": p.returncode, "crashers_reported_by_engine": p.stdout.count("Failing input written")}
    if n == 0:
        raise vlib.Infra("fuzzing produced no corpus: %s %s" % (p.stdout[-500:], p.stderr[-500:]))
    return corpus


def run_worker(drive, cases, out, shard, tier, start_from):
    def limit():
        resource.setrlimit(resource.RLIMIT_AS, (RLIMIT_AS, RLIMIT_AS))
    return subprocess.Popen([drive, "hostile", "-cases", cases, "-out", out, "-shard", str(shard),
                             "-shards", str(WORKERS), "-tier", tier, "-seed", str(vlib.seed()),
                             "-from", str(start_from)] + (["-corpus", CORPUS[0]] if CORPUS[0] else []),
                            preexec_fn=limit, stdout=subprocess.PIPE, stderr=subprocess.PIPE, text=True, env=vlib.goenv())


def check(pid, tier, args):
    run = vlib.Run(pid, tier)
    drive = vlib.go_build("cmd/drive")
    sc = vlib.scratch()
    r = vlib.tlc("MC_Hostile", "MC_Hostile.cfg", workers=1, heap="1g")
    if not r.printed:
        raise vlib.Infra("Hostile case matrix is empty")
    run.add_tlc("MC_Hostile (case matrix: fields x boundary classes + wrapping pairs)", r)
    # design level: the ICC reader's length / offset arithmetic over wrapping words
    # (spec/IccArith.tla): repaired design holds, as-found design must be rejected;
    # every case of the repaired model is replayed on the real reader (word-scaled to
    # 32 bits) - a disagreement in outcome is DRIFT, an escaped panic is a violation
    drift = 0
    for part, expect in (("tagtable", "AllocBounded"), ("textdesc", "AllocBounded"), ("mluc", "NoEscapedPanic")):
        rw = vlib.tlc("IccArith", "IccArith_%s_wrap32.cfg" % part, workers=4, heap="2g")
        if rw.violated != expect:
            raise vlib.Infra("IccArith %s as-found design should violate %s (got %s)" % (part, expect, rw.violated))
        run.add_tlc("IccArith/%s/wrap32 (expected counterexample: %s)" % (part, expect), rw)
        rg = vlib.tlc("IccArith", "IccArith_%s_gen.cfg" % part, workers=8, heap="3g")
        if rg.violated or not rg.printed:
            raise vlib.Infra("IccArith %s repaired design violates %s" % (part, rg.violated))
        run.add_tlc("IccArith/%s/repaired" % part, rg)
        path = os.path.join(sc, "arith_%s.ndjson" % part)
        open(path, "w").write("\n".join(json.dumps(c) for c in rg.printed) + "\n")
        pa = vlib.run([drive, "iccarith", "-cases", path], timeout=1800)
        st = json.loads(pa.stdout.strip().split("\n")[-1])
        drift += st["drift"]
        run.cov.setdefault("iccarith_cases_replayed", 0)
        run.cov["iccarith_cases_replayed"] += st["cases"]
        if st["escaped_panics"]:
            run.violation({"finding_key": None, "case": st["first_escaped"], "part": part},
                          "a panic escaped the ICC reader / Description on word-scaled case %s" % st["first_escaped"][:300])
        if st["drift"]:
            run.note("DRIFT: IccArith(%s) and the real reader disagree on %d of %d cases, e.g. %s" % (
                part, st["drift"], st["cases"], st["first"][:300]))
    run.cov["iccarith_drift"] = drift
    cases = os.path.join(sc, "cases_hostile.ndjson")
    with open(cases, "w") as o:
        for c in r.printed:
            o.write(json.dumps(c) + "\n")
    if tier == "thorough":
        CORPUS[0] = fuzz_corpus(run, int(os.environ.get("VERIF_FUZZ_SECONDS", "600")))
    # workers: one process per shard (TotalAlloc is process-wide), address space capped
    events, deaths, hangs = [], [], []
    procs = {}
    for sh in range(WORKERS):
        procs[sh] = (run_worker(drive, cases, os.path.join(sc, "h%d-0.ndjson" % sh), sh, tier, 0), 0, 0)
    files = []
    while procs:
        for sh in list(procs):
            p, gen, start = procs[sh]
            try:
                p.wait(timeout=6000)
            except subprocess.TimeoutExpired:
                p.kill()
                raise vlib.Infra("hostile worker timed out")
            path = os.path.join(sc, "h%d-%d.ndjson" % (sh, gen))
            files.append(path)
            text = open(path).read() if os.path.exists(path) else ""
            finished = re.search(r"^#END \d+", text, re.M) is not None
            del procs[sh]
            hung = re.findall(r"^#HUNG (\d+)", text, re.M)
            if not finished and hung:
                hangs.append(int(hung[-1]))
                if len(hangs) <= 6:
                    procs[sh] = (run_worker(drive, cases, os.path.join(sc, "h%d-%d.ndjson" % (sh, gen + 1)), sh, tier,
                                            int(hung[-1])), gen + 1, int(hung[-1]))
            elif not finished:
                begins = re.findall(r"^#BEGIN (\d+) (.*)$", text, re.M)
                if not begins:
                    raise vlib.Infra("hostile worker %d died before its first case: %s" % (sh, p.stderr.read()[-800:]))
                job, desc = int(begins[-1][0]), begins[-1][1]
                err = p.stderr.read()
                deaths.append({"job": job, "desc": desc, "stderr": err[-600:], "exit": p.returncode})
                if len(deaths) > 6:
                    break
                procs[sh] = (run_worker(drive, cases, os.path.join(sc, "h%d-%d.ndjson" % (sh, gen + 1)), sh, tier, job),
                             gen + 1, job)
        if len(deaths) > 6 or len(hangs) > 6:
            for sh in procs:
                procs[sh][0].kill()
            break
    trace = os.path.join(sc, "c09.ndjson")
    n = 0
    with open(trace, "w") as o:
        for path in files:
            if os.path.exists(path):
                for l in open(path):
                    if l.startswith("{"):
                        o.write(l)
                        n += 1
        for d in deaths:
            o.write(json.dumps({"src": "death", "via": "process death", "n": 0, "alloc_kib": 0, "wall_ms": 0,
                                "panic": False, "died": True, "job": d["job"], "desc": d["desc"]}) + "\n")
            n += 1
    results, rejects, lines = vlib.validate_trace("TraceHostile", "TraceHostile.cfg", trace, shards=8, heap="3g")
    for res in results:
        run.add_tlc("TraceHostile", res)
    run.cov["traces_validated_against_impl"] = len(lines)
    run.cov["matrix_cases"] = len(r.printed)
    srcs = {}
    worst = 0.0
    for l in lines:
        ev = json.loads(l)
        srcs[ev["src"]] = srcs.get(ev["src"], 0) + 1
        b = (4096 * ev["n"] + 4 * 1024 * 1024) / 1024
        worst = max(worst, ev["alloc_kib"] / b)
    run.cov["events_by_source"] = srcs
    run.cov["max_alloc_over_budget_ratio"] = round(worst, 4)
    run.cov["budget"] = "alloc <= 4096*n + 4 MiB; wall <= 1000 ms + 2 ms/KiB (fastest of 4); worker RLIMIT_AS 3 GiB"
    run.sample(json.loads(lines[0]))
    run.sample(json.loads(lines[len(lines) // 2]))
    seen = {}
    for nline, pr in rejects:
        ev = json.loads(lines[nline])
        k = (ev.get("seed"), ev.get("field"), ev["via"], ev["src"])
        if k in seen or len(run.violations) >= 15:
            continue
        seen[k] = 1
        dump = os.path.join(vlib.EVID, "replay", "C09-input-%d.bin" % len(run.violations))
        os.makedirs(os.path.dirname(dump), exist_ok=True)
        subprocess.run([drive, "hostile", "-cases", cases, "-out", os.devnull, "-shards", "1", "-tier", tier,
                        "-seed", str(vlib.seed()), "-dump", str(ev["job"]), "-dumpfile", dump], env=vlib.goenv())
        run.violation({"finding_key": None, "event": ev, "input_file": dump},
                      "%s on %s: alloc %d KiB for %d input bytes, %d ms, panic=%s died=%s (%s)" % (
                          ev["via"], ev.get("seed", ev.get("desc")), ev["alloc_kib"], ev["n"], ev["wall_ms"],
                          ev["panic"], ev["died"], ev.get("field", ev.get("ops", ev.get("cut", "")))))
    run.assumptions += ["allocation is runtime.MemStats.TotalAlloc delta around the call in a single-threaded worker",
                        "native coverage-guided fuzzing (item d of the property's quantifier) is a different technique and not used"]
    return run.finish()
