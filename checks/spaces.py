"""C03 / C20 (and the matrix part of C12): exact 3x3 algebra in spec/Matrix.tla,
contracts in spec/Spaces.tla, trace validation by spec/TraceSpaces.tla."""
import json
import os

import vlib
import colour


def matrix_selftest(run):
    r = vlib.tlc("MC_Matrix", "MC_Matrix.cfg", heap="3g", workers=8, timeout=900)
    if r.violated:
        raise vlib.Infra("Matrix.tla self-test failed (%s)" % r.violated)
    run.add_tlc("MC_Matrix (adjugate/determinant/inverse identities, Bradford identities)", r)


def check(pid, tier, args):
    run = vlib.Run(pid, tier)
    drive = vlib.go_build("cmd/drive")
    colour.num_selftest(run)
    matrix_selftest(run)
    out = os.path.join(vlib.scratch(), pid.lower())
    os.makedirs(out, exist_ok=True)
    vlib.run([drive, "matrix", "-out", out, "-tier", tier, "-seed", str(vlib.seed()), "-props", pid.lower()], timeout=6000)
    results, rejects, lines = vlib.validate_trace("TraceSpaces", "TraceSpaces.cfg", os.path.join(out, pid.lower() + ".ndjson"),
                                                  shards=16, heap="3g", workers=2, timeout=6000,
                                                  extra_data={"spaces.ndjson": os.path.join(out, "spaces.ndjson")})
    for res in results:
        run.add_tlc("TraceSpaces/" + pid, res)
    run.cov["traces_validated_against_impl"] = len(lines)
    kinds = {}
    for l in lines:
        k = json.loads(l)["kind"]
        kinds[k] = kinds.get(k, 0) + 1
    run.cov["events_by_kind"] = kinds
    run.cov["exhaustive"] = False
    if pid == "C03":
        run.cov["bounds"] = {"coefficients": "9 forward coefficients per space against the exact matrix of the DECLARED chromaticities (1e-6)",
                             "declared": "8 chromaticities per space against the published values at their published digits",
                             "lattice": "%s over [-1,2]^3 + seeded multiples of 2^-10, linearity (1e-6 + 4*2^-24)*max(1,sum|v|), both round trips 2e-6*max(1,max|v|)" % (
                                 "5^3" if tier == "quick" else "33^3")}
    elif pid == "C12":
        run.cov["bounds"] = {"white_points": "11 CIE illuminants (xyY) + 8 given as XYZ: all ordered pairs; %s chromaticity grid over [0.2,0.5]^2 squared; all 1331 triples of the illuminants for composition" % (
                                 "6x6" if tier == "quick" else "16x16"),
                             "coefficients": "within 1e-9 of the exact Bradford matrix built from the XYZ the library works with; xyY->XYZ conversion checked separately",
                             "apply": "linearity on seeded colours in [-1,2]^3"}
    else:
        run.cov["bounds"] = {"published_spaces": 20, "seeded_triangles": 150 if tier == "quick" else 20000,
                             "matrices": "dyadic entries k/2^20 in [-4,4], |det| >= 1e-3; singular from repeated/zero columns"}
    run.sample(json.loads(lines[3]))
    run.sample(json.loads(lines[-1]))
    for n, pr in rejects[:12]:
        ev = json.loads(lines[n])
        run.violation({"finding_key": None, "event": ev}, "%s: %s" % (ev["kind"], json.dumps(ev)[:400]))
    if rejects:
        run.cov["rejected_events"] = len(rejects)
    run.assumptions += ["floats enter the specification exactly (dyadic rationals / floor-ceil at 10^-18)",
                        "no division in the oracle: every judgement is |obs*den - num| <= tol*den in integers"]
    return run.finish()
