"""C04: cross-space pixel conversion against an independent colorimetric reference
(spec/Pipeline.tla over Spaces/Matrix/Colour/DecodeTables)."""
import json
import os

import vlib
import colour
import spaces


def check(pid, tier, args):
    run = vlib.Run(pid, tier)
    drive = vlib.go_build("cmd/drive")
    colour.num_selftest(run)
    spaces.matrix_selftest(run)
    r = vlib.tlc("MC_DecodeTables", "MC_DecodeTables.cfg", heap="3g", workers=16, timeout=1800)
    if r.violated or r.distinct != 256:
        raise vlib.Infra("generated decode tables are not confirmed by the exact relations (%s)" % r.violated)
    run.add_tlc("MC_DecodeTables (768 table entries verified against the published curves)", r)
    out = os.path.join(vlib.scratch(), "c04")
    os.makedirs(out, exist_ok=True)
    vlib.run([drive, "pipeline", "-out", out, "-tier", tier, "-seed", str(vlib.seed())], timeout=6000)
    # every table the pipeline uses is built at start-up or on first use: a lighter pass in
    # processes started under other GOMAXPROCS values (what a table holds may not depend on it)
    procs = ["3"] if tier == "quick" else ["3", "6", "1", "12"]
    with open(os.path.join(out, "c04.ndjson"), "a") as f:
        for k, pr in enumerate(procs):
            vlib.run([drive, "pipeline", "-out", out, "-tier", "quick", "-light", "-seed", str(vlib.seed() + 1 + k), "-name", "p.ndjson"],
                     timeout=6000, env=dict(vlib.goenv(), GOMAXPROCS=pr))
            f.write(open(os.path.join(out, "p.ndjson")).read())
    run.cov["gomaxprocs"] = ["default"] + procs
    results, rejects, lines = vlib.validate_trace("TracePipeline", "TracePipeline.cfg", os.path.join(out, "c04.ndjson"),
                                                  shards=2, heap="8g", workers=8, timeout=12000,
                                                  extra_data={"spaces.ndjson": os.path.join(out, "spaces.ndjson")})
    for res in results:
        run.add_tlc("TracePipeline", res)
    run.cov["traces_validated_against_impl"] = len(lines)
    run.cov["ordered_pairs"] = 16
    run.cov["exhaustive"] = False
    run.cov["bounds"] = {"pixels_per_pair": len(lines) // 16,
                         "quick": "5^3 lattice, 32 greys, 6 gamut edges x 16, 250 seeded, alpha sweep (step 5) on 2 colours",
                         "thorough": "17^3 lattice, all greys, all 6x256 gamut-edge colours, 12,000 seeded, full alpha sweep (x 16 space pairs = 307k pixels; the 32^3 + 1e5 first planned measured at ~4 h)",
                         "reference_widening": "5e-6 on the linear value (decode 3e-7 through the matrix + float32 evaluation), far below the encoder's half bucket 1/1022",
                         "compositional": "all 2^24 per pair is covered by C01 (every decode entry), C03 (coefficients, linearity), C12 (adaptation), C02 (every float through the encoder); this check shows the public pipeline is their composition"}
    run.sample(json.loads(lines[0]))
    run.sample(json.loads(lines[len(lines) // 2]))
    for n, pr in rejects[:12]:
        ev = json.loads(lines[n])
        run.violation({"finding_key": None, "event": ev}, "%s -> %s: pixel %s became %s" % (ev["src"], ev["dst"], ev["in"], ev["out"]))
    if rejects:
        run.cov["rejected_events"] = len(rejects)
    run.assumptions += ["the pipeline driven is the one the README documents: ColorFromNRGBA, ToXYZ, AdaptBetweenXYYWhitePoints(...).Apply when the declared whites differ, ColorFromXYZ, ToNRGBA"]
    return run.finish()
