"""C13: CIE L*a*b* against the CIE 1976 definition (spec/Lab.tla)."""
import json
import os

import vlib
import colour


def check(pid, tier, args):
    run = vlib.Run(pid, tier)
    drive = vlib.go_build("cmd/drive")
    colour.num_selftest(run)
    out = os.path.join(vlib.scratch(), "c13")
    os.makedirs(out, exist_ok=True)
    vlib.run([drive, "lab", "-out", out, "-tier", tier, "-seed", str(vlib.seed())], timeout=6000)
    trace = os.path.join(out, "c13.ndjson")
    results, rejects, lines = vlib.validate_trace("TraceLab", "TraceLab.cfg", trace, shards=16, heap="3g", workers=2, timeout=6000)
    for res in results:
        run.add_tlc("TraceLab", res)
    run.cov["traces_validated_against_impl"] = len(lines)
    kinds = {}
    for l in lines:
        k = json.loads(l)["kind"]
        kinds[k] = kinds.get(k, 0) + 1
    run.cov["events_by_kind"] = kinds
    run.cov["exhaustive"] = False
    run.cov["bounds"] = {"whites": "D50, D65 + %d seeded positive whites" % (2 if tier == "quick" else 8),
                         "xyz": "%s lattice over [-0.5,2]^3 + seeded, greys (multiples of the white), junction sweeps 216/24389 +-1e-6 per axis and 65 float32 neighbours, Y sweep for monotone L" % (
                             "6^3" if tier == "quick" else "24^3"),
                         "lab": "lattice over L in [-10,110], a,b in [-200,200] + seeded, against the definition (cubes only)",
                         "gap": "the property's 2^24 lattice + 1e8 random points is beyond TLC; no certificate exists for a non-linear map"}
    # binding demonstration: shift one observed component beyond / inside the tolerance
    import random
    rng = random.Random(vlib.seed())
    labs = [json.loads(l) for n, l in enumerate(lines) if '"kind":"lab"' in l and n not in {r for r, _ in rejects}]
    demo = []
    for e in rng.sample(labs, min(10, len(labs))):
        for delta, expect in ((3 * 10 ** 15, True), (10 ** 14, False)):
            f = json.loads(json.dumps(e))
            o = f["o"][1]
            v = colour.fromlimbs(o["lo"]) * o["s"] + delta
            o["s"] = 1 if v >= 0 else -1
            o["lo"], o["hi"] = colour.tolimbs(abs(v)), colour.tolimbs(abs(v) + 1)
            f["has_prev"] = False
            f["_expect_reject"] = expect
            demo.append(f)
    p = os.path.join(vlib.scratch(), "c13_demo.ndjson")
    with open(p, "w") as o:
        for f in demo:
            o.write(json.dumps(f) + "\n")
    _, drej, _ = vlib.validate_trace("TraceLab", "TraceLab.cfg", p, shards=1, heap="2g", workers=4)
    dr = {n for n, _ in drej}
    for n, f in enumerate(demo):
        if (n in dr) != f["_expect_reject"]:
            if rejects:      # a violation is being reported: the code's values are not where the demonstration assumes them
                run.note("binding demonstration inconclusive on a tree with violations")
                break
            raise vlib.Infra("binding demonstration failed on %s" % json.dumps(f)[:300])
    run.cov["binding_demo_corrupted_events"] = len(demo)
    run.sample(json.loads(lines[20]))
    for n, pr in rejects[:12]:
        ev = json.loads(lines[n])
        run.violation({"finding_key": None, "event": ev}, "%s: %s" % (ev["kind"], json.dumps(ev)[:400]))
    if rejects:
        run.cov["rejected_events"] = len(rejects)
    run.assumptions += ["cube roots are bracketed by exact integer bisection at 1e-10; harness hints are verified exactly before use"]
    return run.finish()
