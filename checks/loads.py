"""C07 / C08 / C18 / C19: the loader stack.

Design level: spec/ReaderStack.tla (one loader: tee / bufio / parser request
programs, every delivery schedule) and spec/AutoChain.tla (the chain of three
with explicit byte identities) are model-checked exhaustively within bounds,
in the repaired design (must hold) and in the as-found / mutant designs (must
fail: the spec can tell them apart).
Binding: the real loaders are driven over a corpus (repo images, TLC-generated
container files, junk and polyglots) x cuts x faults x schedules through an
instrumented source; every observation is judged by spec/LoadContract.tla via
spec/TraceLoad.tla."""
import json
import os

import vlib

MODEL_RUNS = {
    # property -> [(module, cfg, expected violated invariant or None, coverage actions)]
    "C07": [("MC_ReaderStack", "MC_ReaderStack_full.cfg", None),
            ("MC_ReaderStack", "MC_ReaderStack_teeabove.cfg", "ReplayComplete"),
            ("MC_AutoChain", "MC_AutoChain_repaired.cfg", None),
            ("MC_AutoChain", "MC_AutoChain_original.cfg", "RewindIsPrefix")],
    "C08": [("MC_ReaderStack", "MC_ReaderStack_full.cfg", None),
            ("MC_ReaderStack", "MC_ReaderStack_asfound.cfg", "FailJustified"),
            ("MC_AutoChain", "MC_AutoChain_repaired.cfg", None),
            ("MC_AutoChain", "MC_AutoChain_asfound.cfg", "AutoJustified")],
    "C18": [("MC_ReaderStack", "MC_ReaderStack_full.cfg", None),
            ("MC_AutoChain", "MC_AutoChain_repaired.cfg", None)],
    "C19": [("MC_AutoChain", "MC_AutoChain_repaired.cfg", None),
            ("MC_AutoChain", "MC_AutoChain_original.cfg", "RewindIsPrefix"),
            ("MC_AutoChain", "MC_AutoChain_asfound.cfg", "AutoJustified")],
}


def gen_cases(run, tier):
    """TLC prints the abstract container files (repaired design); returns case file paths."""
    sc = vlib.scratch()
    paths = []
    for f in ("png", "jpeg", "webp"):
        r = vlib.tlc("Containers", "Containers_%s_repaired.cfg" % f, heap="4g")
        if r.violated or not r.printed:
            raise vlib.Infra("Containers/%s did not produce cases" % f)
        run.add_tlc("Containers/%s (corpus generation)" % f, r)
        p = os.path.join(sc, "cases_%s.ndjson" % f)
        with open(p, "w") as o:
            for c in r.printed:
                o.write(json.dumps(c) + "\n")
        paths.append(p)
    return paths


def describe(pid, ev, pr):
    if pid == "C07":
        return ("%s loader, input %s (%d bytes) cut at %d with %s under schedule %s, source %s, drained by %s: replay gave %d bytes "
                "(%d matching) ending with %s%s" % (ev["loader"], ev["item"], ev["n"], ev["cut"], ev["fault"],
                                                     ev["sched"], ev.get("shape"), ev.get("drain", "read%s copy-after %s" % (ev.get("drain_buf"), ev.get("drain_copy_after"))),
                                                     ev["replay_len"], ev["prefix"], ev["final"],
                                                     ", PANIC" if ev["panic"] else ""))
    if pid == "C08":
        bad = [ev["outs"][i - 1] for i in pr.get("detail", [])[:3]]
        return "%s on %s: outcome under full delivery %s, but %s" % (ev["loader"], ev["item"], ev["outs"][0][1], bad)
    if pid == "C18":
        return "%s on %s: pulled %d, layout %s, outcome %s, truncated reload %s" % (
            ev["loader"], ev["item"], ev["pulled"], json.dumps(ev["layout"]), ev["outcome"], ev["trunc_outcome"])
    return "auto=%s but png=%s jpeg=%s webp=%s on %s cut %d (replay %d/%d %s)" % (
        ev["auto"], ev["png"], ev["jpeg"], ev["webp"], ev["item"], ev["cut"], ev["auto_prefix"],
        ev["auto_replay_len"], ev["auto_final"])


def check(pid, tier, args):
    run = vlib.Run(pid, tier)
    drive = vlib.go_build("cmd/drive")
    # 1. design-level model checking
    for module, cfg, expect in MODEL_RUNS[pid]:
        r = vlib.tlc(module, cfg, heap="4g", coverage=(expect is None))
        if expect is None:
            if r.violated:
                raise vlib.Infra("%s/%s: repaired design violates %s (model error)" % (module, cfg, r.violated))
            acts = [k.split("!")[1] for k in r.coverage if not k.endswith("!Init")]
            dead = [a for a in acts if a != "SingleRead" and all(v[1] == 0 for k, v in r.coverage.items() if k.endswith("!" + a))]
            if dead:
                raise vlib.Infra("vacuous: actions never taken in %s: %s" % (cfg, dead))
        elif r.violated != expect:
            raise vlib.Infra("%s/%s should violate %s but gave %s: the spec lost its teeth" % (module, cfg, expect, r.violated))
        run.add_tlc("%s/%s%s" % (module, cfg, " (expected counterexample: %s)" % expect if expect else ""), r)
    # 1b. the model of the standard library against the standard library: TLC-generated
    #     behaviours of ReaderStack (BUF = 16, the smallest bufio.Reader) replayed on the
    #     real TeeReader / bufio.Reader / io.ReadFull stack; the model must predict outcome,
    #     bytes pulled, bytes consumed, tee length and the number of source reads exactly
    if pid in ("C07", "C08", "C18"):
        nb = 0
        for mode in ("full", "single"):
            r = vlib.tlc("MC_ReaderStack", "MC_ReaderStack_gen_%s.cfg" % mode, workers=8, heap="2g",
                         simulate="num=%d" % (300 if tier == "quick" else 5000), depth=80, tlc_seed=vlib.seed(), timeout=1800)
            if r.violated:
                raise vlib.Infra("ReaderStack generation violated %s" % r.violated)
            beh = sorted({json.dumps(b, sort_keys=True) for b in r.printed if isinstance(b, dict) and "sched" in b})
            if len(beh) < 100:
                raise vlib.Infra("too few ReaderStack behaviours generated (%d)" % len(beh))
            path = os.path.join(vlib.scratch(), "rs_%s.ndjson" % mode)
            open(path, "w").write("\n".join(beh) + "\n")
            p = vlib.run([drive, "bufiomodel", "-cases", path], timeout=1800)
            st = json.loads(p.stdout.strip().splitlines()[-1])
            if st["mismatches"]:
                raise vlib.Infra("ReaderStack (ReadMode=%s) mispredicts the real bufio/tee stack on %d of %d behaviours: %s" % (
                    mode, st["mismatches"], st["behaviours"], st["first"][:600]))
            nb += st["behaviours"]
            run.cov["models"].append({"model": "MC_ReaderStack/gen_%s (simulation; behaviours replayed on the real bufio stack)" % mode,
                                      "distinct_states": 0, "states_generated": r.generated, "depth": 80, "wall_s": round(r.wall, 2), "bounds": {"BUF": 16, "MaxN": 44}})
        run.cov["readerstack_behaviours_replayed_on_real_bufio"] = nb
    # 1c. unbounded source length and buffer size: Apalache discharges the inductive invariant of
    #     the reader-stack core (Init => IndInv; IndInv /\ Next => IndInv')
    if pid in ("C07", "C18"):
        import shutil, subprocess, tempfile, time as _t
        wd = tempfile.mkdtemp(prefix="apa-", dir=vlib.scratch())
        shutil.copy(os.path.join(vlib.SPEC, "ReaderStackInd.tla"), wd)
        t0 = _t.time()
        for init, length in (("Init", "0"), ("IndInit", "1")):
            try:
                pa = subprocess.run(["apalache-mc", "check", "--cinit=ConstInit", "--init=" + init, "--inv=IndInv",
                                     "--length=" + length, "ReaderStackInd.tla"], cwd=wd, capture_output=True, text=True, timeout=600)
            except subprocess.TimeoutExpired:
                raise vlib.Infra("apalache timed out")
            if "EXITCODE: OK" not in pa.stdout:
                raise vlib.Infra("Apalache did not discharge the inductive invariant (%s, length %s): %s" % (init, length, pa.stdout[-800:]))
        run.cov["apalache_inductive_invariant"] = {"module": "ReaderStackInd", "invariant": "IndInv (tee = pulled, 0 <= consumed <= pulled <= n, pulled - consumed <= BUF)",
                                                   "obligations": ["Init => IndInv", "IndInv /\\ Next => IndInv'"], "unbounded": "n and BUF symbolic",
                                                   "wall_s": round(_t.time() - t0, 1)}
        shutil.rmtree(wd, ignore_errors=True)
    # 2. corpus from TLC-generated container files, real loaders, instrumented source
    cases = gen_cases(run, tier)
    out = os.path.join(vlib.scratch(), "loads")
    os.makedirs(out, exist_ok=True)
    extra = []
    if pid in ("C07", "C19"):
        # the ways a client may use a loader (spec/Usage.tla): the whole product, from TLC
        ru = vlib.tlc("Usage", "Usage.cfg", heap="1g", workers=1)
        if ru.violated or len(ru.printed) != ru.distinct:
            raise vlib.Infra("Usage.tla did not print its combinations")
        run.add_tlc("Usage (presentation x delivery x fault x drain)", ru)
        up = os.path.join(out, "usage.ndjson")
        with open(up, "w") as f:
            for u in ru.printed:
                f.write(json.dumps(u) + "\n")
        run.cov["usage_combinations"] = len(ru.printed)
        extra = ["-usage", up]
    cmd = [drive, "loads", "-cases", ",".join(cases), "-out", out, "-tier", tier,
           "-seed", str(vlib.seed()), "-props", pid.lower(), "-repo", vlib.REPO] + extra
    p = vlib.run(cmd, timeout=6000, check=False)
    if p.returncode != 0:
        # a fatal runtime error inside a loader (stack exhaustion, concurrent map writes ...) cannot be
        # recovered by anybody: the process dies.  That death is an observation of the real code, claimed
        # once it has been seen a second time; anything else is machinery.
        def fatal(pr):
            return pr.returncode != 0 and ("fatal error:" in pr.stderr or "panic:" in pr.stderr) and "mandykoh/prism/meta" in pr.stderr
        if not fatal(p):
            raise vlib.Infra("loads driver failed (%d): %s" % (p.returncode, p.stderr[-2000:]))
        again = vlib.run(cmd, timeout=6000, check=False)
        if not fatal(again):
            raise vlib.Infra("loads driver died once with a runtime error inside the library and not again: %s" % p.stderr[-1500:])
        first = [l for l in again.stderr.splitlines() if l.startswith("fatal error:") or l.startswith("panic:") or l.startswith("runtime:")][:2]
        frames = [l.strip() for l in again.stderr.splitlines() if "mandykoh/prism/meta" in l][:4]
        run.violation({"finding_key": None, "stderr_first": p.stderr[:1500], "stderr_second": again.stderr[:1500]},
                      "the process died twice inside a loader (%s): %s" % ("; ".join(first), "; ".join(frames)[:300]))
        run.cov["traces_validated_against_impl"] = 0
        return run.finish()
    stats = json.loads(p.stdout.strip().splitlines()[-1])
    trace = os.path.join(out, pid.lower() + ".ndjson")
    # 3. TLC judges every observation with LoadContract
    results, rejects, lines = vlib.validate_trace("TraceLoad", "TraceLoad_%s.cfg" % pid, trace,
                                                  shards=8, heap="4g")
    for res in results:
        run.add_tlc("TraceLoad/" + pid, res)
    run.cov["traces_validated_against_impl"] = len(lines)
    run.cov["corpus_items"] = stats["items"]
    for n in (0, len(lines) // 2, len(lines) - 1):
        ev = json.loads(lines[n])
        if "outs" in ev:
            ev["outs"] = ev["outs"][:3] + [["...", "%d schedules in all" % len(ev["outs"])]]
        run.sample(ev)
    if pid == "C08":
        run.cov["schedules_per_input_max"] = max(len(json.loads(l)["outs"]) for l in lines)
        run.cov["loads_observed"] = sum(len(json.loads(l)["outs"]) for l in lines)
    for n, pr in rejects[:20]:
        ev = json.loads(lines[n])
        what = describe(pid, ev, pr)
        if "outs" in ev:
            bad = [ev["outs"][i - 1] for i in pr.get("detail", [])]
            ev["outs"] = [ev["outs"][0]] + bad[:10]
        run.violation({"finding_key": None, "event": ev, "trace_spec": "TraceLoad.tla Prop=" + pid,
                       "reproduce": "bin/check %s %s (VERIF_SEED=%d)" % (pid, tier, vlib.seed())},
                      what)
    run.cov["bounds"] = {"ReaderStack": "MaxN=9 BUF=4 programs<=3 requests over 7 request kinds",
                         "AutoChain": "MaxN=7 BUF=3 6 programs per loader, winner 0..3",
                         "tier": tier}
    run.assumptions += ["instrumented source never returns (0, nil)",
                        "bytes of generated files are position-coded / pseudo-random; equality of replay is byte-for-byte"]
    return run.finish()
