"""C05 / C06: container grammar, contract, impl-shaped parsers (spec/Containers.tla),
binding G (TLC-generated files replayed on the real loaders) and binding T
(observations validated by spec/TraceContainers.tla)."""
import json
import os

import vlib

FORMATS = ["webp", "jpeg", "png"]


def finding_key(pid, ev):
    """Stable identification of the failing input class (for known_findings.json)."""
    kinds = [c["t"] for c in ev["file"]]
    o = ev["obs"]
    if ev["fmt"] == "webp" and kinds[0] == "VP8" and o["h"] == 0:
        return "webp-vp8-height"
    if ev["fmt"] == "png" and not o["ok"] and any(c["t"] == "iCCP" and c.get("cross") for c in ev["file"]):
        return "png-iccp-across-buffer-window"
    if ev["fmt"] == "jpeg" and o["icc"][0] == "data":
        return "jpeg-icc-error-overwritten"
    return None


def check(pid, tier, args):
    run = vlib.Run(pid, tier)
    drive = vlib.go_build("cmd/drive")
    variants = 1 if tier == "quick" else 3
    letters = 2 if tier == "quick" else 3
    total_events = 0
    sc = vlib.scratch()

    # 0. the specification can tell the defects found from the repaired design
    #    (anti-vacuity of the model itself): the as-found designs must violate Conforms
    for f in FORMATS:
        r = vlib.tlc("Containers", "Containers_%s_asfound.cfg" % f, heap="2g")
        if r.violated != "Conforms":
            raise vlib.Infra("as-found design of %s no longer violates Conforms: spec lost its teeth" % f)
        run.add_tlc("Containers/%s/as_found (expected counterexample)" % f, r)

    for f in FORMATS:
        # 1. model-check the repaired impl-shaped parser against the contract, print cases
        cfgtext = open(os.path.join(vlib.SPEC, "Containers_%s_repaired.cfg" % f)).read()
        cfgtext = cfgtext.replace("MaxLetters = 2", "MaxLetters = %d" % letters)
        cfgname = "_gen_%s_%d.cfg" % (f, os.getpid())
        open(os.path.join(vlib.SPEC, cfgname), "w").write(cfgtext)
        try:
            r = vlib.tlc("Containers", cfgname, heap="6g", coverage=(f != "png"), timeout=3000)
        finally:
            os.remove(os.path.join(vlib.SPEC, cfgname))
        if r.violated:
            raise vlib.Infra("repaired design violates %s on %s: the model is wrong, not the code\n%s" % (
                r.violated, f, "".join(r.trace[-1:])))
        if f != "png":
            step = {"png": "PngStep", "jpeg": "JpegStep", "webp": "WebpStep"}[f]
            vlib.require_coverage(r, [step, "Report"])
        run.add_tlc("Containers/%s/repaired" % f, r, {"MaxLetters": letters})
        cases = os.path.join(sc, "cases_%s.ndjson" % f)
        with open(cases, "w") as o:
            for c in r.printed:
                o.write(json.dumps(c) + "\n")
        if not r.printed:
            raise vlib.Infra("no cases printed for %s" % f)

        # 2. binding G: concretise and run the real loaders
        events = os.path.join(sc, "events_%s.ndjson" % f)
        p = vlib.run([drive, "containers", "-cases", cases, "-out", events, "-variants", str(variants)],
                     timeout=3000)
        stats = json.loads(p.stdout.strip().splitlines()[-1])
        run.cov.setdefault("generator_validated_by_std_decoders", 0)
        run.cov["generator_validated_by_std_decoders"] += stats["std_validated"]

        # 3. binding T: TLC judges every observation with the contract operator
        cfg = "TraceContainers_%s.cfg" % pid
        results, rejects, lines = vlib.validate_trace("TraceContainers", cfg, events,
                                                      shards=8 if f == "png" else 2)
        for res in results:
            run.add_tlc("TraceContainers/%s" % f, res)
        total_events += len(lines)
        impl = {n + 1: c["impl"] for n, c in enumerate(r.printed)}
        drift = 0
        go_nonmember = set()
        for n, l in enumerate(lines):
            ev = json.loads(l)
            if n < 1 or (f == "jpeg" and n == 301):
                run.sample({k: ev[k] for k in ("fmt", "loader", "file", "obs")})
            if not ev["go_member"]:
                go_nonmember.add(n)
            if ev["obs"] != impl[ev["id"]]:
                drift += 1
        run.cov.setdefault("drift_events", 0)
        run.cov["drift_events"] += drift
        if drift:
            run.note("DRIFT: %d observations of %s differ from the impl-shaped model's prediction "
                     "(contract decides; not an alarm)" % (drift, f))
        # Go's own membership test must agree with TLC on the unprojected contract
        tlc_rej = {n for n, _ in rejects}
        if not tlc_rej <= go_nonmember:
            raise vlib.Infra("TLC rejected events that the harness's membership test accepted")
        unreproduced = []
        for n, pr in rejects:
            ev = json.loads(lines[n])
            # reproduce once more on the real code, from the concrete bytes
            rp = vlib.run([drive, "containers", "-cases", cases, "-only",
                           "%d:%d:%s" % (ev["id"], ev["variant"], ev["loader"])], timeout=600)
            again = json.loads(rp.stdout[:rp.stdout.index("\nallowed:")])
            if again["obs"] != ev["obs"]:
                # an observation that depends on what else the process was doing (recycled
                # storage, scheduling) may not come back in a fresh process: it is never a
                # verdict by itself; the others are still tried
                unreproduced.append("%s vs %s" % (again["obs"], ev["obs"]))
                if len(unreproduced) > 40:
                    break
                continue
            run.violation({"finding_key": finding_key(pid, ev), "fmt": f, "case_id": ev["id"],
                           "variant": ev["variant"], "loader": ev["loader"], "file": ev["file"],
                           "observed": ev["obs"], "cases_from": "Containers_%s_repaired.cfg MaxLetters=%d" % (f, letters),
                           "replay": "bin/check %s --replay <this file>" % pid},
                          "%s loader on %s: observed %s not allowed by the contract" % (
                              ev["loader"], json.dumps(ev["file"])[:160], json.dumps(ev["obs"])))
            if len(run.violations) >= 20:
                break
        if unreproduced:
            run.note("%d rejected observations of %s did not reproduce in a fresh process (e.g. %s)" % (len(unreproduced), f, unreproduced[0]))
            if not run.violations:
                raise vlib.Infra("rejected observation did not reproduce: %s" % unreproduced[0])
    if pid in ("C05", "C06"):
        # C05: dimension sweeps, every header field driven through its bit patterns (binding T)
        # C06: the same sweep files (no profile: (nil, nil)) plus 255-chunk, full-size-chunk and multi-MiB embeddings
        events = os.path.join(sc, "events_dims.ndjson")
        vlib.run([drive, "dims", "-out", events, "-tier", tier if pid == "C05" else "quick", "-seed", str(vlib.seed())]
                 + (["-icc"] if pid == "C06" else []), timeout=3000)
        results, rejects, lines = vlib.validate_trace("TraceContainers", "TraceContainers_%s.cfg" % pid, events,
                                                      shards=8 if tier == "thorough" else 2)
        for res in results:
            run.add_tlc("TraceContainers/dims", res)
        total_events += len(lines)
        run.sample(json.loads(lines[len(lines) // 2]))
        for n, pr in rejects[:20]:
            ev = json.loads(lines[n])
            run.violation({"finding_key": finding_key(pid, ev), "fmt": ev["fmt"], "loader": ev["loader"],
                           "file": ev["file"], "observed": ev["obs"], "source": "dimension sweep"},
                          "%s loader on %s: observed %s" % (ev["loader"], json.dumps(ev["file"]), json.dumps(ev["obs"])))
        run.cov["dimension_sweep_events"] = len(lines)
    if pid in ("C05", "C06"):
        # two loads at once: every interleaving of their sources' deliveries (Interleave.tla), each
        # load compared with the same load executed alone (whose outcome the parts above decide)
        import icchdr
        scheds = icchdr.interleavings(run)
        iso = os.path.join(sc, "iso")
        os.makedirs(iso, exist_ok=True)
        with open(os.path.join(iso, "scheds.ndjson"), "w") as f:
            for k in range(2 if tier == "quick" else 20):
                for s_ in scheds:
                    f.write(json.dumps(s_) + "\n")
        p = vlib.run([drive, "interleave", "-what", "loaders", "-scheds", os.path.join(iso, "scheds.ndjson"), "-out", iso,
                      "-seed", str(vlib.seed() + (5 if pid == "C05" else 6)), "-repo", vlib.REPO], timeout=3000)
        st = json.loads(p.stdout.strip().splitlines()[-1])
        if st["followed"] * 2 < st["schedules"]:
            raise vlib.Infra("only %d of %d loader interleavings could be forced" % (st["followed"], st["schedules"]))
        run.cov["forced_loader_interleavings"] = st
        results, rejects, lines = vlib.validate_trace("TraceIsolation", "TraceIsolation.cfg", os.path.join(iso, "iso.ndjson"), shards=2, heap="1g")
        for res in results:
            run.add_tlc("TraceIsolation", res)
        total_events += len(lines)
        for n, pr in rejects[:6]:
            ev = json.loads(lines[n])
            run.violation({"finding_key": None, "event": ev},
                          "%s loader on %s while another loads %s (schedule %s): returned %s, alone it returns %s" % (
                              ev["loader"], ev["file"], ev["other"], ev["sched"], ev["got"], ev["solo"]))
    run.cov["traces_validated_against_impl"] = total_events
    run.cov["exhaustive"] = True
    run.cov["bounds"] = {"jpeg_free_segments": letters, "variants_per_file": variants,
                         "png_files": "IHDR x (anc)* x iCCP variants x (anc)* x tail, see PngFiles",
                         "webp_files": "see WebpFiles"}
    run.assumptions += [
        "payload bytes are opaque to the parsers (data independence); identities are mapped to "
        "payloads of 1 B..3 MiB straddling 4095/4096/4097 and 65519",
        "the Go concretiser is validated against image/png, image/jpeg, x/image/webp DecodeConfig "
        "wherever those decoders accept the file",
    ]
    return run.finish()
