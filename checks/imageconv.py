"""C15: image type conversion helpers equal draw.Draw(Src)
(spec/PixelConv.tla: integer pixel semantics of image/color; TraceImageConv.tla)."""
import json
import os

import vlib


def check(pid, tier, args):
    run = vlib.Run(pid, tier)
    drive = vlib.go_build("cmd/drive")
    r = vlib.tlc("MC_PixelConv", "MC_PixelConv.cfg", heap="2g", workers=8)
    if r.violated or r.distinct != 256:
        raise vlib.Infra("PixelConv lemmas failed: %s" % r.violated)
    run.add_tlc("MC_PixelConv (transcription lemmas)", r)
    # the row-striping skeleton shared with C10 (same structure, identity geometry)
    r = vlib.tlc("MC_ImageXform", "MC_ImageXform_interleave.cfg", heap="3g")
    if r.violated:
        raise vlib.Infra("ImageXform skeleton violates %s" % r.violated)
    run.add_tlc("MC_ImageXform/interleave (row striping skeleton)", r)
    out = os.path.join(vlib.scratch(), "c15")
    os.makedirs(out, exist_ok=True)
    cmd = [drive, "imageconv", "-out", out, "-tier", tier, "-seed", str(vlib.seed())]
    p = vlib.run(cmd, timeout=3000, check=False)
    if p.returncode != 0:
        # a panic inside one of the library's worker goroutines cannot be recovered by the caller: the
        # process dies.  That death is an observation of the real code; the job is found by re-running
        # the structural part one job at a time with a marker written before each.
        if "goroutine" not in p.stderr or "mandykoh" not in p.stderr:
            raise vlib.Infra("imageconv driver failed: %s" % p.stderr[-1500:])
        marker = os.path.join(vlib.scratch(), "conv_marker.ndjson")
        p2 = vlib.run(cmd + ["-structonly", "-serial", marker, "-name", "serial.ndjson"], timeout=6000, check=False)
        if p2.returncode == 0:
            raise vlib.Infra("driver crash did not reproduce one job at a time: %s" % p.stderr[-1500:])
        last = json.loads(open(marker).read().strip().splitlines()[-1])
        first_line = [l for l in p2.stderr.splitlines() if l.startswith("panic:") or l.startswith("fatal error:")][:1]
        run.violation({"finding_key": None, "crashing_job": last, "stderr": p2.stderr[:1500]},
                      "process died (%s) in %s on %s %s margins %s parallelism %d" % (
                          first_line[0] if first_line else "crash", last["helper"], last["src"], last["rect"], last["margins"], last["par"]))
        run.cov["traces_validated_against_impl"] = 0
        run.sample(last)
        return run.finish()
    # the structural part again with fewer processors than the requested parallelism
    procs = ["2"] if tier == "quick" else ["2", "1", "5"]
    with open(os.path.join(out, "c15.ndjson"), "a") as f:
        for k, pr in enumerate(procs):
            vlib.run([drive, "imageconv", "-out", out, "-tier", tier, "-seed", str(vlib.seed() + 1 + k), "-structonly", "-name", "p.ndjson"],
                     timeout=3000, env=dict(vlib.goenv(), GOMAXPROCS=pr))
            f.write(open(os.path.join(out, "p.ndjson")).read())
    run.cov["gomaxprocs"] = ["default"] + procs
    results, rejects, lines = vlib.validate_trace("TraceImageConv", "TraceImageConv.cfg",
                                                  os.path.join(out, "c15.ndjson"), shards=8, heap="4g", timeout=3000)
    for res in results:
        run.add_tlc("TraceImageConv", res)
    run.cov["traces_validated_against_impl"] = len(lines)
    rejected = {n for n, _ in rejects}
    npix = nstruct = 0
    for n, l in enumerate(lines):
        ev = json.loads(l)
        if ev["kind"] == "pixel":
            npix += 1
        else:
            nstruct += 1
        spec_ok = n not in rejected
        if ev["kind"] == "struct":
            if not spec_ok or not ev["dd"]:
                if len(run.violations) < 12:
                    run.violation({"finding_key": None, "event": ev},
                                  "%s on %s %s margins %s parallelism %d: %s" % (
                                      ev["helper"], ev["src"], ev["rect"], ev["margins"], ev["par"],
                                      {k: ev[k] for k in ("panic", "bounds_equal", "src_unchanged", "same_instance", "expect_same", "dd")}))
            continue
        if spec_ok and ev["dd"]:
            continue
        if spec_ok != ev["dd"]:
            # the specification's transcription of the standard library disagrees with
            # draw.Draw itself: that is an error of the machinery, never a verdict
            raise vlib.Infra("PixelConv and draw.Draw disagree on %s (spec accepts: %s, equals draw.Draw: %s)" % (
                json.dumps(ev), spec_ok, ev["dd"]))
        if len(run.violations) < 12:
            run.violation({"finding_key": None, "event": ev},
                          "%s parallelism %d: %s pixel %s -> %s, standard library semantics give something else" % (
                              ev["helper"], ev["par"], ev["s"], ev["i"], ev["o"]))
    run.cov["pixel_events"], run.cov["structural_events"] = npix, nstruct
    run.cov["exhaustive"] = False
    run.cov["bounds"] = {"pixel_contents": "all 2^16 NRGBA (channel, alpha) pairs, all valid RGBA pairs, YCbCr R over all (Y,Cr) and "
                                           "B over all (Y,Cb), CMYK (C,K) pairs, 16-bit sweeps; stride %d" % (5 if tier == "quick" else 1),
                         "structure": "18 source types x 7 rectangles (negative/positive origins, empty, 1xN, Nx1) x plain/sub-image x 3 helpers x parallelism {1,2,3,7,16,rows+5}"}
    run.sample(json.loads(lines[10]))
    run.sample(json.loads(lines[-1]))
    run.assumptions += ["for the non-premultiplied target, source colours are valid alpha-premultiplied colours (the domain on which Convert and draw.Draw agree); for the premultiplied targets every byte value in every channel position is used, invalid colours included",
                        "draw.Draw(Src) on the same inputs validates the transcription: a disagreement between PixelConv and draw.Draw is exit 2"]
    return run.finish()
