"""C01 / C02 / C14: transfer functions and quantisers judged by spec/Colour.tla
over the exact arithmetic of spec/Num.tla (role C: the specification as an
independent exact oracle for the published standards)."""
import json
import os
import random

import vlib


def num_selftest(run):
    r = vlib.tlc("MC_Num", "MC_Num.cfg", heap="3g", workers=8, timeout=900)
    if r.violated:
        raise vlib.Infra("Num.tla self-test failed (%s): the oracle's arithmetic is broken" % r.violated)
    run.add_tlc("MC_Num (self-test of the exact arithmetic)", r)


def tolimbs(v):
    out = []
    while v > 0:
        out.append(v % 1000)
        v //= 1000
    return out


def fromlimbs(l):
    return sum(x * 1000 ** i for i, x in enumerate(l))


def validate(run, name, trace, shards=16):
    results, rejects, lines = vlib.validate_trace("TraceColour", "TraceColour.cfg", trace, shards=shards,
                                                  heap="3g", workers=2, timeout=3000)
    for res in results:
        run.add_tlc(name, res)
    return rejects, lines


def binding_demo(run, lines, kind, field_lo, field_hi, big, small, rejected=()):
    """Corrupt recorded observations: a shift beyond the tolerance must be rejected,
    a shift well inside it accepted (the trace spec constrains values, not just length)."""
    rng = random.Random(vlib.seed())
    rejected = set(rejected)
    picks = [json.loads(l) for n, l in enumerate(lines)
             if n not in rejected and ('"kind":"%s"' % kind) in l and '"exact":true' in l and '"code":0,' not in l]
    picks = rng.sample(picks, min(12, len(picks)))
    if not picks:
        return
    out = []
    for e in picks:
        # big is more than twice the tolerance: whatever an accepted observation's own deviation,
        # the shifted one is outside.  A small shift is accepted in at least one direction.
        for delta, expect in ((big, True), (-big, True), (small, False), (-small, False)):
            v = fromlimbs(e[field_lo]) + delta
            if v < 0:
                continue
            f = dict(e)
            f[field_lo], f[field_hi] = tolimbs(v), tolimbs(v + 1)
            f["_expect_reject"] = expect
            out.append(f)
    p = os.path.join(vlib.scratch(), "demo_%s.ndjson" % kind)
    with open(p, "w") as o:
        for f in out:
            o.write(json.dumps(f) + "\n")
    results, rejects, dl = vlib.validate_trace("TraceColour", "TraceColour.cfg", p, shards=1, heap="2g", workers=4)
    rej = {n for n, _ in rejects}
    problem = None
    small_ok = {}
    for n, f in enumerate(out):
        if f["_expect_reject"]:
            if n not in rej:
                problem = "corrupted observation %s was accepted" % json.dumps(f)[:200]
        else:
            key = (f["space"], f["depth"], f["code"])
            small_ok[key] = small_ok.get(key, False) or n not in rej
    for key, ok in small_ok.items():
        if not ok:
            problem = "a shift well inside the tolerance was rejected in both directions for %s" % (key,)
    run.cov["binding_demo_corrupted_events"] = len(out)
    if problem:
        # with rejected observations present (a violation is being reported) the code's values are not
        # where the demonstration assumes them: then it is only noted
        if rejected:
            run.note("binding demonstration inconclusive on a tree with violations: " + problem)
        else:
            raise vlib.Infra("binding demonstration failed: " + problem)


FIRSTUSE = ["d-from16", "d-enc-nrgba64", "d-enc-rgba64", "d-enc-gray16", "d-enc-nrgba", "d-enc-gray", "d-lin-nrgba64",
            "d-lin-rgba64", "d-lin-gray", "d-linimg", "e-to16", "e-enc-rgba64", "e-enc-nrgba64", "e-enc-translucent", "e-enc-gray16",
            "e-torgba64", "e-torgba64-half", "e-encimg",
            "d-from8", "d-fromrgba8", "d-fromnrgba8", "e-to8", "e-tonrgba8", "e-torgba8"]


FIRSTUSE_MSG = "%s entry point %s as the first call of a fresh process (GOMAXPROCS %s) returned %s; repeated later %s; per-component functions %s %s"


def first_use_events(drive, prefixes, procs=(None, "3")):
    """One fresh process per (space, entry point, GOMAXPROCS): that entry point is the first call
    the process makes into the library."""
    from concurrent.futures import ThreadPoolExecutor
    jobs = [(sp, e, p) for sp in ("srgb", "adobergb", "prophotorgb", "displayp3") for e in FIRSTUSE
            if e[0] in prefixes for p in procs]

    def one(j):
        sp, e, p = j
        env = dict(vlib.goenv(), GOMAXPROCS=p) if p else vlib.goenv()
        r = vlib.run([drive, "firstuse", "-space", sp, "-entry", e], timeout=120, env=env, check=False)
        line = r.stdout.strip().splitlines()[-1] if r.stdout.strip() else ""
        if not line.startswith("{"):
            # the process died (a fatal error is not recoverable): that is the observation
            line = json.dumps({"kind": "firstuse", "space": sp, "entry": e, "panic": True, "first": [], "again": [], "ref": [],
                               "panic_msg": "process died: " + r.stderr[-300:]})
        ev = json.loads(line)
        ev["gomaxprocs"] = p or "default"
        return json.dumps(ev, separators=(",", ":"))
    with ThreadPoolExecutor(max_workers=8) as ex:
        return list(ex.map(one, jobs))


def check_c01(run, tier, drive):
    out = os.path.join(vlib.scratch(), "c01")
    os.makedirs(out, exist_ok=True)
    vlib.run([drive, "decode", "-out", out, "-tier", tier, "-seed", str(vlib.seed())], timeout=3000)
    # the lazily built tables under other process histories: first-use order x GOMAXPROCS at build
    # time (fresh process each; LazyLut says the table's content depends on neither)
    hist = [("encode-first", 3), ("mixed", 6)] if tier == "quick" else \
           [("encode-first", 3), ("mixed", 6), ("encode-first", 1), ("mixed", 2), ("decode-first", 5), ("encode-first", 7), ("mixed", 12), ("decode-first", 13)]
    with open(os.path.join(out, "c01.ndjson"), "a") as f:
        for k, (h, procs) in enumerate(hist):
            vlib.run([drive, "decode", "-out", out, "-tier", "quick", "-light", "-seed", str(vlib.seed() + k), "-history", h, "-name", "h.ndjson"],
                     timeout=3000, env=dict(vlib.goenv(), GOMAXPROCS=str(procs)))
            f.write(open(os.path.join(out, "h.ndjson")).read())
    run.cov["process_histories"] = ["decode-first/P%d" % vlib.NCPU] + ["%s/P%d" % hp for hp in hist]
    fu = first_use_events(drive, "d")
    with open(os.path.join(out, "c01.ndjson"), "a") as f:
        f.write("\n".join(fu) + "\n")
    run.cov["first_use_processes"] = len(fu)
    rejects, lines = validate(run, "TraceColour/C01", os.path.join(out, "c01.ndjson"))
    run.cov["traces_validated_against_impl"] = len(lines)
    nexact = sum(1 for l in lines if '"exact":true' in l)
    run.cov["events_with_exact_relation"] = nexact
    run.cov["exhaustive"] = tier == "thorough"
    run.cov["bounds"] = {"codes": "all 256 + all 65,536 codes x 4 spaces (Zero/One/StrictMono/Cross/EntryPointsAgree on every code)",
                         "exact_relation": "every 8-bit code; 16-bit: %s" % (
                             "every code" if tier == "thorough" else
                             "multiples of 257, junctions +-8, first/last 64, 2048 stratified seeded codes per space")}
    binding_demo(run, lines, "decode", "ylo", "yhi", 7 * 10 ** 11, 10 ** 11 // 2, [n for n, _ in rejects])
    run.sample(json.loads(lines[7]))
    for n, pr in rejects[:12]:
        ev = json.loads(lines[n])
        if ev["kind"] == "decode":
            what = "%s %d-bit code %d decodes to float32 bits %d (previous code: %d, cross %d, entry points %s)%s" % (
                ev["space"], ev["depth"], ev["code"], ev["bits"], ev["prev"], ev["cross"], ev["entry"],
                " in process history " + ev["history"] if "history" in ev else "")
        elif ev["kind"] == "firstuse":
            what = FIRSTUSE_MSG % (ev["space"], ev["entry"], ev["gomaxprocs"], ev["first"][:8], ev["again"][:8], ev["ref"][:8], ev.get("panic_msg", ""))
        else:
            what = "%s LineariseColor of opaque %d-bit code %d gives %d" % (ev["space"], ev["depth"], ev["code"], ev["out"])
        run.violation({"finding_key": None, "event": ev}, what)
    if rejects:
        run.cov["rejected_events"] = len(rejects)


def colour_lemmas(run, stride):
    cfg = "_mc_colour_%d.cfg" % os.getpid()
    open(os.path.join(vlib.SPEC, cfg), "w").write("SPECIFICATION Spec\nCONSTANT Stride = %d\nINVARIANTS Lemmas Junctions\n" % stride)
    try:
        r = vlib.tlc("MC_Colour", cfg, heap="3g", workers=16, timeout=3000)
    finally:
        os.remove(os.path.join(vlib.SPEC, cfg))
    if r.violated:
        raise vlib.Infra("Colour.tla lemma %s failed: the transcription of the standards is wrong" % r.violated)
    run.add_tlc("MC_Colour (curve lemmas on the grid, stride %d)" % stride, r)


def check_c02(run, tier, drive):
    colour_lemmas(run, 1285 if tier == "quick" else 257)
    out = os.path.join(vlib.scratch(), "c02")
    os.makedirs(out, exist_ok=True)
    vlib.run([drive, "encode", "-out", out, "-tier", tier, "-seed", str(vlib.seed())], timeout=6000)
    # the lazily built 16-bit encode tables under other process histories (as in C01)
    hist = [("decode-first", 3), ("mixed", 6)] if tier == "quick" else \
           [("decode-first", 3), ("mixed", 6), ("decode-first", 1), ("mixed", 2), ("encode-first", 5), ("decode-first", 7), ("mixed", 12), ("encode-first", 13)]
    with open(os.path.join(out, "c02.ndjson"), "a") as f:
        for k, (h, procs) in enumerate(hist):
            vlib.run([drive, "encode", "-out", out, "-tier", "quick", "-light", "-seed", str(vlib.seed() + 1 + k), "-history", h, "-name", "h.ndjson"],
                     timeout=3000, env=dict(vlib.goenv(), GOMAXPROCS=str(procs)))
            f.write(open(os.path.join(out, "h.ndjson")).read())
    run.cov["process_histories"] = ["encode-first/P%d" % vlib.NCPU] + ["%s/P%d" % hp for hp in hist]
    fu = first_use_events(drive, "e")
    with open(os.path.join(out, "c02.ndjson"), "a") as f:
        f.write("\n".join(fu) + "\n")
    run.cov["first_use_processes"] = len(fu)
    rejects, lines = validate(run, "TraceColour/C02", os.path.join(out, "c02.ndjson"))
    run.cov["traces_validated_against_impl"] = len(lines)
    kinds = {}
    for l in lines:
        k = l[l.index('"kind":"') + 8:].split('"')[0]
        kinds[k] = kinds.get(k, 0) + 1
    run.cov["events_by_kind"] = kinds
    run.cov["exhaustive"] = tier == "thorough"
    run.cov["float32_slack"] = "half code read as 1/2 + n*2^-22, window as (x+h)(1+2^-22) (declared in DESIGN 3.2, C02 only)"
    run.cov["bounds"] = {"quick": "every 8-bit table-bucket and code boundary +-2 ulp, 16-bit boundaries every 160th (seeded phase), specials, 1200 seeded floats per function",
                         "thorough": "all boundaries + run-length certificate over all 2^32 float32 bit patterns for the 9 functions"}
    run.sample(json.loads(lines[100]))
    for n, pr in rejects[:12]:
        ev = json.loads(lines[n])
        if ev["kind"] in ("encode", "run"):
            what = "%s(x with bits %s, class %s) = %d (previous output in order: %d)" % (
                ev["name"], ev.get("xbits", ev.get("first_bits")), ev.get("xclass", "run"), ev["out"], ev["prev_out"])
        else:
            what = "%s: %s" % (ev["kind"], json.dumps(ev)[:300])
        run.violation({"finding_key": None, "event": ev}, what)
    if rejects:
        run.cov["rejected_events"] = len(rejects)


def check_c14(run, tier, drive):
    colour_lemmas(run, 257 if tier == "quick" else 1)
    out = os.path.join(vlib.scratch(), "c14")
    os.makedirs(out, exist_ok=True)
    vlib.run([drive, "alpha", "-out", out, "-tier", tier, "-seed", str(vlib.seed())], timeout=6000)
    rejects, lines = validate(run, "TraceColour/C14", os.path.join(out, "c14.ndjson"))
    run.cov["traces_validated_against_impl"] = len(lines)
    run.cov["exhaustive"] = False
    run.cov["bounds"] = {"alphas": "all 65,536 (thorough) / boundaries + multiples of 257 + 3000 seeded (quick), x 4 spaces x {linearise, encode}",
                         "channels_per_alpha": "0, 1, a/2, a-1, a + 12 (quick) / 64 (thorough) seeded values <= a",
                         "8bit": "all 256 alphas through ColorFromNRGBA / ColorFromRGBA", "float_alphas": 2500,
                         "premult_valid": "sampled interior; the column c = a is recorded for every alpha; the lemma EOTF(x) <= x is "
                                          "checked by TLC on the %s grid" % ("full 16-bit" if tier == "thorough" else "257-stride")}
    run.sample(json.loads(lines[5]))
    for n, pr in rejects[:12]:
        ev = json.loads(lines[n])
        run.violation({"finding_key": None, "event": ev}, "%s: %s" % (ev["kind"], json.dumps(ev)[:300]))
    if rejects:
        run.cov["rejected_events"] = len(rejects)


CHECKS = {"C01": check_c01, "C02": check_c02, "C14": check_c14}


def check(pid, tier, args):
    run = vlib.Run(pid, tier)
    drive = vlib.go_build("cmd/drive")
    num_selftest(run)
    CHECKS[pid](run, tier, drive)
    run.assumptions += ["recorded float32 results are rendered as exact fixed-point decimals (floor/ceil at 10^-18) by math/big",
                        "Num!ProdLE rounds outward with a 24-digit mantissa: a relation is rejected only if certainly false"]
    return run.finish()
