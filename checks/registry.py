"""Registry of built checks (bin/mkmanifest turns this into MANIFEST.json)."""
HOOK_COMMITS = ["fbda34b"]
NOT_YET = {}
_G = "TLA+ grammar/contract + impl-shaped parser model checked by TLC; TLC-printed files concretised and run through the real loaders; observations judged by the contract operator in a TLA+ trace spec"
_L = "TLA+ models of the reader stack (ReaderStack.tla: tee/bufio/parser programs; AutoChain.tla: chain of three loaders with explicit byte identities) model-checked by TLC over all delivery schedules; real loaders driven through an instrumented source, observations judged by LoadContract.tla in a TLA+ trace spec"
_N = "TLA+ oracle: the published formulas as exactly decidable power relations over multi-limb arithmetic written in TLA+ (Num.tla, outward rounding), self-tested by TLC; trace validation of exact decimal renderings of the real code's results"
CHECKS = {
    "C01": {
        "text": "Colour.tla states the three published EOTFs as relations without roots ((y+-eps)^5 vs ((x+0.055)/1.055)^12, (y+-eps)^256 vs x^563, (y+-eps)^5 vs x^9, linear segments exactly) over Num.tla's exact / outward-rounded arithmetic; TLC first checks Num's identities and curve lemmas (end points, junction continuity, published mid-grey values), then judges every recorded decode: all 256 + 65,536 codes x 4 spaces for Zero, One, StrictMono (on IEEE bit patterns), tab8[v] = tab16[257v] and bit-equality of every public decode entry point; the 3e-7 relation on every 8-bit code and on the stated 16-bit subset (quick) or every code (thorough); LineariseColor within 3e-7 + half a 16-bit code.",
        "ref": "DESIGN.md 5/C01", "technique": _N,
        "note": "The oracle shares no code with math.Pow or the package's own curve functions; a relation is rejected only if certainly false (rounding margin 10^-21 relative). Each run corrupts sampled observations by +-4e-7 (must be rejected) and +5e-8 (must be accepted).",
    },
    "C02": {
        "text": "An encoded value e for input x is judged through the DECODE relation at half-codes: EOTF((e-1/2)/n) <= min(1, x+h) and EOTF((e+1/2)/n) >= max(0, x-h) with h half a table step, clip law outside (0,1), NaN returns, outputs non-decreasing in x; plain quantisers by |out - n x| <= 1/2. Quick: every 8-bit bucket/code boundary +-2 ulp, strided 16-bit boundaries, specials, seeded floats, and agreement of Color.ToNRGBA/ToRGBA/ToRGBA64 of all four spaces with the per-component encoders. Thorough: every one of the 2^32 float32 bit patterns is passed to each of the 9 functions and compressed into maximal runs of constant output; because both conjuncts are monotone in x, TLC decides the property for every float from the run records.",
        "ref": "DESIGN.md 5/C02", "technique": _N + "; run-length certificate for the exhaustive float32 sweep",
        "note": "Declared float32 slack (decided in DESIGN 3.2 before any code existed): half code read as 1/2 + n*2^-22, window as (x+h)(1+2^-22). The run-length encoding in the driver is trusted (cross-checked by totals).",
    },
    "C03": {
        "text": "Matrix.tla derives, in exact integer arithmetic, the RGB->XYZ matrix fixed by three primary chromaticities and a white point (M = C diag(adj(C) w) / (det(C) Yw)) and TLC self-tests it (adjugate identities, (1,1,1) maps to the white exactly). Spaces.tla holds the published chromaticities of the four spaces. Recorded from the real code and judged by TLC: the 8 declared chromaticities per space against the published values at their published digits; the 9 forward coefficients (unit-vector probes) within 1e-6 of the exact matrix of the DECLARED float32 chromaticities; (1,1,1) -> white with Y = 1; each unit primary keeps its chromaticity; on a lattice over [-1,2]^3 plus seeded triples, linearity within (1e-6 + 4*2^-24) max(1, sum|v|) against the exact matrix and both round trips within 2e-6 max(1, max|v|) (no clamping of out-of-range colours).",
        "ref": "DESIGN.md 5/C03", "technique": _N + "; exact rational matrix derivation in TLA+",
        "note": "The 2^24 lattice is not enumerated by TLC; linearity against the exact matrix on the lattice plus the per-coefficient bound is the certificate (DESIGN 5/C03).",
    },
    "C20": {
        "text": "For 20 published RGB spaces and seeded triangles (area >= 0.01, white strictly inside) the generated matrices are recorded and TLC checks, against the exact derivation from the same float32 chromaticities: (1,1,1) -> white, unit primaries keep their chromaticity (1e-6 kappa), from*to = I within 1e-9 kappa with kappa computed exactly. Matrix inverse, product, matrix-vector product and transpose on seeded dyadic matrices (entries k/2^20 in [-4,4], |det| >= 1e-3) are compared with the exact rational results; matrices made singular by repeated or zero columns must panic.",
        "ref": "DESIGN.md 5/C20", "technique": _N + "; exact rational 3x3 algebra in TLA+",
        "note": "Matrices with equal rows and non-dyadic entries (rounding-noise determinant) are outside the property's stated domain and not judged.",
    },
    "C14": {
        "text": "AlphaIdentity (alpha out = alpha in, integer equality) and TransparentIsZero for linearise and encode in all 4 spaces over all 65,536 alphas (thorough) or a boundary+seeded subset (quick); PremultValid (channel <= alpha stays so after linearising) on the column c = a, boundaries and seeded interior, backed by the lemma EOTF(x) <= x that TLC checks on the 16-bit grid; constructor alpha = A/max decided as correct rounding of the 24-bit mantissa in integer arithmetic; encode-side alpha through the quantiser law for float alphas incl. out of range, infinities, NaN; opaque constructors agree bit-for-bit.",
        "ref": "DESIGN.md 5/C14", "technique": _N,
        "note": "The 2.1e9 (channel, alpha) pairs are not enumerated; monotonicity of every stage in the channel plus the recorded column c = a is the argument (DESIGN 5/C14).",
    },
    "C07": {
        "text": "TLC proves, for every source of <= 9 bytes, every truncation, both terminal conditions, every delivery schedule (incl. data+EOF) and every parser program of <= 3 requests over 7 request kinds, that the rewind buffer equals what the source delivered (ReplayComplete) and, for the chain of three loaders with explicit byte identities, that every loader sees the input from byte 1 and the returned stream is the whole input (ReplayWhole); mutant wirings (tee above bufio, next loader handed the original reader) are rejected by the same invariants. The real loaders are then run on ~39k (input, cut, fault, schedule) combinations (repo images, TLC-generated container files, junk/polyglots; every prefix <= 48 bytes, strided to 8 KiB, structural boundaries +-1; EOF and sticky I/O error) and each drained stream is judged by ReplayOK.",
        "ref": "DESIGN.md 5/C07", "technique": _L,
        "note": "Model bounds small (BUF=3/4 vs 4096): scaling argued in DESIGN 3.3 and exercised by cuts/schedules at the real 4096/8192 boundaries. Sources returning (0,nil) are outside the model.",
    },
    "C08": {
        "text": "TLC proves on ReaderStack (repaired design) that failure occurs only when the data really is insufficient and success consumes exactly what was requested, for all delivery schedules; the as-found design (single Read) yields the 2-step counterexample, and AutoChain shows the same through MultiReader boundaries. The real loaders and the ICC reader (behind bufio readers of 7 sizes) are run on every corpus input under full delivery and under fixed sizes 1,2,3,7,8,4095,4096,4097, data+EOF, seeded random sizes, compositions of the first 12 bytes (also laid across offset 4090) and single cuts; TLC requires all outcomes per input to be equal (ScheduleIndependent).",
        "ref": "DESIGN.md 5/C08", "technique": _L,
        "note": "Schedules are sampled beyond the first 12 bytes (all 2^11 compositions only in thorough); outcome = success/error + format/dims/depth + ICC length and hash.",
    },
    "C09": {
        "text": "Hostile.tla defines the case matrix (every length/count/offset field of PNG chunks, JPEG segments incl. ICC chunk numbering, RIFF/WebP chunks, ICC profile size/tag count/tag offsets and sizes/textDescription count/mluc count, record size, string length and offset, crossed with 37-40 symbolic boundary classes per field: small constants, v+-1, 2^w-1-d, the signed boundary, 2^w-v so that sums wrap; plus wrapping pairs for fields the code adds together) and the budget contract (call returns, no escaped panic, allocation <= 4096 n + 4 MiB, time <= 1 s + 2 ms/KiB). TLC prints the matrix; the harness resolves each class against 11 seed files and runs every public entry point (loaders, autometa, ICCProfile, Description, ReadProfile) in address-space-limited single-threaded worker processes, together with seeded structure-aware mutants (set-field, truncate, duplicate, flip) and every truncation; TLC judges every observation with WithinBudget; a dead worker is itself an observation (died).",
        "ref": "DESIGN.md 5/C09", "technique": "TLA+ case matrix + budget contract; TLC-generated cases replayed in resource-limited processes; trace validation",
        "note": "Budget constants are deliberately loose (observed maximum on the repaired tree is 1.5% of the allocation budget); native coverage-guided fuzzing is not used (different technique).",
    },
    "C10": {
        "text": "ImageXform.tla models TransformImageColor's row striping over the linear backing array of the destination's parent exactly as PixOffset computes it; TLC explores all interleavings of up to 3 workers and proves WriteOnce (workers disjoint), InSubImage (no write outside the destination, none in the parent's margins), Exact (every destination pixel dstMin+(p-srcMin) holds source pixel p, nothing else written) and in-place safety; mutant designs (offset from Max, stripe step P+1) are rejected. Every configuration of a larger bounded space (sizes 0..3, three origins for source and destination independently, destination larger by 0/1, four parent-margin patterns, in place) is printed with the specification's write map and replayed on the real code: the 8 real transforms on all listed source types x 5 destination types with every byte of the parent's Pix compared, and TransformImageColor with position-coded colours whose observed write map TLC compares with Expected(cfg).",
        "ref": "DESIGN.md 5/C10", "technique": "TLA+ model of worker striping and PixOffset geometry checked by TLC; TLC-generated configurations replayed on real images; trace validation of observed write maps",
        "note": "Pixel values expected = destination type's Set of the package's per-colour function applied to src.At(p); subsampled YCbCr sources are kept at non-negative origins (stdlib limitation).",
    },
    "C15": {
        "text": "PixelConv.tla transcribes the integer pixel semantics of image/color (RGBA() of every standard colour type, the RGBA/RGBA64/NRGBA model conversions, the fixed-point YCbCr formula) with all arithmetic kept below 2^31, and TLC checks lemmas on the transcription. The three helpers are run on images enumerating all 2^16 NRGBA (channel, alpha) pairs, all valid RGBA pairs, YCbCr R over all (Y,Cr) and B over all (Y,Cb), CMYK, 16-bit sweeps, grey, alpha, paletted, and on 18 source types x 7 rectangles x sub-images x parallelism; TLC judges every recorded pixel with Conv and every structural observation (bounds kept, same instance exactly when the input has the target type, input untouched). draw.Draw(Src) runs on the same inputs as a validator of the transcription.",
        "ref": "DESIGN.md 5/C15", "technique": "TLA+ transcription of integer pixel functions (role B) checked by TLC; trace validation of helper outputs; draw.Draw as transcription validator",
        "note": "Valid premultiplied source colours only; all 2^24 YCbCr triples are not enumerated (R and B exhaustively over their two inputs, G on the lattices the sweeps contain).",
    },
    "C11": {
        "text": "LazyLut.tla models the lazy 16-bit tables and sync.Once step by step with a vector-clock happens-before relation; TLC explores all interleavings for 2 and 3 goroutines and proves NoRace, RetOK (every call returns the sequential value), BuiltOnce and termination for the repaired design, and finds the race in the as-found (nil-check fast path) and plain-flag designs. Every hook-level schedule TLC generates for N=2 (and a seeded sample for N=3) is forced onto each of the six real tables with spin gates on plain memory in //go:norace functions, in fresh processes under the race detector, together with un-gated first-use trials (N up to 64, GOMAXPROCS 1..16, also through LineariseColor/EncodeColor, image transforms with parallelism > 1, concurrent loaders and adaptation constructors). Hook traces recorded from the real code are validated against LazyLut with the unlogged steps inferred by TLC.",
        "ref": "DESIGN.md 5/C11", "technique": "TLA+ model with vector clocks checked by TLC; TLC schedules replayed on the real code under the Go race detector; trace validation with inferred unlogged steps",
        "note": "The race detector is the implementation-level oracle; races on paths no schedule or trial executes are not seen. Hooks: build tag verif, */lut.go.",
    },
    "C16": {
        "text": "IccHeader.tla transcribes ICC.1:2010 table 17 as (offset, length) pairs; TLC first checks the table itself (it partitions the 128 bytes, and each of the 1024 header bits flipped in an all-zeros and an all-ones header changes exactly the exposed fields Influence() names). The real reader is then run on walking ones/zeros over all 1024 bit positions of three base headers, every field all-ones/all-zeros alone, every valid date-time component, flag combinations with noise in the other 30 bits, seeded random headers with and without the signature, and Version.String on all 65,536 version byte pairs; TLC computes Expected(hdr) from the recorded header bytes and accepts or rejects every observation.",
        "ref": "DESIGN.md 5/C16", "technique": "TLA+ transcription of the ICC header layout (role B) + TLC-checked design lemma + trace validation of real ReadProfile observations",
        "note": "Dates are compared only when all six components are valid; a one-tag table follows the header so that C16 is judged independently of the tag table reader.",
    },
    "C17": {
        "text": "IccTags.tla defines the grammar of well-formed profiles (tag table in any order, data blocks in any order, shared, padded; v2 textDescription or mluc with records placed in table order, reversed, shared, gapped or overlapping) and the contract AllowedDesc; MC_IccTags checks the impl-shaped Description evaluation against it (the as-found cursor-reading and English-pick designs are rejected) and prints every profile of the bounded grammar; each is built into real bytes and read directly and through meta.Data.ICCProfile() of PNG/JPEG/WebP containers; a seeded generator scales the same grammar to 64 tags, 40 records and 2000-unit strings; TLC judges every observation.",
        "ref": "DESIGN.md 5/C17", "technique": "TLA+ grammar/contract + impl-shaped model checked by TLC; generate-and-replay; trace validation",
        "note": "Text contents are identities named by the harness (prefix comparison for overlapping placements); when every English string is empty the contract tolerates falling back to another record.",
    },
    "C18": {
        "text": "TLC proves pulled <= Need + BUF for one loader and for the chain of three under all schedules (ReadAheadBounded, ChainReadAhead). Real loaders are run on well-formed generated files with 1 MiB and 64 MiB virtual pixel bodies (and on the same files truncated just after the needed point) under 4 segmentations; TLC judges pulled <= Needed(layout) + 64 KiB and equality of the truncated reload (NoOverRead).",
        "ref": "DESIGN.md 5/C18", "technique": _L,
        "note": "Needed() is deliberately generous (end of header structure / last ICC structure / structure announcing pixel data) so that no property-respecting implementation is rejected.",
    },
    "C19": {
        "text": "TLC proves on AutoChain that each candidate loader sees the stream from its first byte and that the format's own loader fails only for lack of data (AutoJustified/AutoExact), rejecting the design in which the next loader is handed the original reader. On the real code the four loaders are run on identical bytes (corpus x cuts, two segmentations, polyglots whose first bytes satisfy another format) and TLC requires auto = first succeeding specific loader, no metadata exactly on failure, and a complete replay (AutoEquivalent).",
        "ref": "DESIGN.md 5/C19", "technique": _L,
        "note": "Outcome equality is on format/dims/depth/ICC length+hash/ICC-error presence.",
    },
    "C05": {
        "text": "TLC checks the chunk-level parser models of PNG/JPEG/WebP against the grammar-level contract for every file of a bounded grammar (all 15 PNG modes, interlace, ancillary material before/after, JPEG SOF kinds/precisions/component counts with every placement among ICC and other segments, VP8/VP8L/VP8X with scale bits and flags); every such file is concretised into real bytes (validated against the std decoders' DecodeConfig) and loaded by the format loader and autometa; every observation is accepted or rejected by TLC with the same Allowed operator. Dimension fields are additionally swept over bit patterns (exhaustively for 14- and 16-bit fields in thorough).",
        "ref": "DESIGN.md 5/C05", "technique": _G,
        "note": "Trusts the Go concretiser (checked against image/png, image/jpeg, x/image/webp) and data independence of payload bytes; bounded grammar, not all files.",
    },
    "C06": {
        "text": "Same pipeline as C05 projected on the ICC outcome: the contract allows exactly the embedded payload identity for well-formed embeddings, (nil,nil) without one, metadata + error for each damage class, and never other bytes; JPEG reassembly is explored over all sequences of ICC segments (seq 0..3, total 1..2, two payloads) around the SOF plus all permutations of a 3-chunk profile; payload identities are concretised to sizes 1 B..3 MiB straddling 4095/4096/4097 and 65518/65519.",
        "ref": "DESIGN.md 5/C06", "technique": _G,
        "note": "Bounded grammar; payload bytes opaque (data independence); 255-chunk profiles covered by the driver-side sweep only in thorough.",
    },
}
