"""Registry of built checks (bin/mkmanifest turns this into MANIFEST.json)."""
HOOK_COMMITS = []
NOT_YET = {}
_G = "TLA+ grammar/contract + impl-shaped parser model checked by TLC; TLC-printed files concretised and run through the real loaders; observations judged by the contract operator in a TLA+ trace spec"
CHECKS = {
    "C05": {
        "text": "TLC checks the chunk-level parser models of PNG/JPEG/WebP against the grammar-level contract for every file of a bounded grammar (all 15 PNG modes, interlace, ancillary material before/after, JPEG SOF kinds/precisions/component counts with every placement among ICC and other segments, VP8/VP8L/VP8X with scale bits and flags); every such file is concretised into real bytes (validated against the std decoders' DecodeConfig) and loaded by the format loader and autometa; every observation is accepted or rejected by TLC with the same Allowed operator. Dimension fields are additionally swept over bit patterns (exhaustively for 14- and 16-bit fields in thorough).",
        "ref": "DESIGN.md 5/C05", "technique": _G,
        "note": "Trusts the Go concretiser (checked against image/png, image/jpeg, x/image/webp) and data independence of payload bytes; bounded grammar, not all files.",
    },
    "C06": {
        "text": "Same pipeline as C05 projected on the ICC outcome: the contract allows exactly the embedded payload identity for well-formed embeddings, (nil,nil) without one, metadata + error for each damage class, and never other bytes; JPEG reassembly is explored over all sequences of ICC segments (seq 0..3, total 1..2, two payloads) around the SOF plus all permutations of a 3-chunk profile; payload identities are concretised to sizes 1 B..3 MiB straddling 4095/4096/4097 and 65518/65519.",
        "ref": "DESIGN.md 5/C06", "technique": _G,
        "note": "Bounded grammar; payload bytes opaque (data independence); 255-chunk profiles covered by the driver-side sweep only in thorough.",
    },
}
