"""C17: ICC tag table and description (spec/IccTags.tla, MC_IccTags.tla)."""
import json
import os

import vlib


def check(pid, tier, args):
    run = vlib.Run(pid, tier)
    drive = vlib.go_build("cmd/drive")
    # as-found designs must be rejected by the contract (the spec has teeth)
    for cfg in ("MC_IccTags_asfound.cfg", "MC_IccTags_enpick.cfg"):
        r = vlib.tlc("MC_IccTags", cfg, heap="2g")
        if r.violated != "Conforms":
            raise vlib.Infra("%s should violate Conforms" % cfg)
        run.add_tlc("MC_IccTags/%s (expected counterexample)" % cfg, r)
    cfgtext = open(os.path.join(vlib.SPEC, "MC_IccTags_repaired.cfg")).read()
    if tier == "thorough":
        cfgtext = cfgtext.replace("MaxOther = 2", "MaxOther = 3")
    name = "_gen_icctags_%d.cfg" % os.getpid()
    open(os.path.join(vlib.SPEC, name), "w").write(cfgtext)
    try:
        r = vlib.tlc("MC_IccTags", name, heap="6g", timeout=3000)
    finally:
        os.remove(os.path.join(vlib.SPEC, name))
    if r.violated or not r.printed:
        raise vlib.Infra("MC_IccTags repaired design: %s" % r.violated)
    run.add_tlc("MC_IccTags/repaired", r, {"MaxOther": 3 if tier == "thorough" else 2})
    sc = vlib.scratch()
    cases = os.path.join(sc, "cases_icc.ndjson")
    with open(cases, "w") as o:
        for c in r.printed:
            o.write(json.dumps(c) + "\n")
    out = os.path.join(sc, "c17")
    os.makedirs(out, exist_ok=True)
    seeded = 3000 if tier == "quick" else 20000
    vlib.run([drive, "iccdesc", "-cases", cases, "-out", out, "-seeded", str(seeded), "-seed", str(vlib.seed())],
             timeout=3000)
    results, rejects, lines = vlib.validate_trace("TraceIccTags", "TraceIccTags.cfg",
                                                  os.path.join(out, "c17.ndjson"), shards=8, heap="3g")
    for res in results:
        run.add_tlc("TraceIccTags", res)
    run.cov["traces_validated_against_impl"] = len(lines)
    run.cov["tlc_generated_profiles"] = len(r.printed)
    run.cov["seeded_profiles"] = seeded
    run.cov["bounds"] = {"exhaustive_core": "desc + <=%d other tags, all table orders, block orders, sharing, 3 gap patterns; "
                                            "mluc 1-3 records x 5 placements" % (3 if tier == "thorough" else 2),
                         "seeded": "0-63 other tags, 1-40 records, texts of 0/3/5/2000 UTF-16 units incl. surrogate pairs"}
    run.sample(json.loads(lines[0]))
    run.sample(json.loads(lines[-1]))
    for n, pr in rejects[:12]:
        ev = json.loads(lines[n])
        run.violation({"finding_key": None, "event": ev},
                      "Description via %s: read_ok=%s desc=%s %s on profile %s" % (
                          ev["via"], ev["read_ok"], ev["desc"], ev.get("err", ev.get("observed", "")),
                          json.dumps(ev["profile"])[:300]))
    run.assumptions.append("text contents are identities; an observed string is named by comparing it with the "
                           "candidate texts (prefixes for overlapping placements), TLC judges the identity")
    return run.finish()
