"""C11: safe concurrent (first) use.  spec/LazyLut.tla (vector-clock model of the
lazy tables and sync.Once), binding S (TLC schedules forced under -race),
binding T (hook traces validated with inferred unlogged steps)."""
import json
import os
import random
import subprocess
from concurrent.futures import ThreadPoolExecutor

import vlib

TABLES = ["srgb.from16", "srgb.to16", "adobergb.from16", "adobergb.to16", "prophotorgb.from16", "prophotorgb.to16"]
OTHERS = ["srgb.LineariseColor", "displayp3.EncodeColor"]
STATELESS = ["srgb.xyz", "adobergb.xyz", "prophotorgb.xyz", "displayp3.xyz", "ciexyz.lab", "ciexyz.adapt", "ciexyz.primaries", "icc.strings"]
ROLE = {1: "entry", 2: "build", 3: "publish", 4: "ret", 5: "ret"}


def schedules(run, n):
    r = vlib.tlc("MC_LazyLut", "MC_LazyLut_gen_%d.cfg" % n, heap="2g")
    if r.violated:
        raise vlib.Infra("LazyLut generation config violated %s" % r.violated)
    run.add_tlc("MC_LazyLut/gen N=%d (schedules)" % n, r, {"N": n})
    out = sorted({",".join(p["sched"]) for p in r.printed if isinstance(p, dict) and "sched" in p})
    if not out:
        raise vlib.Infra("no schedules generated")
    return out


def table_hash_events(drive):
    """Fresh process per (space, history): digests of the whole encode / decode table."""
    pres = ["none", "decode", "encode", "images"]
    out = []
    for sp in ("srgb", "adobergb", "prophotorgb", "displayp3"):
        enc, dec = [], []
        for pre in pres:
            env = dict(vlib.goenv(), GOMAXPROCS="3") if pre == "images" else vlib.goenv()
            p = vlib.run([drive, "tablehash", "-space", sp, "-pre", pre], timeout=300, env=env)
            d = json.loads(p.stdout.strip().splitlines()[-1])
            enc.append(d["enc"])
            dec.append(d["dec"])
        out.append(json.dumps({"kind": "tablehash", "space": sp, "pre": pres, "enc": enc, "dec": dec}, separators=(",", ":")))
    return out


def run_proc(cmd, env):
    p = subprocess.run(cmd, env=env, capture_output=True, text=True, timeout=300)
    return p.returncode, p.stdout, p.stderr


def check(pid, tier, args):
    run = vlib.Run(pid, tier)
    rng = random.Random(vlib.seed())
    # 1. design level: all interleavings
    for n in (2, 3):
        r = vlib.tlc("MC_LazyLut", "MC_LazyLut_once_only_%d.cfg" % n, heap="2g", coverage=True)
        if r.violated:
            raise vlib.Infra("repaired design violates %s" % r.violated)
        vlib.require_coverage(r, ["Entry", "OnceLoad", "Lock", "Build", "Publish", "OnceStore", "Unlock", "SlowRead", "Return"])
        run.add_tlc("MC_LazyLut/once_only N=%d" % n, r, {"N": n})
    for d in ("nilcheck_once", "plain_flag"):
        r = vlib.tlc("MC_LazyLut", "MC_LazyLut_%s_2.cfg" % d, heap="2g")
        if r.violated != "NoRace":
            raise vlib.Infra("design %s should violate NoRace (got %s)" % (d, r.violated))
        run.add_tlc("MC_LazyLut/%s N=2 (expected counterexample: NoRace)" % d, r)
    s2 = schedules(run, 2)
    s3 = schedules(run, 3)
    k3 = 24 if tier == "quick" else 2000
    s3 = rng.sample(s3, min(k3, len(s3)))
    run.cov["schedules"] = {"N=2": len(s2), "N=3 (sampled)": len(s3)}

    # 2. binding S: forced schedules + un-gated trials under the race detector
    race_bin = vlib.go_build("cmd/lazyrace", name="lazyrace-race", race=True)
    img = os.path.join(vlib.REPO, "test-images", "checkerboard-srgb.png")
    env = dict(vlib.goenv(), GORACE="exitcode=66 halt_on_error=1")
    jobs = []
    for s in s2 + s3:
        jobs.append(("gated", s, [race_bin, "-scheds", ";".join("%s=%s" % (t, s) for t in TABLES), "-file", img]))
    # GOMAXPROCS includes values that do not divide the table sizes (3, 6)
    ung = [(2, 1), (2, 2), (8, 2), (8, 16), (64, 1), (64, 16), (2, 3), (8, 6)] if tier == "quick" else \
          [(n, p) for n in (2, 3, 8, 64) for p in (1, 2, 3, 4, 6, 16)]
    reps = 2 if tier == "quick" else 40
    for (n, p) in ung:
        for rep in range(reps):
            targets = (TABLES if rep % 2 == 0 else OTHERS + ["adobergb.from16", "prophotorgb.to16", "adobergb.to16", "prophotorgb.from16"]) + \
                (STATELESS if rep % 2 == 0 else STATELESS[::-1])
            jobs.append(("ungated", "N=%d GOMAXPROCS=%d" % (n, p),
                         [race_bin, "-ungated", ",".join(targets), "-n", str(n), "-procs", str(p), "-file", img]))
    # first uses of DIFFERENT entry points released together (one target per goroutine, round robin):
    # the two tables of a space, the tables of different spaces, tables against stateless functions
    MIXES = [["srgb.from16", "srgb.to16"], ["adobergb.to16", "adobergb.from16"], ["prophotorgb.from16", "prophotorgb.to16"],
             ["srgb.to16", "srgb.LineariseColor", "displayp3.EncodeColor", "srgb.from16"],
             ["srgb.from16", "adobergb.from16", "prophotorgb.from16", "srgb.xyz", "ciexyz.adapt"]]
    for (n, p) in ([(2, 2), (4, 16), (8, 3)] if tier == "quick" else [(n, p) for n in (2, 4, 8, 32) for p in (2, 3, 16)]):
        for rep in range(2 if tier == "quick" else 20):
            for mix in MIXES:
                m = mix if rep % 2 == 0 else mix[::-1]
                jobs.append(("mixed", "N=%d GOMAXPROCS=%d %s" % (n, p, "+".join(m)),
                             [race_bin, "-mixed", ",".join(m), "-n", str(n), "-procs", str(p), "-file", img]))
    infeasible = 0
    with ThreadPoolExecutor(max_workers=8) as ex:
        results = list(ex.map(lambda j: run_proc(j[2], env), jobs))
    for (kind, desc, cmd), (rc, out, err) in zip(jobs, results):
        if rc == 0:
            continue
        if rc == 4 and "INFEASIBLE" in out:
            infeasible += 1
            continue
        if rc in (66, 3):
            # reproduce once more before claiming
            rc2, out2, err2 = run_proc(cmd, env)
            if rc2 not in (66, 3):
                run.note("a %s failure (exit %d) did not reproduce on re-run: %s" % (kind, rc, desc))
                rc2, out2, err2 = rc, out, err
            what = "data race reported by the race detector" if rc2 == 66 else "a goroutine returned a value different from the sequential one"
            head = (err2 if rc2 == 66 else out2)[:1500]
            run.violation({"finding_key": None, "kind": kind, "schedule_or_trial": desc, "command": " ".join(cmd[1:]),
                           "exit": rc2, "report": head},
                          "%s under %s %s" % (what, kind, desc))
            if len(run.violations) >= 6:
                break
        elif rc == 2 and "panic:" in err and "mandykoh/prism" in err:
            # one of the library's goroutines panicked and took the process down: an observation of the real
            # code, claimed once it has been seen a second time
            seen_again = None
            for attempt in range(3):
                rc2, out2, err2 = run_proc(cmd, env)
                if rc2 == 2 and "panic:" in err2 and "mandykoh/prism" in err2:
                    seen_again = err2
                    break
            if seen_again is None:
                run.note("a library panic under %s %s did not come back in 3 re-runs: %s" % (kind, desc, err[:300]))
                raise vlib.Infra("lazyrace died with a library panic that did not reproduce: %s" % err[:600])
            first = [l for l in seen_again.splitlines() if l.startswith("panic:")][:1]
            frames = [l.strip() for l in seen_again.splitlines() if "mandykoh/prism" in l][:4]
            run.violation({"finding_key": None, "kind": kind, "schedule_or_trial": desc, "command": " ".join(cmd[1:]), "stderr": seen_again[:1500]},
                          "a library goroutine panicked (%s) under %s %s: %s" % (first[0] if first else "panic", kind, desc, "; ".join(frames)[:300]))
            if len(run.violations) >= 6:
                break
        else:
            raise vlib.Infra("lazyrace exited %d: %s %s" % (rc, out[-500:], err[-800:]))
    run.cov["race_processes"] = len(jobs)
    run.cov["first_uses_under_race_detector"] = len(s2 + s3) * len(TABLES) + (len(jobs) - len(s2 + s3)) * 6
    if infeasible:
        run.note("DRIFT: %d forced schedules could not be realised on this code (model and code disagree on "
                 "hook order); not a verdict" % infeasible)
    run.cov["infeasible_schedules"] = infeasible

    # 3. binding T: hook traces of the real code (non-race build) are behaviours of LazyLut
    trace_bin = vlib.go_build("cmd/lazyrace", name="lazyrace-trace", race=False)
    trials = []
    tjobs = [[trace_bin, "-trace", "-scheds", ";".join("%s=%s" % (t, s) for t in TABLES)] for s in s2 + s3[:12]]
    with ThreadPoolExecutor(max_workers=8) as ex:
        tres = list(ex.map(lambda c: run_proc(c, vlib.goenv()), tjobs))
    for (rc, out, err) in tres:
        for line in out.splitlines():
            if line.startswith("TRACE "):
                evs = line.split("events=")[1].split(",")
                trials.append({"events": [["g%s" % e.split(":")[0], ROLE[int(e.split(":")[1])]] for e in evs if e]})
    if not trials:
        raise vlib.Infra("no hook traces recorded")
    tpath = os.path.join(vlib.scratch(), "lazy_trials.ndjson")
    with open(tpath, "w") as o:
        for t in trials:
            o.write(json.dumps(t) + "\n")
    r = vlib.tlc("TraceLazyLut", "TraceLazyLut.cfg", data={"trace.ndjson": tpath}, heap="2g", workers=8)
    accepted = r.raw.count("accepted trial")
    run.add_tlc("TraceLazyLut (%d trials, unlogged steps inferred)" % len(trials), r)
    if r.violated in ("TraceNoRace", "TraceRetOK"):
        raise vlib.Infra("trace witness violated %s" % r.violated)
    if r.violated != "NotAllAccepted":
        # some trial is not a behaviour of the specification: drift, not a verdict by itself
        run.note("DRIFT: hook trace %d of %d is not a behaviour of LazyLut(once_only): %s" % (
            accepted + 1, len(trials), json.dumps(trials[min(accepted, len(trials) - 1)])))
    run.cov["traces_validated_against_impl"] = len(trials) if r.violated == "NotAllAccepted" else accepted
    run.cov["hook_trials_recorded"] = len(trials)
    # 4. the metadata loaders: two loads at once under every interleaving of their sources'
    # deliveries (Interleave.tla), each compared with the same load executed alone
    import icchdr
    drive = vlib.go_build("cmd/drive")
    scheds = icchdr.interleavings(run)
    iso = os.path.join(vlib.scratch(), "iso")
    os.makedirs(iso, exist_ok=True)
    with open(os.path.join(iso, "scheds.ndjson"), "w") as f:
        for k in range(2 if tier == "quick" else 20):
            for sc in scheds:
                f.write(json.dumps(sc) + "\n")
    p = vlib.run([drive, "interleave", "-what", "loaders", "-scheds", os.path.join(iso, "scheds.ndjson"), "-out", iso,
                  "-seed", str(vlib.seed()), "-repo", vlib.REPO], timeout=3000)
    st = json.loads(p.stdout.strip().splitlines()[-1])
    if st["followed"] * 2 < st["schedules"]:
        raise vlib.Infra("only %d of %d loader interleavings could be forced" % (st["followed"], st["schedules"]))
    run.cov["forced_loader_interleavings"] = st
    results, rejects, lines = vlib.validate_trace("TraceIsolation", "TraceIsolation.cfg", os.path.join(iso, "iso.ndjson"), shards=2, heap="1g")
    for res in results:
        run.add_tlc("TraceIsolation", res)
    run.cov["traces_validated_against_impl"] += len(lines)
    for n, pr in rejects[:6]:
        ev = json.loads(lines[n])
        run.violation({"finding_key": None, "event": ev},
                      "%s loader on %s while another loads %s (schedule %s): returned %s, alone it returns %s" % (
                          ev["loader"], ev["file"], ev["other"], ev["sched"], ev["got"], ev["solo"]))
    # 5. every public entry point that reaches a lazily built table, as the first call of a fresh
    # process (under two GOMAXPROCS values): it returns what it returns later and does not panic
    import colour
    fu = colour.first_use_events(drive, "de")
    fpath = os.path.join(vlib.scratch(), "firstuse.ndjson")
    open(fpath, "w").write("\n".join(fu) + "\n")
    # 5b. the CONTENT of the lazily built tables under different process histories (what was used
    # first, and completely, before the other table was built): one digest per history and space
    th = table_hash_events(drive)
    with open(fpath, "a") as f:
        f.write("\n".join(th) + "\n")
    run.cov["table_digest_histories"] = 4
    results, rejects, lines = vlib.validate_trace("TraceColour", "TraceColour.cfg", fpath, shards=1, heap="1g")
    for res in results:
        run.add_tlc("TraceColour/firstuse", res)
    th_rej = [(n, pr) for (n, pr) in rejects if json.loads(lines[n])["kind"] == "tablehash"]
    rejects = [(n, pr) for (n, pr) in rejects if json.loads(lines[n])["kind"] != "tablehash"]
    for n, pr in th_rej[:4]:
        ev = json.loads(lines[n])
        run.violation({"finding_key": None, "event": ev},
                      "%s: the content of a lazily built 16-bit table depends on what the process did before it was built "
                      "(digests per history %s: encode table %s, decode table %s)" % (ev["space"], ev["pre"], ev["enc"], ev["dec"]))
    run.cov["first_use_processes"] = len(lines)
    run.cov["traces_validated_against_impl"] += len(lines)
    for n, pr in rejects[:6]:
        ev = json.loads(lines[n])
        run.violation({"finding_key": None, "event": ev}, colour.FIRSTUSE_MSG % (
            ev["space"], ev["entry"], ev["gomaxprocs"], ev["first"][:8], ev["again"][:8], ev["ref"][:8], ev.get("panic_msg", "")))
    run.sample({"forced_schedule": s2[0], "tables": TABLES})
    run.sample(trials[0])
    run.cov["bounds"] = {"model": "N=2,3 goroutines, all interleavings", "ungated": ung, "repetitions": reps}
    run.assumptions += ["the Go race detector's happens-before analysis is the implementation-level oracle for 'data race'",
                        "gates are spin-waits on plain memory in //go:norace functions: no happens-before edge is added"]
    return run.finish()
