SPECIFICATION Spec
