--------------------------------- MODULE Lab ---------------------------------
(***************************************************************************)
(* C13: CIE 1976 L*a*b* (CIE 15:2004):                                     *)
(*    f(t) = t^(1/3)               if t > (6/29)^3 = 216/24389             *)
(*         = (24389/27 t + 16)/116 otherwise                               *)
(*    L = 116 f(Y/Yn) - 16, a = 500 (f(X/Xn) - f(Y/Yn)), b = 200 (f(Y/Yn) - f(Z/Zn)) *)
(* Inputs are exact dyadic rationals; f is never computed with a root: the *)
(* cube root is bracketed by integer bisection on F^3 rd <= rn T^3 (T =    *)
(* 10^10), everything else is rational arithmetic by cross-multiplication. *)
(***************************************************************************)
EXTENDS Matrix, Json

T10 == <<0, 0, 0, 10>>                       \* 10^10: resolution of the cube-root bracket
Delta3 == <<0, 0, 0, 0, 0, 1>>               \* 10^-3 at scale 10^18
Tol1e5 == <<0, 0, 0, 0, 10>>                 \* 10^-5 at scale 10^18
Obs(o) == I(o.s, o.lo)
T1(t) == Add(t, <<1>>)
MaxS(a, s) == IF LE(a, s) THEN s ELSE a

\* rationals [n |-> Int, d |-> positive Nat]
R(n, d) == [n |-> n, d |-> d]
RFromDy(v) == R(I(v.s, v.m), Pow2(v.k))
RDiv(a, b) == R(I(a.n.s * b.n.s, Mul(a.n.n, b.d)), Mul(a.d, b.n.n))      \* b # 0
RLe(a, b) == ILE(IMul(a.n, I(1, b.d)), IMul(b.n, I(1, a.d)))
RAdd(a, b) == R(IAdd(IMul(a.n, I(1, b.d)), IMul(b.n, I(1, a.d))), Mul(a.d, b.d))
RSub(a, b) == RAdd(a, R(INeg(b.n), b.d))
RMulI(a, k) == R(IMul(a.n, IFromInt(k)), a.d)
RMul(a, b) == R(IMul(a.n, b.n), Mul(a.d, b.d))
RInt(k) == R(IFromInt(k), <<1>>)
Eps == R(IFromInt(216), FromInt(24389))
Kappa == R(IFromInt(24389), FromInt(27))

\* floor(cbrt(r) * 10^10) for a positive rational r <= 64, by bisection on integers
RECURSIVE Bisect(_, _, _, _)
Bisect(lo, hi, rn, rd) ==       \* invariant: lo^3 rd <= rn T^3 < hi^3 rd ; all Nat
    IF LE(hi, Add(lo, <<1>>)) THEN lo
    ELSE LET s == Add(lo, hi)
             mid == Half(s)
         IN IF LE(Mul(Pow(mid, 3), rd), rn) THEN Bisect(mid, hi, rn, rd) ELSE Bisect(lo, mid, rn, rd)
CbrtFloor(r) == Bisect(<<>>, MulSmall(T10, 4), Mul(r.n.n, Pow(T10, 3)), r.d)

\* The harness may supply a hint h (its own estimate of floor(cbrt(r) 10^10)).  The hint
\* is never trusted: it is used only if  (h-2)^3 rd <= rn T^3 < (h+2)^3 rd  holds exactly,
\* otherwise the full bisection runs.  It only saves time.
CbrtFloorHinted(r, h) ==
    LET rn == Mul(r.n.n, Pow(T10, 3))
        lo == IF LE(<<2>>, h) THEN Sub(h, <<2>>) ELSE <<>>
        hi == Add(h, <<2>>)
    IN IF LE(Mul(Pow(lo, 3), r.d), rn) /\ ~LE(Mul(Pow(hi, 3), r.d), rn)
         THEN Bisect(lo, hi, rn, r.d) ELSE CbrtFloor(r)

\* f(t) as a rational interval <<lo, hi>>
FBracket(t, h) ==
    IF t.n.s = 1 /\ ~RLe(t, Eps)
      THEN LET Fl == CbrtFloorHinted(t, h) IN << R(I(1, Fl), T10), R(I(1, Add(Fl, <<1>>)), T10) >>
      ELSE LET v == RMul(RAdd(RMul(Kappa, t), RInt(16)), R(IFromInt(1), FromInt(116))) IN << v, v >>

\* observed value with tolerance: [o - tol, o + tol] at scale 10^18, as rationals
OLo(o, tol) == R(ISub(Obs(o), I(1, tol)), S18)
OHi(o, tol) == R(IAdd(I(o.s, IF o.hi = <<>> THEN o.lo ELSE o.hi), I(1, tol)), S18)

\* e = [v (XYZ), w (white), o (observed L, a, b)]
LabOK(e) ==
    LET fx == FBracket(RDiv(RFromDy(e.v[1]), RFromDy(e.w[1])), e.hint[1])
        fy == FBracket(RDiv(RFromDy(e.v[2]), RFromDy(e.w[2])), e.hint[2])
        fz == FBracket(RDiv(RFromDy(e.v[3]), RFromDy(e.w[3])), e.hint[3])
        Llo == RSub(RMulI(fy[1], 116), RInt(16))   Lhi == RSub(RMulI(fy[2], 116), RInt(16))
        alo == RMulI(RSub(fx[1], fy[2]), 500)      ahi == RMulI(RSub(fx[2], fy[1]), 500)
        blo == RMulI(RSub(fy[1], fz[2]), 200)      bhi == RMulI(RSub(fy[2], fz[1]), 200)
        within(o, lo, hi) == RLe(lo, OHi(o, Delta3)) /\ RLe(OLo(o, Delta3), hi)
    IN /\ ~e.nonfinite
       /\ within(e.o[1], Llo, Lhi) /\ within(e.o[2], alo, ahi) /\ within(e.o[3], blo, bhi)
       /\ e.has_prev => ILE(Obs(e.prev_l), IAdd(Obs(e.o[1]), IFromInt(1)))      \* L non-decreasing in Y

\* inverse direction straight from the definition (cubes only)
FInv(f) == LET c == RMul(f, RMul(f, f)) IN
           IF ~RLe(c, Eps) THEN c ELSE RMul(RSub(RMulI(f, 116), RInt(16)), R(IFromInt(27), FromInt(24389)))
NearR(o, x, tol) ==     \* |o - x| <= tol * max(1, |x|), o observed at 10^18, x rational, tol Nat at 10^18
    LE(Mul(IAbs(ISub(IMul(Obs(o), I(1, x.d)), IMul(x.n, I(1, S18)))).n, S18),
       Mul(T1(tol), MaxS(Mul(x.n.n, S18), Mul(x.d, S18))))
LabInvOK(e) ==
    LET L == RFromDy(e.lab[1])  a == RFromDy(e.lab[2])  b == RFromDy(e.lab[3])
        fy == RMul(RAdd(L, RInt(16)), R(IFromInt(1), FromInt(116)))
        fx == RAdd(fy, RMul(a, R(IFromInt(1), FromInt(500))))
        fz == RSub(fy, RMul(b, R(IFromInt(1), FromInt(200))))
        yr == IF ~RLe(L, RInt(8)) THEN RMul(fy, RMul(fy, fy)) ELSE RMul(L, R(IFromInt(27), FromInt(24389)))
        X == RMul(FInv(fx), RFromDy(e.w[1]))
        Y == RMul(yr, RFromDy(e.w[2]))
        Z == RMul(FInv(fz), RFromDy(e.w[3]))
    IN ~e.nonfinite /\ NearR(e.o[1], X, Tol1e5) /\ NearR(e.o[2], Y, Tol1e5) /\ NearR(e.o[3], Z, Tol1e5)

\* XYZ -> Lab -> XYZ returns the input within 10^-5 at unit scale
LabRoundTripOK(e) ==
    /\ ~e.nonfinite
    /\ \A r \in Idx : NearR(e.o[r], RFromDy(e.v[r]), Tol1e5)

LabEventOK(e) == CASE e.kind = "lab" -> LabOK(e)
                   [] e.kind = "labinv" -> LabInvOK(e)
                   [] e.kind = "labrt" -> LabRoundTripOK(e)
=============================================================================
