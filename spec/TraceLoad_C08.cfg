SPECIFICATION Spec
CONSTANT Prop = "C08"
