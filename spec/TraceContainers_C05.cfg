SPECIFICATION Spec
CONSTANT Prop = "C05"
