SPECIFICATION WideSpec
INVARIANT PrintWide
CHECK_DEADLOCK FALSE
