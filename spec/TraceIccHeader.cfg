SPECIFICATION Spec
