---------------------------- MODULE BinaryCursor ----------------------------
(***************************************************************************)
(* The byte cursor beneath every loader and the ICC reader: package        *)
(* meta/binary (ReadU16Big, ReadU32Big, ReadU32Little, ReadU24Little,      *)
(* ReadU64Big, ReadBytes, WriteU32Big, WriteU32Little).  Not one of the    *)
(* listed properties; every one of them rests on it.                       *)
(*                                                                         *)
(* State: a source of Len(data) bytes and a cursor pos.  The bytes are     *)
(* IDENTITIES (data[i] = i): the functions move and combine bytes, they    *)
(* never look at them, so a value is the sequence of byte identities in    *)
(* order of significance (most significant first) and the harness may put  *)
(* any byte values behind the identities (it uses seeded ones and the      *)
(* extremes 0x00 / 0x80 / 0xFF, where sign extension and shifts of narrow  *)
(* types go wrong).  TLC's 32-bit integers never hold a 32- or 64-bit      *)
(* value this way.                                                         *)
(*                                                                         *)
(* One action per public call.  A call that runs out of input reports the  *)
(* source's own EOF (the fixed-width readers: whatever byte they were at;  *)
(* ReadBytes: EOF only if it got nothing, otherwise "unexpected EOF"),     *)
(* returns the zero value and leaves the cursor at the end: the bytes it   *)
(* consumed are gone.                                                      *)
(*                                                                         *)
(* Binding: generate-and-replay.  Every behaviour of <= MaxOps calls over  *)
(* every source length <= MaxLen is printed with the observations the      *)
(* model expects (PrintCase); harness/cmd/drive/binarycursor.go performs   *)
(* the calls on the real package - through a bytes.Reader, a bufio.Reader  *)
(* over a one-byte-at-a-time source and a source that returns its last     *)
(* bytes together with EOF - and compares value, error and the number of   *)
(* bytes consumed after every call.                                        *)
(***************************************************************************)
EXTENDS Integers, Sequences, TLC, Json

CONSTANTS MaxLen, MaxOps

FixedOps == {"u16b", "u24l", "u32b", "u32l", "u64b"}
ByteCounts == {0, 1, 3}                         \* ReadBytes(n)
Ops == FixedOps \cup { "bytes" \o ToString(n) : n \in ByteCounts }

Width(op) == CASE op = "u16b" -> 2 [] op = "u24l" -> 3 [] op = "u32b" -> 4 [] op = "u32l" -> 4 [] op = "u64b" -> 8
               [] op = "bytes0" -> 0 [] op = "bytes1" -> 1 [] op = "bytes3" -> 3
LittleEndian(op) == op \in {"u24l", "u32l"}
IsBytes(op) == op \in {"bytes0", "bytes1", "bytes3"}

VARIABLES
    n,        \* length of the source
    pos,      \* bytes consumed so far
    hist      \* the calls made and what each returned (observation variable)
vars == <<n, pos, hist>>

Init == n \in 0..MaxLen /\ pos = 0 /\ hist = <<>>

Range(a, b) == [i \in 1..(b - a + 1) |-> a + i - 1]          \* <<a, ..., b>>
Reverse(s) == [i \in 1..Len(s) |-> s[Len(s) + 1 - i]]

\* what the call returns: identities of the bytes making up the value, most significant
\* first (ReadBytes: in stream order), and the error
Result(op) ==
    LET w == Width(op)  avail == n - pos
    IN IF avail >= w
         THEN [val |-> IF LittleEndian(op) THEN Reverse(Range(pos + 1, pos + w)) ELSE Range(pos + 1, pos + w),
               err |-> "nil", adv |-> w]
         ELSE [val |-> <<>>,
               err |-> IF IsBytes(op) /\ avail > 0 THEN "uxeof" ELSE "eof",
               adv |-> avail]

Call(op) ==
    /\ Len(hist) < MaxOps
    /\ LET r == Result(op)
       IN /\ pos' = pos + r.adv
          /\ hist' = Append(hist, [op |-> op, val |-> r.val, err |-> r.err, pos |-> pos + r.adv])
    /\ UNCHANGED n

Next == \E op \in Ops : Call(op)
Spec == Init /\ [][Next]_vars

-----------------------------------------------------------------------------
(* Properties of the design, checked by TLC on every reachable state.       *)
TypeOK == n \in 0..MaxLen /\ pos \in 0..n /\ Len(hist) <= MaxOps
\* the cursor never moves backwards and never past the end (action property)
Monotone == [][pos' >= pos /\ pos' <= n]_vars
\* no byte is handed out twice and none is skipped between successful calls: the values of
\* the successful calls, read in stream order, are exactly the bytes 1..k of the source
StreamOrder(h) == IF LittleEndian(h.op) THEN Reverse(h.val) ELSE h.val
Concat(i) == \* concatenation of the stream-ordered values of hist[1..i]
    LET RECURSIVE C(_)
        C(k) == IF k = 0 THEN <<>> ELSE C(k - 1) \o StreamOrder(hist[k])
    IN C(i)
NoGapNoRepeat ==
    \A i \in 1..Len(hist) :
        (\A j \in 1..i : hist[j].err = "nil") => Concat(i) = Range(1, hist[i].pos)
\* once a call has failed the source is exhausted: every later call that needs a byte fails too
FailureIsFinal ==
    \A i \in 1..Len(hist) : \A j \in 1..Len(hist) :
        (i < j /\ hist[i].err # "nil" /\ Width(hist[j].op) > 0) => hist[j].err = "eof"
\* the error names say what they say
ErrorsMeanWhatTheySay ==
    \A i \in 1..Len(hist) :
        /\ hist[i].err = "uxeof" => IsBytes(hist[i].op)
        /\ hist[i].err # "nil" => hist[i].val = <<>> /\ hist[i].pos = n

(* The writers: the four bytes of a value v = <<1,2,3,4>> (identities, most  *)
(* significant first) appended to the output in the order the name says; a   *)
(* writer that fails hands its error back.  A stateless table: the harness   *)
(* checks it for 4k seeded values, the extremes and failing writers.         *)
WriteOrder(op) == IF op = "w32b" THEN <<1, 2, 3, 4>> ELSE <<4, 3, 2, 1>>
ASSUME WriteOrder("w32l") = Reverse(WriteOrder("w32b"))
-----------------------------------------------------------------------------
\* every complete behaviour, for replay (generation config only)
PrintCase == /\ (Len(hist) = MaxOps) => PrintT(ToJson([n |-> n, calls |-> hist]))
             /\ (n = 0 /\ hist = <<>>) => PrintT(ToJson([write |-> [w32b |-> WriteOrder("w32b"), w32l |-> WriteOrder("w32l")]]))
=============================================================================
