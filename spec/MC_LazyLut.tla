----------------------------- MODULE MC_LazyLut -----------------------------
EXTENDS LazyLut, Json
\* checking: the hook history is output only
View == <<pc, vc, lut, table, done, mu, relDone, relMu, wr, rd, raced, saw, builds>>

\* generation: print each complete behaviour's hook-level schedule by ROLE
\* (goroutines are interchangeable): E entry, B build, P publish, Rw / Rl return
\* of the goroutine that built the table / of another one
Winner == IF \E i \in 1..Len(hist) : hist[i][2] = "build"
            THEN hist[CHOOSE i \in 1..Len(hist) : hist[i][2] = "build"][1] ELSE "nobody"
Role(e) == CASE e[2] = "entry" -> "E" [] e[2] = "build" -> "B" [] e[2] = "publish" -> "P"
             [] e[2] = "ret" -> IF e[1] = Winner THEN "Rw" ELSE "Rl"
RoleHist == [i \in 1..Len(hist) |-> Role(hist[i])]
AllDone == \A g \in Procs : pc[g] = "done"
PrintSchedules == AllDone => PrintT(ToJson([sched |-> RoleHist, n |-> Cardinality(Procs)]))
=============================================================================
