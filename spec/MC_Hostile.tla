------------------------------ MODULE MC_Hostile ------------------------------
(* Prints the case matrix of Hostile.tla once, for the harness to concretise. *)
EXTENDS Hostile
VARIABLE done
Init == done = FALSE
Next == /\ ~done /\ done' = TRUE
        /\ \A c \in Cases : PrintT(ToJson(c))
Spec == Init /\ [][Next]_done
=============================================================================
