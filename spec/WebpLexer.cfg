SPECIFICATION Spec
INVARIANTS TypeOK OkJustified ProfileJustified ProfileErrorOnlyWhenAsked NoBody DimsSurvive PrintCase
CHECK_DEADLOCK FALSE
