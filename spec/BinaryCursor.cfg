SPECIFICATION Spec
CONSTANTS
  MaxLen = 12
  MaxOps = 4
INVARIANTS TypeOK NoGapNoRepeat FailureIsFinal ErrorsMeanWhatTheySay PrintCase
PROPERTY Monotone
CHECK_DEADLOCK FALSE
