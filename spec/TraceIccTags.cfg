SPECIFICATION Spec
