---------------------------- MODULE MC_ImageXform ----------------------------
EXTENDS ImageXform, Json
OriginsSmall == { <<0, 0>>, <<-2, 3>> }
OriginsGen == { <<0, 0>>, <<-2, -2>>, <<3, 1>> }
\* generation: print every configuration once with the specification's write map
RECURSIVE SetToSeq(_)
SetToSeq(S) == IF S = {} THEN <<>> ELSE LET x == CHOOSE x \in S : TRUE IN <<x>> \o SetToSeq(S \ {x})
PrintCase == AllDone =>
    PrintT(ToJson([cfg |-> cfg, stride |-> StrideOf(cfg), base |-> Base(cfg), ncells |-> NCells(cfg),
                   writes |-> SetToSeq({ <<k, writes[k][1], writes[k][2]>> : k \in DOMAIN writes })]))
=============================================================================
