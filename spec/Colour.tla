------------------------------- MODULE Colour -------------------------------
(***************************************************************************)
(* The published transfer functions of the supported RGB spaces as         *)
(* relations TLC can decide exactly (no roots, no floating point):         *)
(*                                                                         *)
(*   sRGB / Display P3  IEC 61966-2-1: x <= 0.04045 : y = x / 12.92        *)
(*                                     else y = ((x + 0.055)/1.055)^2.4    *)
(*   Adobe RGB (1998)   y = x^(563/256)          (gamma 2.19921875)        *)
(*   ProPhoto / ROMM    ISO 22028-2: x < 1/32 : y = x / 16, else y = x^1.8 *)
(*                                                                         *)
(* x is always a rational c/N given by two naturals; y-side quantities are *)
(* fixed-point naturals V meaning V / Sc for a scale Sc (normally 10^18).  *)
(* EOTFLe(curve, c, N, V, Sc): "EOTF(c/N) <= V/Sc is possibly true"        *)
(* EOTFGe(curve, c, N, V, Sc): "EOTF(c/N) >= V/Sc is possibly true"        *)
(* (possibly: up to the outward rounding of Num!ProdLE, relative 10^-21).  *)
(* Encoders are never specified by a second formula: an encoded value is   *)
(* judged through the decode relation at half-codes.                       *)
(***************************************************************************)
EXTENDS Num

S18 == <<0, 0, 0, 0, 0, 0, 1>>                   \* 10^18, the usual fixed-point scale
Tol3e7 == <<0, 0, 0, 300>>                       \* 3 * 10^-7 at scale 10^18
N8 == FromInt(255)
N16 == FromInt(65535)
CurveOf(space) == IF space = "displayp3" THEN "srgb" ELSE space

\* a - b clamped at 0
Monus(a, b) == IF LE(b, a) THEN Sub(a, b) ELSE <<>>

(* EOTF(c/N) <= V/Sc *)
EOTFLe(curve, c, N, V, Sc) ==
    CASE curve = "srgb" ->
           IF LE(MulSmall(c, 100000), MulSmall(N, 4045))         \* x <= 0.04045
             THEN \* x / 12.92 <= V/Sc   <=>   100 c Sc <= 1292 V N
                  LE(Mul(MulSmall(c, 100), Sc), Mul(MulSmall(V, 1292), N))
             ELSE \* ((1000c + 55N)/(1055N))^12 <= (V/Sc)^5
                  ProdLE(<< <<Add(MulSmall(c, 1000), MulSmall(N, 55)), 12>>, <<Sc, 5>> >>,
                         << <<V, 5>>, <<MulSmall(N, 1055), 12>> >>)
      [] curve = "adobergb" ->
           ProdLE(<< <<c, 563>>, <<Sc, 256>> >>, << <<V, 256>>, <<N, 563>> >>)
      [] curve = "prophotorgb" ->
           IF ~LE(N, MulSmall(c, 32))                             \* 32 c < N : x < 1/32
             THEN LE(Mul(c, Sc), Mul(MulSmall(V, 16), N))         \* x/16 <= V/Sc
             ELSE ProdLE(<< <<c, 9>>, <<Sc, 5>> >>, << <<V, 5>>, <<N, 9>> >>)

(* EOTF(c/N) >= V/Sc *)
EOTFGe(curve, c, N, V, Sc) ==
    CASE curve = "srgb" ->
           IF LE(MulSmall(c, 100000), MulSmall(N, 4045))
             THEN LE(Mul(MulSmall(V, 1292), N), Mul(MulSmall(c, 100), Sc))
             ELSE ProdLE(<< <<V, 5>>, <<MulSmall(N, 1055), 12>> >>,
                         << <<Add(MulSmall(c, 1000), MulSmall(N, 55)), 12>>, <<Sc, 5>> >>)
      [] curve = "adobergb" ->
           ProdLE(<< <<V, 256>>, <<N, 563>> >>, << <<c, 563>>, <<Sc, 256>> >>)
      [] curve = "prophotorgb" ->
           IF ~LE(N, MulSmall(c, 32))
             THEN LE(Mul(MulSmall(V, 16), N), Mul(c, Sc))
             ELSE ProdLE(<< <<V, 5>>, <<N, 9>> >>, << <<c, 9>>, <<Sc, 5>> >>)

(* |y - EOTF(c/N)| <= tol, with y known to lie in [Ylo, Yhi] / 10^18          *)
EOTFHolds(curve, c, N, Ylo, Yhi, tol) ==
    /\ EOTFLe(curve, c, N, Add(Yhi, tol), S18)
    /\ EOTFGe(curve, c, N, Monus(Ylo, tol), S18)

-----------------------------------------------------------------------------
(* C01: one event per (space, depth, code) of the per-component decoders.     *)
\* e.bits / e.prev : IEEE bit patterns of the decoded float32 and of the
\* previous code's (bit patterns of non-negative floats are ordered like the floats)
\* e.cross : bit pattern From8Bit(code/257) for multiples of 257 (else -1)
\* e.entry : bit patterns returned by the other entry points for this code
OneBits == 1065353216            \* 0x3F800000 = 1.0f
MaxCode(depth) == IF depth = 8 THEN 255 ELSE 65535
DecodeOK(e) ==
    LET N == IF e.depth = 8 THEN N8 ELSE N16 IN
    /\ e.code = 0 => e.bits = 0                                   \* Zero
    /\ e.code = MaxCode(e.depth) => e.bits = OneBits              \* One
    /\ e.code > 0 => e.bits > e.prev                              \* StrictMono
    /\ e.cross >= 0 => e.cross = e.bits                           \* tab8[v] = tab16[257 v]
    /\ \A i \in 1..Len(e.entry) : e.entry[i] = e.bits             \* EntryPointsAgree
    /\ e.exact => EOTFHolds(CurveOf(e.space), FromInt(e.code), N, e.ylo, e.yhi, Tol3e7)

\* LineariseColor re-quantises to 16 bits: out/65535 within 3e-7 + half a 16-bit code
HalfCode16 == <<349, 948, 510, 629, 7>>          \* ceil(10^18 / 131070) = 7629510948349
LineariseOK(e) ==
    LET N == IF e.depth = 8 THEN N8 ELSE N16 IN
    EOTFHolds(CurveOf(e.space), FromInt(e.code), N, e.ylo, e.yhi, Add(Tol3e7, HalfCode16))
=============================================================================
