------------------------------- MODULE Colour -------------------------------
(***************************************************************************)
(* The published transfer functions of the supported RGB spaces as         *)
(* relations TLC can decide exactly (no roots, no floating point):         *)
(*                                                                         *)
(*   sRGB / Display P3  IEC 61966-2-1: x <= 0.04045 : y = x / 12.92        *)
(*                                     else y = ((x + 0.055)/1.055)^2.4    *)
(*   Adobe RGB (1998)   y = x^(563/256)          (gamma 2.19921875)        *)
(*   ProPhoto / ROMM    ISO 22028-2: x < 1/32 : y = x / 16, else y = x^1.8 *)
(*                                                                         *)
(* x is always a rational c/N given by two naturals; y-side quantities are *)
(* fixed-point naturals V meaning V / Sc for a scale Sc (normally 10^18).  *)
(* EOTFLe(curve, c, N, V, Sc): "EOTF(c/N) <= V/Sc is possibly true"        *)
(* EOTFGe(curve, c, N, V, Sc): "EOTF(c/N) >= V/Sc is possibly true"        *)
(* (possibly: up to the outward rounding of Num!ProdLE, relative 10^-21).  *)
(* Encoders are never specified by a second formula: an encoded value is   *)
(* judged through the decode relation at half-codes.                       *)
(***************************************************************************)
EXTENDS Num

Tol3e7 == <<0, 0, 0, 300>>                       \* 3 * 10^-7 at scale 10^18
N8 == FromInt(255)
N16 == FromInt(65535)
CurveOf(space) == IF space = "displayp3" THEN "srgb" ELSE space

\* a - b clamped at 0
Monus(a, b) == IF LE(b, a) THEN Sub(a, b) ELSE <<>>

(* EOTF(c/N) <= V/Sc *)
EOTFLe(curve, c, N, V, Sc) ==
    CASE curve = "srgb" ->
           IF LE(MulSmall(c, 100000), MulSmall(N, 4045))         \* x <= 0.04045
             THEN \* x / 12.92 <= V/Sc   <=>   100 c Sc <= 1292 V N
                  LE(Mul(MulSmall(c, 100), Sc), Mul(MulSmall(V, 1292), N))
             ELSE \* ((1000c + 55N)/(1055N))^12 <= (V/Sc)^5
                  ProdLE(<< <<Add(MulSmall(c, 1000), MulSmall(N, 55)), 12>>, <<Sc, 5>> >>,
                         << <<V, 5>>, <<MulSmall(N, 1055), 12>> >>)
      [] curve = "adobergb" ->
           ProdLE(<< <<c, 563>>, <<Sc, 256>> >>, << <<V, 256>>, <<N, 563>> >>)
      [] curve = "prophotorgb" ->
           IF ~LE(N, MulSmall(c, 32))                             \* 32 c < N : x < 1/32
             THEN LE(Mul(c, Sc), Mul(MulSmall(V, 16), N))         \* x/16 <= V/Sc
             ELSE ProdLE(<< <<c, 9>>, <<Sc, 5>> >>, << <<V, 5>>, <<N, 9>> >>)

(* EOTF(c/N) >= V/Sc *)
EOTFGe(curve, c, N, V, Sc) ==
    CASE curve = "srgb" ->
           IF LE(MulSmall(c, 100000), MulSmall(N, 4045))
             THEN LE(Mul(MulSmall(V, 1292), N), Mul(MulSmall(c, 100), Sc))
             ELSE ProdLE(<< <<V, 5>>, <<MulSmall(N, 1055), 12>> >>,
                         << <<Add(MulSmall(c, 1000), MulSmall(N, 55)), 12>>, <<Sc, 5>> >>)
      [] curve = "adobergb" ->
           ProdLE(<< <<V, 256>>, <<N, 563>> >>, << <<c, 563>>, <<Sc, 256>> >>)
      [] curve = "prophotorgb" ->
           IF ~LE(N, MulSmall(c, 32))
             THEN LE(Mul(MulSmall(V, 16), N), Mul(c, Sc))
             ELSE ProdLE(<< <<V, 5>>, <<N, 9>> >>, << <<c, 9>>, <<Sc, 5>> >>)

(* |y - EOTF(c/N)| <= tol, with y known to lie in [Ylo, Yhi] / 10^18          *)
EOTFHolds(curve, c, N, Ylo, Yhi, tol) ==
    /\ EOTFLe(curve, c, N, Add(Yhi, tol), S18)
    /\ EOTFGe(curve, c, N, Monus(Ylo, tol), S18)

-----------------------------------------------------------------------------
(* C01: one event per (space, depth, code) of the per-component decoders.     *)
\* e.bits / e.prev : IEEE bit patterns of the decoded float32 and of the
\* previous code's (bit patterns of non-negative floats are ordered like the floats)
\* e.cross : bit pattern From8Bit(code/257) for multiples of 257 (else -1)
\* e.entry : bit patterns returned by the other entry points for this code
OneBits == 1065353216            \* 0x3F800000 = 1.0f
MaxCode(depth) == IF depth = 8 THEN 255 ELSE 65535
DecodeOK(e) ==
    LET N == IF e.depth = 8 THEN N8 ELSE N16 IN
    /\ "panic" \notin DOMAIN e                                    \* every code decodes (in every process history)
    /\ e.code = 0 => e.bits = 0                                   \* Zero
    /\ e.code = MaxCode(e.depth) => e.bits = OneBits              \* One
    /\ e.code > 0 => e.bits > e.prev                              \* StrictMono
    /\ e.cross >= 0 => e.cross = e.bits                           \* tab8[v] = tab16[257 v]
    /\ \A i \in 1..Len(e.entry) : e.entry[i] = e.bits             \* EntryPointsAgree
    /\ e.exact => EOTFHolds(CurveOf(e.space), FromInt(e.code), N, e.ylo, e.yhi, Tol3e7)

\* Lazy initialisation is unobservable: whichever public entry point is the first call a process
\* makes into the library, it returns what it returns later, and what the per-component
\* functions give for the same values; it does not panic.
FirstUseOK(e) == ~e.panic /\ e.first = e.again /\ e.first = e.ref /\ Len(e.first) > 0
\* the CONTENT of the lazily built tables does not depend on what the process did before they were
\* built: digests of all 65,536 entries of each table, one per process history, are equal
TableHashOK(e) == /\ Len(e.enc) > 1 /\ \A i \in 1..Len(e.enc) : e.enc[i] = e.enc[1]
                  /\ Len(e.dec) = Len(e.enc) /\ \A i \in 1..Len(e.dec) : e.dec[i] = e.dec[1]

\* LineariseColor re-quantises to 16 bits: out/65535 within 3e-7 + half a 16-bit code
HalfCode16 == <<349, 948, 510, 629, 7>>          \* ceil(10^18 / 131070) = 7629510948349
LineariseOK(e) ==
    LET N == IF e.depth = 8 THEN N8 ELSE N16 IN
    EOTFHolds(CurveOf(e.space), FromInt(e.code), N, e.ylo, e.yhi, Add(Tol3e7, HalfCode16))

-----------------------------------------------------------------------------
(* C02: encoders and quantisers.                                              *)
(* An encoder with maximum code n and table resolution 1/steps returns e for  *)
(* linear input x in (0,1).  Property: e is within half a code of OETF(x')    *)
(* for some x' within half a table step h = 1/(2 steps) of x.  OETF is        *)
(* strictly increasing and continuous, so this is equivalent to               *)
(*     EOTF((e - 1/2)/n) <= min(1, x + h)   and   EOTF((e + 1/2)/n) >= max(0, x - h)  *)
(* and the published curve appears once only, as the decode relation.         *)
(* Declared float32 slack (DESIGN 3.2, C02 only): the half code is read as    *)
(* 1/2 + n 2^-22 codes and the window as (x + h)(1 + 2^-22), because the code  *)
(* evaluates v*n + 0.5 in float32.                                            *)
T21 == FromInt(2097152)
T22 == FromInt(4194304)
T22p1 == FromInt(4194305)

\* half-code arguments with slack, as rationals c / (n 2^22)
HalfLo(e, n) == IF e = 0 THEN <<>> ELSE Monus(Mul(FromInt(2 * e - 1), T21), FromInt(n))
HalfHi(e, n) == Add(Mul(FromInt(2 * e + 1), T21), FromInt(n))
HalfDen(n) == Mul(FromInt(n), T22)

\* window bounds for an input x = Xn / Xd, at scale Sc = Xd * 2 steps * 2^22
WinScaleR(Xd, steps) == Mul(Mul(Xd, FromInt(2 * steps)), T22)
WinHiR(Xn, Xd, steps) == Mul(Add(MulSmall(Xn, 2 * steps), Xd), T22p1)                 \* (x + h)(1 + 2^-22)
WinLoR(Xn, Xd, steps) == Monus(Mul(Monus(MulSmall(Xn, 2 * steps), Xd), T22),
                               Add(MulSmall(Xn, 2 * steps), Xd))                       \* (x - h) - 2^-22 (x + h)

\* first conjunct at an input known to be <= Xn/Xd; second at one >= Xn/Xd
EncLowOKR(curve, n, steps, e, Xn, Xd) ==
    LET c == HalfLo(e, n)  V == WinHiR(Xn, Xd, steps)  Sc == WinScaleR(Xd, steps) IN
    IF c = <<>> THEN TRUE
    ELSE IF LE(Sc, V) THEN LE(c, HalfDen(n))              \* EOTF(u) <= 1  <=>  u <= 1
    ELSE EOTFLe(curve, c, HalfDen(n), V, Sc)
EncHighOKR(curve, n, steps, e, Xn, Xd) ==
    LET V == WinLoR(Xn, Xd, steps) IN
    IF V = <<>> \/ e = n THEN TRUE       \* nothing to show below the window / the maximum code cannot be too low
    ELSE EOTFGe(curve, HalfHi(e, n), HalfDen(n), V, WinScaleR(Xd, steps))
EncLowOK(curve, n, steps, e, Xhi) == EncLowOKR(curve, n, steps, e, Xhi, S18)
EncHighOK(curve, n, steps, e, Xlo) == EncHighOKR(curve, n, steps, e, Xlo, S18)

\* plain quantiser: |out - n x| <= 1/2 + n 2^-22, at scale 10^18 * 2^23
QuantLowOK(n, out, Xhi) ==   \* out - n x <= ...   i.e.  2^23 out S <= 2^23 n X + 2^22 S + 2 n S
    LE(Mul(MulSmall(S18, out), MulSmall(T22, 2)),
       Add(Mul(MulSmall(Xhi, n), MulSmall(T22, 2)), Add(Mul(S18, T22), MulSmall(S18, 2 * n))))
QuantHighOK(n, out, Xlo) ==  \* n x - out <= ...
    LE(Mul(MulSmall(Xlo, n), MulSmall(T22, 2)),
       Add(Mul(MulSmall(S18, out), MulSmall(T22, 2)), Add(Mul(S18, T22), MulSmall(S18, 2 * n))))

IsQuant(fn) == fn \in {"q8", "q9", "q16"}
\* e = [fn, curve, n, steps, xclass, out, prev_out, xlo, xhi]: one call
EncodeOK(e) ==
    /\ e.out >= e.prev_out                                              \* never decreases as x increases
    /\ e.out \in 0..e.n
    /\ CASE e.xclass \in {"neg", "zero", "neginf"} -> e.out = 0         \* x <= 0 gives 0
         [] e.xclass \in {"ge1", "posinf"} -> e.out = e.n                \* x >= 1 gives the maximum code
         [] e.xclass = "nan" -> TRUE                                     \* returns (no panic)
         [] e.xclass = "in" ->
              IF IsQuant(e.fn)
                THEN QuantLowOK(e.n, e.out, e.xhi) /\ QuantHighOK(e.n, e.out, e.xlo)
                ELSE /\ EncLowOK(e.curve, e.n, e.steps, e.out, e.xhi)
                     /\ EncHighOK(e.curve, e.n, e.steps, e.out, e.xlo)

(* Run-length certificate for "every float32": a maximal run of consecutive   *)
(* floats in (0,1) with the same output e.  Both conjuncts are monotone in x, *)
(* so the run satisfies them for all its members iff the first holds at its    *)
(* first x and the second at its last x; monotonicity is outputs increasing    *)
(* from run to run.                                                            *)
RunOK(e) ==
    /\ e.out > e.prev_out \/ e.prev_out = -1
    /\ e.out \in 0..e.n
    /\ IF IsQuant(e.fn)
         THEN QuantLowOK(e.n, e.out, e.first_hi) /\ QuantHighOK(e.n, e.out, e.last_lo)
         ELSE /\ EncLowOK(e.curve, e.n, e.steps, e.out, e.first_hi)
              /\ EncHighOK(e.curve, e.n, e.steps, e.out, e.last_lo)
\* summary of the exhaustive sweep outside (0,1) and of the bookkeeping
SweepOK(e) == /\ e.neg_bad = 0 /\ e.hi_bad = 0 /\ e.zero_bad = 0 /\ e.one_bad = 0
              /\ e.floats_in_runs = e.floats_expected
AgreeOK(e) == e.a = e.b
-----------------------------------------------------------------------------
(* C14: alpha passes through exactly; linearised pixels stay validly           *)
(* premultiplied.                                                              *)
\* e = [op ("linearise" | "encode"), a, aout, pairs = <<channel in, channel out>>...]
AlphaOK(e) ==
    /\ e.aout = e.a                                                    \* AlphaIdentity
    /\ e.a = 0 => \A i \in 1..Len(e.pairs) : e.pairs[i][2] = 0         \* TransparentIsZero
    /\ e.op = "linearise" =>                                           \* PremultValid
         \A i \in 1..Len(e.pairs) : e.pairs[i][1] <= e.a => e.pairs[i][2] <= e.aout

\* the constructor's alpha is exactly A/max: the float32 m / 2^k returned is the
\* correctly rounded quotient, i.e. |m/2^k - A/max| <= 2^-(k+1)
\*   <=>  |2 m max - A 2^(k+1)| <= max        (m < 2^24, 24 <= k <= 40)
AlphaNormOK(e) ==
    IF e.A = 0 THEN e.m = 0
    ELSE /\ e.m >= 8388608 /\ e.m < 16777216          \* normalised 24-bit mantissa
         /\ LE(AbsDiff(Mul(FromInt(e.m), FromInt(2 * e.max)), Mul(FromInt(e.A), Pow(<<2>>, e.k + 1))),
               FromInt(e.max))

(* Design lemma behind PremultValid, checked by TLC on the specification: on   *)
(* the 16-bit grid every curve satisfies EOTF(x) <= x, so a channel that does  *)
(* not exceed alpha cannot exceed it after linearisation.                      *)
CurveBelowIdentity(curve, c) == EOTFLe(curve, FromInt(c), N16, FromInt(c), N16)
=============================================================================
