----------------------------- MODULE ReaderStack -----------------------------
(***************************************************************************)
(* Impl-shaped model of what every prism loader puts between the caller's  *)
(* io.Reader and its parser:                                               *)
(*                                                                         *)
(*    source --> io.TeeReader(source, rewind) --> bufio.Reader --> parser  *)
(*    returned stream = io.MultiReader(rewind, source)                     *)
(*                                                                         *)
(* Bytes are identified with their position in the source (data            *)
(* independence, DESIGN 3.3), so "the bytes [a,b)" is just the interval.   *)
(* One action = one call on the layer below (the critical steps of bufio:  *)
(* the single underlying Read of bufio.Read, the fill of ReadByte, the     *)
(* direct read for requests >= the buffer size).                           *)
(*                                                                         *)
(* The parser is a straight-line program of requests:                      *)
(*    <<"B">>     ReadByte                                                 *)
(*    <<"R", k>>  a k-byte field read with ONE Read call and a short       *)
(*                count treated as failure (what pngmeta/webpmeta/icc did  *)
(*                as found); with ReadMode = "full" it is io.ReadFull      *)
(*    <<"F", k>>  io.ReadFull of k bytes                                   *)
(* Design switches (CONSTANTS) select as-found / repaired / mutant         *)
(* variants; the properties below are the design-level forms of C07, C08,  *)
(* C18.                                                                    *)
(***************************************************************************)
EXTENDS Integers, Sequences, FiniteSets, TLC

CONSTANTS
    MaxN,      \* sources hold 0..MaxN bytes before their terminal condition
    BUF,       \* bufio buffer size (4096 in the code, small in the model)
    ReadMode,  \* "single" (as found) | "full" (repaired)
    Wiring,    \* "tee_below_bufio" (the code) | "tee_above_bufio" (mutant)
    Progs,     \* set of parser programs quantified over
    Deliv      \* delivery sizes the source may choose (besides "all that is asked for" and 0);
               \* 0..MaxN for every schedule, a subset when behaviours are generated for replay

VARIABLES
    n,         \* bytes the source will deliver in total
    failKind,  \* "eof" | "ioerr": the source's terminal condition
    prog,      \* the parser's request program
    pc,        \* index of the current request (Len(prog)+1 = finished)
    got,       \* bytes already obtained for the current F request
    pulled,    \* bytes the source has delivered (= end of the bufio window)
    consumed,  \* bytes handed to the parser (= start of the bufio window)
    berr,      \* bufio's stored error: "none" | failKind
    tee,       \* bytes copied to the rewind buffer
    outcome,   \* "run" | "ok" | "fail"
    sched      \* history: sizes the source delivered, in order (for replay)

vars == <<n, failKind, prog, pc, got, pulled, consumed, berr, tee, outcome, sched>>

Min(a, b) == IF a < b THEN a ELSE b

ReqSize(r) == IF r[1] = "B" THEN 1 ELSE r[2]
RECURSIVE SumSizes(_, _)
SumSizes(p, i) == IF i > Len(p) THEN 0 ELSE ReqSize(p[i]) + SumSizes(p, i + 1)
Need == SumSizes(prog, 1)          \* bytes the parser has to see

Buffered == pulled - consumed
Kind(r) == IF r[1] = "R" /\ ReadMode = "full" THEN "F" ELSE r[1]

Init ==
    /\ n \in 0..MaxN
    /\ failKind \in {"eof", "ioerr"}
    /\ prog \in Progs
    /\ pc = 1 /\ got = 0 /\ pulled = 0 /\ consumed = 0 /\ tee = 0
    /\ berr = "none" /\ outcome = "run" /\ sched = <<>>

(* One Read call on the source with capacity req: any count the io.Reader  *)
(* contract allows.  d bytes arrive; e tells whether the terminal          *)
(* condition is reported by the same call (d = 0 forces it).               *)
SrcRead(req, d, e) ==
    /\ d \in 0..Min(req, n - pulled)
    /\ d \in Deliv \cup {0, Min(req, n - pulled)}
    /\ (d = 0) => (pulled = n /\ e)
    /\ e => (pulled + d = n)
    /\ pulled' = pulled + d
    /\ sched' = Append(sched, <<d, e>>)

Finish(res) == outcome' = res /\ UNCHANGED <<n, failKind, prog>>
Advance == pc' = pc + 1 /\ got' = 0 /\
           outcome' = (IF pc = Len(prog) THEN "ok" ELSE "run") /\
           UNCHANGED <<n, failKind, prog>>

Running == outcome = "run" /\ pc <= Len(prog)

(* The tee copies whatever passes through it: what the source delivers when *)
(* it sits below the bufio (the code), what the parser receives when above. *)
TeeLaw == tee' = IF Wiring = "tee_below_bufio" THEN pulled' ELSE consumed'

(* ---- bufio.Reader.ReadByte ------------------------------------------- *)
ByteFromBuffer ==
    /\ Running /\ Kind(prog[pc]) = "B" /\ Buffered > 0
    /\ consumed' = consumed + 1
    /\ Advance /\ UNCHANGED <<pulled, berr, sched>>
    /\ TeeLaw

ByteFill == \* buffer empty, no stored error: fill() does one underlying Read
    /\ Running /\ Kind(prog[pc]) = "B" /\ Buffered = 0 /\ berr = "none"
    /\ \E d \in 0..BUF, e \in BOOLEAN :
          /\ SrcRead(BUF, d, e)
          /\ berr' = IF e THEN failKind ELSE "none"
    /\ UNCHANGED <<n, failKind, prog, pc, got, consumed, outcome>>
    /\ TeeLaw

ByteError == \* buffer empty, stored error: readErr() returns and clears it
    /\ Running /\ Kind(prog[pc]) = "B" /\ Buffered = 0 /\ berr # "none"
    /\ berr' = "none" /\ Finish("fail")
    /\ UNCHANGED <<pc, got, pulled, consumed, sched>>
    /\ TeeLaw

(* ---- bufio.Reader.Read(p), len(p) = want ------------------------------ *)
(* Result (k bytes, err) of one bufio.Read call, as a relation on the      *)
(* primed variables; err is "none" or the error returned to the caller.    *)
BufioRead(want, k, err) ==
    IF Buffered > 0 THEN
        /\ k = Min(want, Buffered) /\ err = "none"
        /\ consumed' = consumed + k
        /\ UNCHANGED <<pulled, berr, sched>>
    ELSE IF berr # "none" THEN
        /\ k = 0 /\ err = berr /\ berr' = "none"
        /\ UNCHANGED <<pulled, consumed, sched>>
    ELSE IF want >= BUF THEN        \* large read, empty buffer: directly into p
        \E e \in BOOLEAN :
          /\ SrcRead(want, k, e)
          /\ err = (IF e THEN failKind ELSE "none")
          /\ berr' = "none"          \* readErr() hands the error over at once
          /\ consumed' = consumed + k
    ELSE                             \* one underlying Read into the buffer
        \E d \in 0..BUF, e \in BOOLEAN :
          /\ SrcRead(BUF, d, e)
          /\ k = Min(want, d)
          /\ IF d = 0 THEN err = failKind /\ berr' = "none"
                      ELSE err = "none" /\ berr' = (IF e THEN failKind ELSE "none")
          /\ consumed' = consumed + k

SingleRead == \* as found: bytesRead, err := r.Read(field); err or short => fail
    /\ Running /\ Kind(prog[pc]) = "R"
    /\ \E k \in 0..prog[pc][2], err \in {"none", "eof", "ioerr"} :
          /\ BufioRead(prog[pc][2], k, err)
          /\ IF err # "none" \/ k < prog[pc][2]
                THEN Finish("fail") /\ UNCHANGED <<pc, got>>
                ELSE Advance
    /\ TeeLaw

FullRead == \* io.ReadFull: repeat Read until the field is complete or an error
    /\ Running /\ Kind(prog[pc]) = "F"
    /\ LET want == prog[pc][2] - got IN
       \E k \in 0..want, err \in {"none", "eof", "ioerr"} :
          /\ BufioRead(want, k, err)
          /\ IF got + k = prog[pc][2] THEN Advance         \* complete (error, if any, dropped)
             ELSE IF err # "none" THEN Finish("fail") /\ UNCHANGED <<pc, got>>
             ELSE got' = got + k /\ UNCHANGED <<n, failKind, prog, pc, outcome>>
    /\ TeeLaw

EmptyProg == outcome = "run" /\ pc > Len(prog) /\ outcome' = "ok" /\
             UNCHANGED <<n, failKind, prog, pc, got, pulled, consumed, berr, sched, tee>>

Next == ByteFromBuffer \/ ByteFill \/ ByteError \/ SingleRead \/ FullRead \/ EmptyProg
Spec == Init /\ [][Next]_vars /\ WF_vars(Next)

--------------------------------------------------------------------------------
(* Design-level properties *)

TypeOK == /\ pulled \in 0..n /\ consumed \in 0..pulled /\ tee \in 0..pulled
          /\ outcome \in {"run", "ok", "fail"} /\ berr \in {"none", "eof", "ioerr"}

\* C07: when extraction ends (either way) the rewind buffer holds exactly what
\* the source delivered, so MultiReader(rewind, source) replays the input.
ReplayComplete == outcome # "run" => tee = pulled

\* C08: a failure is justified only by the data really being insufficient.
FailJustified == outcome = "fail" => Need > n

\* C08, other direction: enough data always succeeds, and consumes exactly Need.
SuccessExact == outcome = "ok" => (consumed = Need /\ Need <= n)

\* C18: read-ahead never exceeds one bufio buffer beyond what the parser asked for.
ReadAheadBounded == pulled <= Need + BUF /\ Buffered <= (IF BUF > 0 THEN BUF ELSE 0)

\* every behaviour terminates (no livelock on empty reads)
Terminates == <>(outcome # "run")
================================================================================
