------------------------------ MODULE PixelConv ------------------------------
(***************************************************************************)
(* Integer pixel semantics of the standard library's colour types, as      *)
(* documented in image/color (role B: transcribed functions), and the      *)
(* contract of C15: a conversion helper's output pixel is what             *)
(* draw.Draw(dst, r, src, sp, draw.Src) produces, i.e.                     *)
(*     dstModel.Convert(src.At(p))  =  FromRGBA16(dstKind, ToRGBA16(src))  *)
(* for valid (alpha-premultiplied) source colours when un-premultiplying,  *)
(* and for every stored value when the target is premultiplied (a plain    *)
(* widening / narrowing of what is stored).                                *)
(* All arithmetic is arranged to stay below 2^31 (TLC's integers).         *)
(***************************************************************************)
EXTENDS Integers, Sequences, TLC

M16 == 65535

\* floor(a * b / 65535) for 0 <= a, b <= 65535 without exceeding 2^31:
\* a*b = (a*bh)*256 + a*bl with b = bh*256 + bl
MulDiv16(a, b) ==
    LET bh == b \div 256   bl == b % 256
        X == a * bh        Y == a * bl
    IN (X \div M16) * 256 + (((X % M16) * 256 + Y) \div M16)

\* floor(r * 65535 / a) for 0 <= r <= a <= 65535, a > 0  (un-premultiplication)
\* r*65535 = (r*255)*257
UnPremul(r, a) ==
    LET x == r * 255 IN 257 * (x \div a) + ((257 * (x % a)) \div a)

\* JFIF YCbCr -> RGB in the fixed-point form image/color documents and uses
YCbCrRaw(y, cb, cr) ==
    LET yy == y * 65793   cb1 == cb - 128   cr1 == cr - 128
    IN << yy + 91881 * cr1, yy - 22554 * cb1 - 46802 * cr1, yy + 116130 * cb1 >>
Fix16(v) == IF v < 0 THEN 0 ELSE IF v >= 16777216 THEN 65535 ELSE v \div 256
Fix8(v) == IF v < 0 THEN 0 ELSE IF v >= 16777216 THEN 255 ELSE v \div 65536

(* The colour's RGBA(): 16-bit alpha-premultiplied <<r, g, b, a>>.           *)
ToRGBA16(kind, p) ==
    CASE kind = "RGBA64"  -> p
      [] kind = "NRGBA64" -> << MulDiv16(p[1], p[4]), MulDiv16(p[2], p[4]), MulDiv16(p[3], p[4]), p[4] >>
      [] kind = "RGBA"    -> << p[1] * 257, p[2] * 257, p[3] * 257, p[4] * 257 >>
      [] kind \in {"NRGBA", "PalNRGBA"} -> << (p[1] * 257 * p[4]) \div 255, (p[2] * 257 * p[4]) \div 255,
                                (p[3] * 257 * p[4]) \div 255, p[4] * 257 >>
      [] kind = "Gray"    -> << p[1] * 257, p[1] * 257, p[1] * 257, M16 >>
      [] kind = "Gray16"  -> << p[1], p[1], p[1], M16 >>
      [] kind = "Alpha"   -> << p[1] * 257, p[1] * 257, p[1] * 257, p[1] * 257 >>
      [] kind = "Alpha16" -> << p[1], p[1], p[1], p[1] >>
      [] kind = "CMYK"    -> << (257 * (255 - p[1]) * (255 - p[4])) \div 255,
                                (257 * (255 - p[2]) * (255 - p[4])) \div 255,
                                (257 * (255 - p[3]) * (255 - p[4])) \div 255, M16 >>
      [] kind = "YCbCr"   -> LET v == YCbCrRaw(p[1], p[2], p[3]) IN << Fix16(v[1]), Fix16(v[2]), Fix16(v[3]), M16 >>
      [] kind = "NYCbCrA" -> LET v == YCbCrRaw(p[1], p[2], p[3])  a == p[4] * 257
                             IN << MulDiv16(Fix16(v[1]), a), MulDiv16(Fix16(v[2]), a), MulDiv16(Fix16(v[3]), a), a >>

(* The destination colour model's conversion of a 16-bit premultiplied colour. *)
FromRGBA16(kind, c) ==
    CASE kind = "RGBA64" -> c
      [] kind = "RGBA"   -> << c[1] \div 256, c[2] \div 256, c[3] \div 256, c[4] \div 256 >>
      [] kind = "NRGBA"  ->
           IF c[4] = M16 THEN << c[1] \div 256, c[2] \div 256, c[3] \div 256, 255 >>
           ELSE IF c[4] = 0 THEN << 0, 0, 0, 0 >>
           ELSE << UnPremul(c[1], c[4]) \div 256, UnPremul(c[2], c[4]) \div 256,
                   UnPremul(c[3], c[4]) \div 256, c[4] \div 256 >>

Conv(sk, dk, p) == FromRGBA16(dk, ToRGBA16(sk, p))

\* a pixel observation e = [s (source kind), d (helper's target kind), i (source
\* pixel), o (output pixel)] is accepted iff
\* (an input that already has the target type is returned as it is: identity)
PixelOK(e) == IF e.s = e.d THEN e.o = e.i ELSE e.o = Conv(e.s, e.d, e.i)

\* a structural observation: bounds kept, same instance exactly when the input
\* already has the target type, input untouched, no panic
StructOK(e) == /\ ~e.panic /\ e.bounds_equal /\ e.src_unchanged
               /\ e.same_instance = e.expect_same

(* Lemmas TLC checks on the transcription itself (MC_PixelConv):             *)
\*  - the 8-bit and 16-bit YCbCr forms agree on the high byte
YCbCrConsistent(y, cb, cr) ==
    LET v == YCbCrRaw(y, cb, cr) IN \A k \in 1..3 : Fix16(v[k]) \div 256 = Fix8(v[k])
\*  - premultiplication never exceeds alpha, and un-premultiplying opaque is the identity
PremulBounded(c, a) == (c * 257 * a) \div 255 <= a * 257
RoundTrip8(c) == FromRGBA16("RGBA", ToRGBA16("RGBA", <<c, c, c, 255>>)) = <<c, c, c, 255>>
=============================================================================
