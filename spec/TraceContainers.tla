--------------------------- MODULE TraceContainers ---------------------------
(***************************************************************************)
(* Trace validation (binding T) for C05/C06: every line of trace.ndjson is  *)
(* an observation of the REAL loaders on the concretisation of an abstract  *)
(* file; it is accepted iff the observed outcome is in Allowed(fmt, file)   *)
(* - the very operator the impl-shaped model is checked against.            *)
(*                                                                         *)
(* Calls are independent, so the trace is explored as a tree (root ->       *)
(* first event of each block -> next event ...) and all TLC workers share   *)
(* the work.  Rejected events are printed, not raised, so that one run      *)
(* reports every rejection; the run is accepted by count (1 + #events       *)
(* distinct states, checked by the caller) and by an empty reject list.     *)
(***************************************************************************)
EXTENDS ContainersContract, Json

Trace == ndJsonDeserialize("trace.ndjson")
BlockSize == 400
VARIABLES k        \* index of the event being judged (0 = root)
NBlocks == (Len(Trace) + BlockSize - 1) \div BlockSize

CONSTANT Prop      \* "C05": dimensions / depth / success;  "C06": the ICC outcome

\* the observation, projected on what the property talks about, must agree with
\* some outcome the contract allows
Accept(e) ==
    \E a \in Allowed(e.fmt, e.file) :
        /\ a.ok = e.obs.ok
        /\ Prop = "C05" => (a.w = e.obs.w /\ a.h = e.obs.h /\ a.bpc = e.obs.bpc)
        /\ Prop = "C06" => a.icc = e.obs.icc

Judge(n) == IF Accept(Trace[n]) THEN TRUE
            ELSE PrintT(ToJson([reject |-> n, id |-> Trace[n].id]))

Init == k = 0
Next == \/ /\ k = 0
           /\ \E b \in 0..(NBlocks - 1) : k' = b * BlockSize + 1
           /\ Judge(k')
        \/ /\ k > 0 /\ k < Len(Trace) /\ k % BlockSize # 0
           /\ k' = k + 1
           /\ Judge(k')
Spec == Init /\ [][Next]_k
==============================================================================
