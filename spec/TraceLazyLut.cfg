SPECIFICATION TraceSpec
CONSTANTS
  Procs = {"g0", "g1", "g2", "g3"}
  Design = "once_only"
INVARIANTS NotAllAccepted TraceNoRace TraceRetOK
