SPECIFICATION Spec
