----------------------------- MODULE TraceSpaces -----------------------------
(* Trace validation for C03 / C20 (spaces.ndjson carries the declared          *)
(* chromaticities; the exact matrices are derived from them once).             *)
EXTENDS Spaces
Trace == ndJsonDeserialize("trace.ndjson")
BlockSize == 200
VARIABLES k
NBlocks == (Len(Trace) + BlockSize - 1) \div BlockSize
Judge(n) == IF SpaceEventOK(Trace[n]) THEN TRUE ELSE PrintT(ToJson([reject |-> n]))
Init == k = 0 /\ TabsInit
Next == \/ /\ k = 0
           /\ \E b \in 0..(NBlocks - 1) : k' = b * BlockSize + 1
           /\ Judge(k')
        \/ /\ k > 0 /\ k < Len(Trace) /\ k % BlockSize # 0
           /\ k' = k + 1
           /\ Judge(k')
Spec == Init /\ [][Next /\ UNCHANGED tabs]_<<k, tabs>>
=============================================================================
