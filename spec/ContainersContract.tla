-------------------------- MODULE ContainersContract --------------------------
(***************************************************************************)
(* Grammar of abstract PNG / JPEG / WebP files and the CONTRACT of C05/C06: *)
(* Allowed(fmt, f) is the set of outcomes a loader may report for file f.   *)
(* Constant-level only (no variables), so that both the impl-shaped model   *)
(* (Containers.tla) and the trace specification (TraceContainers.tla) use   *)
(* one and the same definition.                                             *)
(***************************************************************************)
EXTENDS Integers, Sequences, FiniteSets, TLC

None == <<"none">>
Err == <<"err">>
Data(ids) == <<"data", ids>>

Outcome(ok, m, c) == [ok |-> ok, w |-> m[1], h |-> m[2], bpc |-> m[3], icc |-> c]
Fail == [ok |-> FALSE, w |-> 0, h |-> 0, bpc |-> 0, icc |-> None]

RECURSIVE SeqSum(_)
SeqSum(s) == IF s = <<>> THEN 0 ELSE Head(s) + SeqSum(Tail(s))


-------------------------------------------------------------------------------
(* PNG grammar *)

Ihdr(w, h, d, ct, il) == [t |-> "IHDR", w |-> w, h |-> h, d |-> d, ct |-> ct, il |-> il]
Anc(sz) == [t |-> "anc", size |-> sz]      \* "small" | "big" (longer than a bufio window)
\* name: length of the profile name (80 = no terminator within 80 bytes);
\* method: compression method byte; z: state of the deflate stream;
\* pid: payload identity; cross: the chunk data is not wholly inside the bufio
\* window it starts in (every profile of 4 KiB or more, or one placed late).
Iccp(name, method, z, pid, cross) ==
    [t |-> "iCCP", name |-> name, method |-> method, z |-> z, pid |-> pid, cross |-> cross]
Idat == [t |-> "IDAT"]
Iend == [t |-> "IEND"]

PngModes == { <<0,1>>, <<0,2>>, <<0,4>>, <<0,8>>, <<0,16>>, <<2,8>>, <<2,16>>, <<3,1>>,
              <<3,2>>, <<3,4>>, <<3,8>>, <<4,8>>, <<4,16>>, <<6,8>>, <<6,16>> }
PngDims == { <<1, 2>>, <<15, 16>>, <<65536, 3>>, <<2147483647, 1>>, <<7, 2147483647>>,
             <<16777216, 255>> }
PngIhdrs == { Ihdr(d[1], d[2], 8, 2, 0) : d \in PngDims } \cup
            { Ihdr(15, 16, m[2], m[1], il) : m \in PngModes, il \in {0, 1} }
OkZ == {"ok0", "ok6", "ok9", "fixed"}
PngIccps ==
    { Iccp(1, 0, "ok6", p, p >= 3) : p \in 1..7 } \cup
    { Iccp(79, 0, z, 2, FALSE) : z \in {"ok0", "ok9"} } \cup
    { Iccp(5, 0, "ok6", 2, TRUE) } \cup     \* small profile placed across a window boundary
    { Iccp(5, 0, z, 2, FALSE) : z \in {"trunc", "badhdr", "badsum"} } \cup
    { Iccp(5, 0, "fixed", 1, FALSE), Iccp(1, 0, "fixed", 1, FALSE) } \cup   \* one final fixed-Huffman block: the shortest legal stream (other encoders emit it)
    { Iccp(5, 0, z, p, TRUE) : z \in {"trunc", "badhdr", "badsum", "badblock"}, p \in {4, 6} } \cup   \* damage in large streams
    { Iccp(5, 0, "ok6", 9, FALSE) } \cup   \* payload 9: a complete profile followed by bytes its size field does not count
    { Iccp(80, 0, "ok6", 2, FALSE), Iccp(5, 1, "ok6", 2, FALSE) }
AncSlots == { <<>>, <<Anc("small")>>, <<Anc("big")>>, <<Anc("small"), Anc("big")>> }
PngTails == { <<Idat, Iend>>, <<Iend>>, <<>> }
\* deep = FALSE (quick tier) thins the ancillary material after the profile
PngFiles(deep) ==
    { <<ih>> \o a1 \o ic \o a2 \o tl :
        ih \in PngIhdrs, a1 \in AncSlots,
        ic \in {<<>>} \cup { <<c>> : c \in PngIccps },
        a2 \in (IF deep THEN AncSlots ELSE { <<>>, <<Anc("small")>> }),
        tl \in (IF deep THEN PngTails ELSE { <<Idat, Iend>>, <<>> }) }

(* PNG contract.  S = the chunks before the first IDAT/IEND.  Well-formed   *)
(* files have IHDR first.  The first iCCP in S decides the profile.         *)
RECURSIVE UpToPixels(_)
UpToPixels(f) == IF f = <<>> \/ Head(f).t \in {"IDAT", "IEND"} THEN <<>>
                 ELSE <<Head(f)>> \o UpToPixels(Tail(f))
PngAllowed(f) ==
    LET S == UpToPixels(f)
        ih == f[1]
        m == <<ih.w, ih.h, ih.d>>
        iccs == SelectSeq(S, LAMBDA c : c.t = "iCCP")
    IN IF iccs = <<>> THEN { Outcome(TRUE, m, None) }
       ELSE LET c == iccs[1] IN
            IF c.name = 80 \/ c.method # 0
              \* malformed in a way the property does not classify: anything but bytes
              THEN { Fail, Outcome(TRUE, m, Err), Outcome(TRUE, m, None) }
            ELSE IF c.z \in OkZ THEN { Outcome(TRUE, m, Data(<<c.pid>>)) }
            ELSE { Outcome(TRUE, m, Err) }          \* damaged deflate stream


-------------------------------------------------------------------------------
(* JPEG grammar: SOI is implicit; the file is a sequence of segments ending  *)
(* with SOS (or EOI).                                                        *)

Sof(kind, p, h, w, nc) == [t |-> "SOF", kind |-> kind, p |-> p, h |-> h, w |-> w, nc |-> nc]
IccSeg(seq, total, pid) == [t |-> "ICC", seq |-> seq, total |-> total, pid |-> pid]
Other(kind) == [t |-> "OTHER", kind |-> kind]   \* APP1/COM/DQT/DHT/DRI/APP2 that is not ICC
Sos == [t |-> "SOS"]

JpegOtherKinds == { "app0", "app1", "app2", "app3", "app4", "app5", "app6", "app7", "app8", "app9",
                    "app10", "app11", "app12", "app13", "app14", "app15", "com", "dqt", "dht", "dri",
                    "app2short", "app2empty", "app2almost",
                    "fill", "fillcom" }       \* fill bytes (X'FF') ahead of a marker: ITU-T T.81 B.1.1.2 allows any number
JpegSofs == { Sof(0, 8, 16, 15, 3), Sof(2, 8, 1, 65535, 1), Sof(0, 12, 65535, 256, 4),
              Sof(2, 8, 257, 258, 3) }
JpegLetters == { IccSeg(s, t, p) : s \in 0..3, t \in 1..2, p \in 1..2 } \cup
               { Other("app1") }
\* all sequences of k free letters with one SOF inserted at any position, then SOS
JpegBodies(k) == { [j \in 1..k |-> l[j]] : l \in [1..k -> JpegLetters] }
InsertAt(s, pos, x) == SubSeq(s, 1, pos) \o <<x>> \o SubSeq(s, pos + 1, Len(s))
JpegFiles(MaxLetters) ==
    UNION { { InsertAt(b, pos, sf) \o <<Sos>> : b \in JpegBodies(k), pos \in 0..k,
                sf \in (IF k = 0 THEN JpegSofs ELSE {Sof(0, 8, 16, 15, 3)}) }
            : k \in 0..MaxLetters }
    \cup  \* every segment kind the format allows before the scan, before and after the SOF
    UNION { { <<Other(k), Sof(0, 8, 16, 15, 3), Sos>>, <<Sof(2, 8, 257, 258, 3), Other(k), Sos>>,
              <<Other(k), IccSeg(1, 1, 1), Other(k), Sof(0, 8, 16, 15, 1), Sos>> } : k \in JpegOtherKinds }
    \cup  \* payload 9: a complete profile followed by bytes its own size field does not count
    { <<IccSeg(1, 1, 9), Sof(0, 8, 16, 15, 3), Sos>>, <<Sof(0, 8, 16, 15, 3), IccSeg(1, 2, 9), IccSeg(2, 2, 1), Sos>> }
    \cup  \* well-formed multi-chunk embeddings beyond the free-letter bound:
          \* 3 chunks in every order, SOF before / among / after, other segments between
    { InsertAt(<<IccSeg(p[1], 3, p[1]), Other("dqt"), IccSeg(p[2], 3, p[2]), IccSeg(p[3], 3, p[3])>>,
               pos, Sof(2, 8, 257, 258, 3)) \o <<Other("dht"), Sos>>
        : p \in { q \in [1..3 -> 1..3] : {q[1], q[2], q[3]} = 1..3 }, pos \in 0..4 }

(* JPEG contract.  S = segments before the first SOS.  The ICC segments of  *)
(* S are "clean" when their totals agree, every sequence number lies in     *)
(* 1..total and occurs exactly once, and all total are present.             *)
RECURSIVE UpToSos(_)
UpToSos(f) == IF f = <<>> \/ Head(f).t = "SOS" THEN <<>> ELSE <<Head(f)>> \o UpToSos(Tail(f))
IccOf(S) == SelectSeq(S, LAMBDA c : c.t = "ICC")
Clean(I) ==
    /\ I # <<>>
    /\ \A a \in 1..Len(I) : I[a].total = I[1].total /\ I[a].seq \in 1..I[1].total
    /\ \A a, b \in 1..Len(I) : I[a].seq = I[b].seq => a = b
    /\ Len(I) = I[1].total
Assemble(I) == \* payload ids in sequence-number order
    [k \in 1..Len(I) |-> (CHOOSE a \in 1..Len(I) : I[a].seq = k)]
AssembleIds(I) == LET ord == Assemble(I) IN [k \in 1..Len(I) |-> I[ord[k]].pid]
HasSof(S) == \E a \in 1..Len(S) : S[a].t = "SOF"
FirstSof(S) == S[CHOOSE a \in 1..Len(S) : S[a].t = "SOF" /\ \A b \in 1..(a - 1) : S[b].t # "SOF"]
JpegAllowed(f) ==
    LET S == UpToSos(f)
        I == IccOf(S)
    IN IF ~HasSof(S) THEN { Fail }
       ELSE LET sf == FirstSof(S)
                m == <<sf.w, sf.h, sf.p>>
            IN IF I = <<>> THEN { Outcome(TRUE, m, None) }
               ELSE IF Clean(I) THEN { Outcome(TRUE, m, Data(AssembleIds(I))) }
               ELSE \* damaged: an error - or, C18, the complete clean profile of a
                    \* prefix after which a loader is entitled to stop reading
                    { Outcome(TRUE, m, Err) } \cup
                    { Outcome(TRUE, m, Data(AssembleIds(IccOf(SubSeq(S, 1, n))))) :
                        n \in { n \in 1..Len(S) : HasSof(SubSeq(S, 1, n)) /\ Clean(IccOf(SubSeq(S, 1, n))) } }


-------------------------------------------------------------------------------
(* WebP grammar: RIFF/WEBP header implicit; first chunk decides the format. *)

Vp8(w, h, ws, hs) == [t |-> "VP8", w |-> w, h |-> h, ws |-> ws, hs |-> hs]
Vp8l(w, h, alpha) == [t |-> "VP8L", w |-> w, h |-> h, alpha |-> alpha]
Vp8x(fl, w, h) == [t |-> "VP8X", iccf |-> fl[1], alpha |-> fl[2], exif |-> fl[3], xmp |-> fl[4], w |-> w, h |-> h]
IccpW(pid, cross) == [t |-> "ICCP", pid |-> pid, cross |-> cross]
OtherW(k) == [t |-> "OTHERW", kind |-> k]

Dims14 == { <<1, 2>>, <<64, 63>>, <<16383, 1>>, <<255, 16383>>, <<8192, 4096>> }
Dims14L == { <<1, 2>>, <<64, 63>>, <<16384, 1>>, <<256, 16384>>, <<8193, 4097>> }
Dims24 == { <<1, 2>>, <<64, 63>>, <<16777216, 1>>, <<65537, 16777216>>, <<256, 65536>> }
WebpFiles ==
    { <<Vp8(d[1], d[2], ws, hs)>> : d \in Dims14, ws \in {0, 3}, hs \in {0, 2} } \cup
    { <<Vp8l(d[1], d[2], a)>> : d \in Dims14L, a \in BOOLEAN } \cup
    { <<Vp8x(fl, d[1], d[2])>> \o nx \o <<Vp8(64, 63, 0, 0)>> :
        fl \in { <<FALSE, FALSE, FALSE, FALSE>>, <<TRUE, FALSE, FALSE, FALSE>>,
                <<FALSE, TRUE, TRUE, FALSE>>, <<TRUE, TRUE, FALSE, TRUE>> }, d \in Dims24,
        nx \in { <<>>, <<OtherW("EXIF")>> } \cup { <<IccpW(p, p >= 3 /\ p # 9)>> : p \in (1..6) \cup {9} } \cup
               { <<IccpW(2, FALSE), OtherW("EXIF")>> } } \cup
    { <<Vp8x(<<TRUE, FALSE, FALSE, FALSE>>, 64, 63)>> } \cup       \* flag set, file ends
    { <<Vp8x(<<TRUE, FALSE, FALSE, FALSE>>, 64, 63), IccpW(p, FALSE)>> : p \in {1, 2, 3, 9} }   \* the profile is the last chunk of the container

WebpAllowed(f) ==
    LET c == f[1] IN
    CASE c.t = "VP8"  -> { Outcome(TRUE, <<c.w, c.h, 8>>, None) }
      [] c.t = "VP8L" -> { Outcome(TRUE, <<c.w, c.h, 8>>, None) }
      [] c.t = "VP8X" ->
           LET m == <<c.w, c.h, 8>> IN
           IF c.iccf
             THEN IF Len(f) >= 2 /\ f[2].t = "ICCP" THEN { Outcome(TRUE, m, Data(<<f[2].pid>>)) }
                  ELSE { Outcome(TRUE, m, Err) }      \* announced but missing: damaged
           ELSE IF Len(f) >= 2 /\ f[2].t = "ICCP"
             THEN { Outcome(TRUE, m, None), Outcome(TRUE, m, Data(<<f[2].pid>>)) } \* contradictory file
           ELSE { Outcome(TRUE, m, None) }


-------------------------------------------------------------------------------
Files(fmt, maxLetters) ==
    CASE fmt = "png" -> PngFiles(maxLetters >= 3) [] fmt = "jpeg" -> JpegFiles(maxLetters) [] fmt = "webp" -> WebpFiles
Allowed(fmt, f) ==
    CASE fmt = "png" -> PngAllowed(f) [] fmt = "jpeg" -> JpegAllowed(f) [] fmt = "webp" -> WebpAllowed(f)
================================================================================
