SPECIFICATION Spec
CONSTANTS
  Design = "asfound"
  Alphabet = {255, 0, 216, 225}
  MaxLen = 4
INVARIANTS TypeOK ErrorIsLast
PROPERTIES Progress FillAccepted
CHECK_DEADLOCK FALSE
