---------------------------- MODULE TracePipeline ----------------------------
(* Trace validation for C04. *)
EXTENDS Pipeline
Trace == ndJsonDeserialize("trace.ndjson")
BlockSize == 100
VARIABLES k
NBlocks == (Len(Trace) + BlockSize - 1) \div BlockSize
Judge(n) == IF PixelOK(Trace[n]) THEN TRUE ELSE PrintT(ToJson([reject |-> n]))
Init == k = 0 /\ TabsInit /\ PInit
Next == \/ /\ k = 0
           /\ \E b \in 0..(NBlocks - 1) : k' = b * BlockSize + 1
           /\ Judge(k')
        \/ /\ k > 0 /\ k < Len(Trace) /\ k % BlockSize # 0
           /\ k' = k + 1
           /\ Judge(k')
Spec == Init /\ [][Next /\ UNCHANGED <<tabs, ptab>>]_<<k, tabs, ptab>>
=============================================================================
