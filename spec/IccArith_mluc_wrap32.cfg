SPECIFICATION Spec
CONSTANTS
  Design = "wrap32"
  Part = "mluc"
INVARIANTS AllocBounded NoEscapedPanic WellFormedAccepted EmptyTableAccepted
