SPECIFICATION Spec
CONSTANTS
  MaxOther = 2
  StringRead = "at_offset"
  EnglishPick = "first_en_maybe_empty"
INVARIANT Conforms
