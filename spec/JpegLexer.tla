----------------------------- MODULE JpegLexer -----------------------------
(***************************************************************************)
(* The JPEG marker lexer beneath jpegmeta.Load (meta/jpegmeta: readMarker, *)
(* makeMarker, readSegment, segmentReader.ReadSegment), up to and          *)
(* including the first start-of-scan, which is as far as Load drives it.   *)
(* It is the layer where defect 12 lived: ITU-T T.81 B.1.1.2 allows any    *)
(* number of X'FF' fill bytes ahead of a marker, and the lexer as found    *)
(* took the first of them for the marker code.                             *)
(*                                                                         *)
(* State: the input bytes, a cursor, the results of the ReadSegment calls  *)
(* made so far.  One action per public call.                               *)
(*                                                                         *)
(* Design = "asfound"   the byte after the first FF is the marker code     *)
(*        = "repaired"  further FF bytes are skipped first                 *)
(*                                                                         *)
(* Binding: generate-and-replay.  TLC prints, for every byte string over   *)
(* Alphabet of length <= MaxLen, what every call returns (marker code,     *)
(* declared data length, data bytes, error class, bytes consumed);         *)
(* harness/cmd/drive/jpeglexer.go feeds the same bytes to the real         *)
(* jpegmeta.NewSegmentReader and compares call by call.                    *)
(***************************************************************************)
EXTENDS Integers, Sequences, TLC, Json

CONSTANTS Design, Alphabet, MaxLen

FF == 255
Standalone == (208..215) \cup {216, 217}                 \* RST0-7, SOI, EOI: no length field
WithLength == {192, 194, 196, 218, 219, 221, 254} \cup (224..239)   \* SOF0 SOF2 DHT SOS DQT DRI COM APP0-15
SOS == 218

VARIABLES inp, pos, out, stopped
vars == <<inp, pos, out, stopped>>

Strings(n) == UNION { [1..k -> Alphabet] : k \in 0..n }
Init == inp \in Strings(MaxLen) /\ pos = 0 /\ out = <<>> /\ stopped = FALSE

Avail == Len(inp) - pos
Byte(k) == inp[pos + k]                                   \* k-th byte ahead of the cursor (1-based)

\* number of fill bytes skipped after the first FF: the run of further FF bytes (repaired), none (as found)
FillRun ==
    IF Design = "asfound" THEN 0
    ELSE LET RECURSIVE Run(_)
             Run(k) == IF pos + 1 + k + 1 <= Len(inp) /\ Byte(1 + k + 1) = FF THEN Run(k + 1) ELSE k
         IN Run(0)

Err(kind, consumed) == [code |-> 0, dlen |-> 0, data |-> <<>>, err |-> kind, adv |-> consumed]
Min(a, b) == IF a < b THEN a ELSE b

\* what one ReadSegment call returns, and how far it moves the cursor
Result ==
    IF Avail = 0 THEN Err("eof", 0)
    ELSE IF Byte(1) # FF THEN Err("invalid", 1)
    ELSE LET f == FillRun  cpos == 2 + f                  \* position (ahead of the cursor) of the marker code
         IN IF Avail < cpos THEN Err("eof", Avail)
            ELSE LET c == Byte(cpos)
                 IN IF c \in Standalone THEN [code |-> c, dlen |-> 0, data |-> <<>>, err |-> "nil", adv |-> cpos]
                    ELSE IF c \notin WithLength THEN Err("unrecognised", cpos)
                    ELSE IF Avail < cpos + 2 THEN Err("eof", Avail)
                    ELSE LET dl == Byte(cpos + 1) * 256 + Byte(cpos + 2) - 2     \* may be -2 or -1
                             have == Avail - (cpos + 2)
                         IN IF dl <= 0 THEN [code |-> c, dlen |-> dl, data |-> <<>>, err |-> "nil", adv |-> cpos + 2]
                            ELSE IF have >= dl
                              THEN [code |-> c, dlen |-> dl, data |-> SubSeq(inp, pos + cpos + 3, pos + cpos + 2 + dl),
                                    err |-> "nil", adv |-> cpos + 2 + dl]
                            ELSE Err(IF have = 0 THEN "eof" ELSE "uxeof", Avail)

ReadSegment ==
    /\ ~stopped
    /\ LET r == Result
       IN /\ pos' = pos + r.adv
          /\ out' = Append(out, [code |-> r.code, dlen |-> r.dlen, data |-> r.data, err |-> r.err, pos |-> pos + r.adv])
          \* Load stops at the first error and at start-of-scan (entropy-coded data follows)
          /\ stopped' = (r.err # "nil" \/ r.code = SOS)
    /\ UNCHANGED inp

Next == ReadSegment
Spec == Init /\ [][Next]_vars

-----------------------------------------------------------------------------
TypeOK == pos \in 0..Len(inp) /\ Len(out) <= Len(inp) + 1
\* every successful call consumes at least the two bytes of a marker: the lexer cannot stand still
Progress == [][\/ out'[Len(out')].err # "nil"
               \/ pos' >= pos + 2]_vars
\* a failed call ends the session; nothing is read after it
ErrorIsLast == \A i \in 1..Len(out) : out[i].err # "nil" => i = Len(out)
\* T.81 B.1.1.2: fill bytes ahead of a recognised marker do not change what is lexed - the call
\* returns that marker.  Violated by Design = "asfound" (expected counterexample: FF FF D8).
FillAccepted ==
    [][LET f == (LET RECURSIVE Run(_)
                     Run(k) == IF pos + 1 + k + 1 <= Len(inp) /\ Byte(1 + k + 1) = FF THEN Run(k + 1) ELSE k
                 IN Run(0))
       IN (Avail >= 3 /\ Byte(1) = FF /\ f >= 1 /\ Avail >= 2 + f /\ Byte(2 + f) \in Standalone)
            => (out'[Len(out')].err = "nil" /\ out'[Len(out')].code = Byte(2 + f))]_vars

\* every finished session, for replay (generation config only)
PrintCase == stopped => PrintT(ToJson([inp |-> inp, calls |-> out]))
=============================================================================
