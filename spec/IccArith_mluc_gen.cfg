SPECIFICATION Spec
CONSTANTS
  Design = "repaired"
  Part = "mluc"
INVARIANTS AllocBounded NoEscapedPanic WellFormedAccepted EmptyTableAccepted PrintCase
