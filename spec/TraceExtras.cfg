SPECIFICATION Spec
