\* repaired design: every fixed-size field is read with io.ReadFull
SPECIFICATION Spec
CONSTANTS
  MaxN = 9
  BUF = 4
  MaxLen = 3
  ReadMode = "full"
  Wiring = "tee_below_bufio"
  Progs <- MCProgs
  Deliv <- AnyDeliv
VIEW View
INVARIANTS TypeOK ReplayComplete FailJustified SuccessExact ReadAheadBounded
PROPERTY Terminates
