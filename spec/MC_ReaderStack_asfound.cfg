\* as found: single Read calls for fixed-size fields
SPECIFICATION Spec
CONSTANTS
  MaxN = 9
  BUF = 4
  MaxLen = 3
  ReadMode = "single"
  Wiring = "tee_below_bufio"
  Progs <- MCProgs
  Deliv <- AnyDeliv
VIEW View
INVARIANTS TypeOK ReplayComplete FailJustified SuccessExact ReadAheadBounded
PROPERTY Terminates
