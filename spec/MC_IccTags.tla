----------------------------- MODULE MC_IccTags -----------------------------
(* Impl-shaped evaluation of Profile.Description over the bounded grammar of *)
(* IccTags, checked against the contract, and printed for replay (binding G). *)
EXTENDS IccTags, Json
CONSTANTS
    MaxOther,    \* tags besides 'desc'
    StringRead,  \* "at_cursor" (as found: strings decoded from the record cursor) | "at_offset"
    EnglishPick  \* "first_en_maybe_empty" (as found) | "nonempty_en"
VARIABLES p, res

\* what the decoder yields for record i
ReadAt(d, i) ==
    IF StringRead = "at_offset" THEN Stored(d, i)
    ELSE IF Len(d.recs) = 1 /\ d.place = "table" /\ d.recSize = 12 THEN Stored(d, i)
    ELSE <<-1, i>>

\* the set of results Description() can produce (Go map iteration order is free)
ImplDescs(q) ==
    IF ~\E t \in 1..Len(q.tags) : q.tags[t].sig = "desc" THEN { <<0, 0>> }
    ELSE LET d == q.desc IN
         IF d.kind = "v2" THEN { <<d.tid, TextLen[d.tid]>> }
         ELSE LET all == { ReadAt(d, i) : i \in 1..Len(d.recs) }
                  en == { ReadAt(d, i) : i \in English(d) }
                  nonempty(S) == { s \in S : ~(Len(s) = 2 /\ s[2] = 0) }
              IN IF EnglishPick = "nonempty_en"
                   THEN IF nonempty(en) # {} THEN nonempty(en) ELSE all
                 ELSE \* picks SOME English entry; if that one is empty falls back to any entry
                      nonempty(en) \cup (IF en = {} \/ nonempty(en) # en THEN all ELSE {})

Init == p \in Profiles(MaxOther) /\ res = "run"
Report == /\ res = "run"
          /\ PrintT(ToJson([profile |-> p, allowed |-> AllowedDesc(p), impl |-> ImplDescs(p)]))
          /\ res' = "reported" /\ UNCHANGED p
Next == Report
Spec == Init /\ [][Next]_<<p, res>>
Conforms == ImplDescs(p) \subseteq AllowedDesc(p)
=============================================================================
