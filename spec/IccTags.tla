------------------------------- MODULE IccTags -------------------------------
(***************************************************************************)
(* ICC tag table and profile description (C17).                            *)
(*                                                                         *)
(* GRAMMAR: a well-formed profile is a tag table (entries in any order),   *)
(* data blocks placed in any order after the table, possibly shared by     *)
(* several tags, separated by 0..3 bytes of padding; the 'desc' tag is a   *)
(* v2 textDescription or a v4 multiLocalizedUnicode element whose records  *)
(* point at strings placed in table order, reversed, shared, gapped or     *)
(* overlapping.  Text contents are identities (tid) with a known length in *)
(* UTF-16 code units.                                                      *)
(* CONTRACT: AllowedDesc(p) - the descriptions Description() may return.   *)
(***************************************************************************)
EXTENDS Integers, Sequences, FiniteSets, TLC

\* text identities and their length in UTF-16 code units:
\*  1 ASCII "Alpha"   2 empty   3 BMP non-ASCII (3 units)
\*  4 surrogate pair + 1 (3 units)   5 2000 units of mixed content
\*  6 Latin-1 beyond ASCII: every code unit below U+0100, some at or above U+0080 (6 units)
\*  7 ends in a code unit whose low byte is zero (U+4E00), after U+0100 (3 units)
TextLen == <<5, 0, 3, 3, 2000, 6, 3, 600, 4, 3>>   \* text 8: surrogate pairs starting at units 127, 255, 511; text 9 ends in a pair; text 10 begins with U+FEFF
Texts == 1..10
MinI(a, b) == IF a < b THEN a ELSE b

Rec(lang, country, tid) == [lang |-> lang, country |-> country, tid |-> tid]
V2(tid) == [kind |-> "v2", tid |-> tid]
Mluc(recs, place, recSize) == [kind |-> "mluc", recs |-> recs, place |-> place, recSize |-> recSize]
Places == {"table", "reverse", "shared", "gapped", "overlap"}

(* The string stored at the declared (offset, length) of record i: <<text id, *)
(* number of code units of it>>.                                              *)
Stored(d, i) ==
    LET r == d.recs IN
    CASE d.place = "shared"  -> <<r[1].tid, TextLen[r[1].tid]>>
      [] d.place = "overlap" -> <<r[1].tid, MinI(TextLen[r[i].tid], TextLen[r[1].tid])>>
      [] OTHER               -> <<r[i].tid, TextLen[r[i].tid]>>

English(d) == { i \in 1..Len(d.recs) : d.recs[i].lang = "en" }

(* Contract.  <<0, 0>> ("none"): the profile has no description tag (Description()      *)
(* reports an error); otherwise <<tid, units>>.  When every English string   *)
(* is empty, falling back to some other record is tolerated as well.         *)
AllowedDesc(p) ==
    IF ~\E t \in 1..Len(p.tags) : p.tags[t].sig = "desc" THEN { <<0, 0>> }
    ELSE LET d == p.desc IN
         IF d.kind = "v2" THEN { <<d.tid, TextLen[d.tid]>> }
         ELSE LET en == English(d)
                  all == { Stored(d, i) : i \in 1..Len(d.recs) } IN
              IF en = {} THEN all
              ELSE IF \A i \in en : Stored(d, i)[2] = 0 THEN all
              ELSE { Stored(d, i) : i \in en }

\* an observation e = [profile, read_ok, desc] is accepted iff
DescOK(e) == e.read_ok /\ e.desc \in AllowedDesc(e.profile)

-------------------------------------------------------------------------------
(* Bounded grammar for generation *)
Perms(S) == { f \in [1..Cardinality(S) -> S] : \A a, b \in 1..Cardinality(S) : f[a] = f[b] => a = b }

\* tags: desc + k other tags; blocks: block 1 is the description element
TagSets(k) ==  \* <<tags (sig, block), number of blocks>>: others own a block each, or share
    { <<[j \in 1..(k + 1) |-> IF j = 1 THEN [sig |-> "desc", block |-> 1]
                              ELSE [sig |-> <<"t1", "t2", "t3">>[j - 1], block |-> bl[j - 1]]],
        nb>> :
        nb \in 1..(k + 1), bl \in [1..k -> 1..(k + 1)] }
WellBlocked(ts) ==   \* every block is used, and block numbers are 1..nb
    LET tags == ts[1] nb == ts[2] IN
    /\ \A t \in 1..Len(tags) : tags[t].block \in 1..nb
    /\ \A b \in 1..nb : \E t \in 1..Len(tags) : tags[t].block = b

GapPatterns == { <<0, 0, 0, 0>>, <<3, 3, 3, 3>>, <<0, 1, 2, 3>> }

Layouts(k) ==
    { [tags |-> [j \in 1..Len(ts[1]) |-> ts[1][tord[j]]], nblocks |-> ts[2], order |-> bord, gaps |-> g] :
        ts \in { x \in TagSets(k) : WellBlocked(x) },
        tord \in Perms(1..(k + 1)), bord \in UNION { Perms(1..nb) : nb \in 1..(k + 1) }, g \in GapPatterns }
WellLayout(l) == Len(l.order) = l.nblocks

Descs ==
    { V2(t) : t \in Texts } \cup
    { Mluc(<<Rec("en", "US", t)>>, pl, rs) : t \in Texts, pl \in {"table", "gapped"}, rs \in {12, 16} } \cup
    { Mluc(<<Rec(l1, "AA", t1), Rec(l2, "BB", t2)>>, pl, 12) :
        l1 \in {"en", "de"}, l2 \in {"en", "fr"}, t1 \in {1, 3, 5}, t2 \in {1, 2, 4}, pl \in Places } \cup
    { Mluc(<<Rec("ja", "JP", 3), Rec(l2, "US", t2), Rec(l3, "GB", t3)>>, pl, rs) :
        l2 \in {"en", "zh"}, l3 \in {"en", "ko"}, t2 \in {1, 4}, t3 \in {2, 5}, pl \in Places, rs \in {12, 20} }

SimpleLayout == [tags |-> <<[sig |-> "desc", block |-> 1], [sig |-> "t1", block |-> 2]>>,
                 nblocks |-> 2, order |-> <<1, 2>>, gaps |-> <<0, 0, 0, 0>>]
FewDescs == { V2(1), Mluc(<<Rec("de", "DE", 3), Rec("en", "US", 1)>>, "reverse", 12),
              Mluc(<<Rec("en", "US", 4)>>, "gapped", 16) }

Profiles(maxOther) ==
    { [tags |-> l.tags, nblocks |-> l.nblocks, order |-> l.order, gaps |-> l.gaps, desc |-> d] :
        l \in { x \in UNION { Layouts(k) : k \in 0..maxOther } : WellLayout(x) }, d \in FewDescs } \cup
    { [tags |-> SimpleLayout.tags, nblocks |-> 2, order |-> o, gaps |-> SimpleLayout.gaps, desc |-> d] :
        o \in {<<1, 2>>, <<2, 1>>}, d \in Descs } \cup
    \* profiles without a description tag, incl. the empty tag table
    { [tags |-> <<>>, nblocks |-> 0, order |-> <<>>, gaps |-> <<0, 0, 0, 0>>, desc |-> V2(1)],
      [tags |-> <<[sig |-> "t1", block |-> 1]>>, nblocks |-> 1, order |-> <<1>>, gaps |-> <<0, 0, 0, 0>>, desc |-> V2(1)] }
=============================================================================
