SPECIFICATION Spec
CONSTANT Prop = "C07"
