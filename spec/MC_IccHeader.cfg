SPECIFICATION Spec
INVARIANT EachBitFeedsItsField
