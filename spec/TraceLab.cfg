SPECIFICATION Spec
