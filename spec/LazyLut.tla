------------------------------- MODULE LazyLut -------------------------------
(***************************************************************************)
(* Lazy construction of the 16-bit look-up tables (srgb/adobergb/          *)
(* prophotorgb lut.go): N goroutines call From16Bit / To16Bit for the      *)
(* first time.  Impl-shaped: one action per memory access or               *)
(* synchronisation step, sync.Once modelled as in the standard library     *)
(* (atomic done flag with acquire/release, a mutex, the slow path).        *)
(*                                                                         *)
(* The Go memory model is modelled with vector clocks: every plain access  *)
(* to `lut` (the package-level slice variable) and `table` (the array it   *)
(* points at) is checked against earlier conflicting plain accesses that   *)
(* do not happen-before it; synchronisation (atomic store/load of done,    *)
(* mutex unlock/lock) transfers clocks.  NoRace is C11's "no data race as  *)
(* defined by the Go memory model"; RetOK is "every call returns what it   *)
(* returns when executed alone"; BuiltOnce is "lazy initialisation is      *)
(* unobservable".                                                          *)
(*                                                                         *)
(* Design = "nilcheck_once"  as found: if lut != nil { return lut[v] }     *)
(*                           in front of once.Do                           *)
(*        = "once_only"      repaired: once.Do every time                  *)
(*        = "plain_flag"     mutant: sync.Once replaced by a plain bool    *)
(***************************************************************************)
EXTENDS Integers, Sequences, FiniteSets, TLC

CONSTANTS Procs, Design

VARIABLES
    pc,       \* per goroutine: program counter
    vc,       \* per goroutine: vector clock
    lut,      \* "nil" | "ptr": the package-level slice variable
    table,    \* "unbuilt" | "built": contents of the array
    done,     \* sync.Once.done (0/1), or the plain flag of the mutant
    mu,       \* mutex holder: a goroutine or "free"
    relDone,  \* clock released by the atomic store of done
    relMu,    \* clock released by the last Unlock
    wr,       \* location -> <<goroutine, clock>> of the last plain write (or <<"none", 0>>)
    rd,       \* location -> set of <<goroutine, clock>> plain reads since that write
    raced,    \* a data race has occurred
    saw,      \* per goroutine: what its final read of the table saw
    builds,   \* number of times the table was constructed
    hist      \* hook-level history: sequence of <<goroutine, hook point>>

vars == <<pc, vc, lut, table, done, mu, relDone, relMu, wr, rd, raced, saw, builds, hist>>

Locs == {"lut", "table", "flag"}
Zero == [p \in Procs |-> 0]
Join(a, b) == [p \in Procs |-> IF a[p] > b[p] THEN a[p] ELSE b[p]]
Tick(g) == [vc EXCEPT ![g][g] = vc[g][g] + 1]

Init ==
    /\ pc = [g \in Procs |-> "start"]
    /\ vc = [g \in Procs |-> [p \in Procs |-> IF p = g THEN 1 ELSE 0]]
    /\ lut = "nil" /\ table = "unbuilt" /\ done = 0 /\ mu = "free"
    /\ relDone = Zero /\ relMu = Zero
    /\ wr = [l \in Locs |-> <<"none", 0>>] /\ rd = [l \in Locs |-> {}]
    /\ raced = FALSE /\ saw = [g \in Procs |-> "n/a"] /\ builds = 0 /\ hist = <<>>

\* does the access <<h, c>> happen-before goroutine g's current point?
HB(a, g) == a[1] = "none" \/ a[1] = g \/ a[2] <= vc[g][a[1]]

PlainRead(g, l) ==
    /\ raced' = (raced \/ ~HB(wr[l], g))
    /\ rd' = [rd EXCEPT ![l] = rd[l] \cup {<<g, vc[g][g]>>}]
    /\ UNCHANGED wr
PlainWrite(g, l) ==
    /\ raced' = (raced \/ ~HB(wr[l], g) \/ \E a \in rd[l] : ~HB(a, g))
    /\ wr' = [wr EXCEPT ![l] = <<g, vc[g][g]>>]
    /\ rd' = [rd EXCEPT ![l] = {}]
NoAccess == UNCHANGED <<raced, wr, rd>>

Goto(g, l) == pc' = [pc EXCEPT ![g] = l]
Hook(g, h) == hist' = Append(hist, <<g, h>>)

(* ---- the function body ------------------------------------------------- *)
Entry(g) ==   \* hook "entry"; as found: the nil test, a plain read of lut
    /\ pc[g] = "start" /\ Hook(g, "entry")
    /\ IF Design = "nilcheck_once"
         THEN /\ PlainRead(g, "lut")
              /\ Goto(g, IF lut = "ptr" THEN "fastindex" ELSE "onceload")
         ELSE NoAccess /\ Goto(g, IF Design = "plain_flag" THEN "flagtest" ELSE "onceload")
    /\ UNCHANGED <<vc, lut, table, done, mu, relDone, relMu, saw, builds>>

FastIndex(g) ==  \* return lut[v] on the fast path: reads the slice header and the element
    /\ pc[g] = "fastindex"
    /\ raced' = (raced \/ ~HB(wr["lut"], g) \/ ~HB(wr["table"], g))
    /\ rd' = [rd EXCEPT !["lut"] = @ \cup {<<g, vc[g][g]>>}, !["table"] = @ \cup {<<g, vc[g][g]>>}]
    /\ saw' = [saw EXCEPT ![g] = IF HB(wr["table"], g) THEN table ELSE "garbage"]
    /\ Goto(g, "ret") /\ UNCHANGED <<vc, lut, table, done, mu, relDone, relMu, wr, builds, hist>>

OnceLoad(g) ==   \* sync.Once.Do fast path: atomic load-acquire of done
    /\ pc[g] = "onceload"
    /\ IF done = 1 THEN vc' = [vc EXCEPT ![g] = Join(vc[g], relDone)] /\ Goto(g, "slowread")
                   ELSE UNCHANGED vc /\ Goto(g, "lock")
    /\ NoAccess /\ UNCHANGED <<lut, table, done, mu, relDone, relMu, saw, builds, hist>>

Lock(g) ==       \* doSlow: o.m.Lock()
    /\ pc[g] = "lock" /\ mu = "free"
    /\ mu' = g /\ vc' = [vc EXCEPT ![g] = Join(vc[g], relMu)]
    /\ Goto(g, IF done = 0 THEN "build" ELSE "unlock")     \* if o.done == 0 { f() }
    /\ NoAccess /\ UNCHANGED <<lut, table, done, relDone, relMu, saw, builds, hist>>

Build(g) ==      \* hook "build"; the closure fills a fresh array
    /\ pc[g] = "build" /\ Hook(g, "build")
    /\ table' = "built" /\ builds' = builds + 1
    /\ PlainWrite(g, "table")
    /\ Goto(g, "publish") /\ UNCHANGED <<vc, lut, done, mu, relDone, relMu, saw>>

Publish(g) ==    \* hook "publish"; lut = array[:]  (plain write of the slice variable)
    /\ pc[g] = "publish" /\ Hook(g, "publish")
    /\ lut' = "ptr" /\ PlainWrite(g, "lut")
    /\ Goto(g, IF Design = "plain_flag" THEN "flagset" ELSE "oncestore")
    /\ UNCHANGED <<vc, table, done, mu, relDone, relMu, saw, builds>>

OnceStore(g) ==  \* defer o.done.Store(1): atomic store-release
    /\ pc[g] = "oncestore"
    /\ done' = 1 /\ relDone' = Join(relDone, vc[g]) /\ vc' = Tick(g)
    /\ Goto(g, "unlock") /\ NoAccess /\ UNCHANGED <<lut, table, mu, relMu, saw, builds, hist>>

Unlock(g) ==     \* defer o.m.Unlock()
    /\ pc[g] = "unlock" /\ mu = g
    /\ mu' = "free" /\ relMu' = Join(relMu, vc[g]) /\ vc' = Tick(g)
    /\ Goto(g, "slowread") /\ NoAccess /\ UNCHANGED <<lut, table, done, relDone, saw, builds, hist>>

SlowRead(g) ==   \* return lut[v] after once.Do
    /\ pc[g] = "slowread"
    /\ raced' = (raced \/ ~HB(wr["lut"], g) \/ ~HB(wr["table"], g))
    /\ rd' = [rd EXCEPT !["lut"] = @ \cup {<<g, vc[g][g]>>}, !["table"] = @ \cup {<<g, vc[g][g]>>}]
    /\ saw' = [saw EXCEPT ![g] = IF lut = "nil" THEN "nilpanic"
                                  ELSE IF HB(wr["table"], g) THEN table ELSE "garbage"]
    /\ Goto(g, "ret") /\ UNCHANGED <<vc, lut, table, done, mu, relDone, relMu, wr, builds, hist>>

(* mutant design: a plain bool instead of sync.Once *)
FlagTest(g) ==
    /\ pc[g] = "flagtest" /\ PlainRead(g, "flag")
    /\ Goto(g, IF done = 1 THEN "slowread" ELSE "build")
    /\ UNCHANGED <<vc, lut, table, done, mu, relDone, relMu, saw, builds, hist>>
FlagSet(g) ==
    /\ pc[g] = "flagset" /\ done' = 1 /\ PlainWrite(g, "flag")
    /\ Goto(g, "slowread") /\ UNCHANGED <<vc, lut, table, mu, relDone, relMu, saw, builds, hist>>

Return(g) ==     \* hook "ret"
    /\ pc[g] = "ret" /\ Hook(g, "ret") /\ Goto(g, "done")
    /\ NoAccess /\ UNCHANGED <<vc, lut, table, done, mu, relDone, relMu, saw, builds>>

Step(g) == Entry(g) \/ FastIndex(g) \/ OnceLoad(g) \/ Lock(g) \/ Build(g) \/ Publish(g)
           \/ OnceStore(g) \/ Unlock(g) \/ SlowRead(g) \/ FlagTest(g) \/ FlagSet(g) \/ Return(g)
Next == \E g \in Procs : Step(g)
Spec == Init /\ [][Next]_vars /\ \A g \in Procs : WF_vars(Step(g))

-------------------------------------------------------------------------------
NoRace == ~raced
RetOK == \A g \in Procs : pc[g] \in {"ret", "done"} => saw[g] = "built"
BuiltOnce == builds <= 1
AllReturn == <>(\A g \in Procs : pc[g] = "done")
\* hook-level sanity used by trace validation: nobody returns before publication
NoReturnBeforePublish ==
    \A i \in 1..Len(hist) : hist[i][2] = "ret" => \E j \in 1..(i - 1) : hist[j][2] = "publish"
================================================================================
