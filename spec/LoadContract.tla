---------------------------- MODULE LoadContract ----------------------------
(***************************************************************************)
(* Contract of the four loaders as seen from outside (C07, C08, C18, C19). *)
(* Events are observations of one public call (and of draining the stream  *)
(* it returned), recorded by an instrumented source reader; the contract   *)
(* only speaks about the source's bytes, the counts pulled and replayed,   *)
(* and the outcome projected by the harness.                               *)
(***************************************************************************)
EXTENDS Integers, Sequences

ReadAheadAllowance == 65536      \* C18: "plus at most 64 KiB of read-ahead"

Max(a, b) == IF a > b THEN a ELSE b
Min(a, b) == IF a < b THEN a ELSE b

(* C07.  The source delivers cut bytes and then fails with fault ("eof" or  *)
(* a sticky "ioerr").  Whatever extraction did: a stream came back, nothing *)
(* panicked, the loader did not pull more than exists, and the stream, read *)
(* to its end, yields exactly those cut bytes and then the source's own     *)
(* terminal condition.                                                      *)
ReplayOK(e) ==
    /\ ~e.panic /\ ~e.stream_nil
    /\ e.pulled <= e.cut
    /\ e.replay_len = e.cut         \* nothing lost, nothing duplicated
    /\ e.prefix = e.cut             \* byte-for-byte, in order
    /\ e.final = e.fault            \* and then the source's own EOF / error

(* C08.  outs = <<schedule name, outcome>> for one input under many         *)
(* delivery schedules; the first is full delivery.                          *)
ScheduleIndependent(e) == \A i \in 1..Len(e.outs) : e.outs[i][2] = e.outs[1][2]
Culprits(e) == { i \in 1..Len(e.outs) : e.outs[i][2] # e.outs[1][2] }

(* C18.  Needed is deliberately generous: with a profile, the end of the    *)
(* later of {header structure, last ICC-carrying structure}; without, the   *)
(* end of the structure that announces pixel data.                          *)
Needed(l) == Min(IF l.has_icc THEN Max(l.header_end, l.icc_end) ELSE l.pix_start, l.total)
NoOverRead(e) ==
    /\ e.ok
    /\ e.pulled <= Needed(e.layout) + ReadAheadAllowance
    /\ e.outcome = e.trunc_outcome          \* the file cut just after Needed loads alike

(* C19.  Outcomes are "error" or a rendering of (format, w, h, bpc, icc).    *)
FirstSuccess(e) == IF e.png # "error" THEN e.png
                   ELSE IF e.jpeg # "error" THEN e.jpeg
                   ELSE IF e.webp # "error" THEN e.webp ELSE "error"
AutoEquivalent(e) ==
    /\ e.auto = FirstSuccess(e)
    /\ (e.auto = "error") = ~e.auto_has_md      \* no metadata exactly when it fails
    /\ e.auto_replay_len = e.cut /\ e.auto_prefix = e.cut /\ e.auto_final = "eof"
=============================================================================
