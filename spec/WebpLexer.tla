------------------------------ MODULE WebpLexer ------------------------------
(***************************************************************************)
(* webpmeta.extractMetadata at BYTE granularity (Containers.tla has it at  *)
(* chunk granularity): the straight-line sequence verifySignature,         *)
(* readWebPFormat, parseWebpSimple / parseWebpLossless / parseWebpExtended *)
(* and readICCP, with every place at which the input may end, which of     *)
(* those ends cost the whole result and which only the profile (a VP8X     *)
(* file whose ICCP chunk is cut short, missing or replaced by another      *)
(* chunk still reports its dimensions, with a profile error), what is      *)
(* never looked at (the RIFF length, the lengths of VP8 / VP8L chunks, the *)
(* pad byte after an odd-length ICCP, anything after it), and how many     *)
(* bytes the parser has taken from its source when it returns.             *)
(*                                                                         *)
(* Input = 12-byte RIFF header (tag and form type each right or wrong), a  *)
(* first chunk out of eight kinds, a second chunk out of four, cut after   *)
(* `cut` bytes.  One action per function of the code.                      *)
(*                                                                         *)
(* Binding: generate-and-replay (harness/cmd/drive/webplexer.go), as for   *)
(* PngLexer: one-byte-per-Read source, webpmeta.Load and autometa.Load.    *)
(***************************************************************************)
EXTENDS Integers, Sequences, TLC, Json

Tags == {"RIFF", "RIFX"}
Forms == {"WEBP", "WAVE"}
Firsts == {"VP8ok", "VP8bad", "VP8Lok", "VP8Lbad", "VP8Xicc", "VP8Xnoicc", "VP8X12", "JUNK"}
Seconds == {"none", "ICCP3", "ICCP4", "EXIF2"}

P1(f) == CASE f \in {"VP8ok", "VP8bad"} -> 12 [] f \in {"VP8Lok", "VP8Lbad"} -> 6
           [] f \in {"VP8Xicc", "VP8Xnoicc"} -> 10 [] f = "VP8X12" -> 12 [] OTHER -> 4
S2(s) == CASE s = "none" -> 0 [] s = "ICCP3" -> 12 [] s = "ICCP4" -> 12 [] OTHER -> 10    \* ICCP3: 8 + 3 + pad byte
IccLen(s) == IF s = "ICCP3" THEN 3 ELSE 4
Dims(f) == CASE f = "VP8ok" -> <<4660, 801>> [] f = "VP8Lok" -> <<342, 683>> [] OTHER -> <<66052, 263431>>

VARIABLES tag, form, first, second, cut, phase, res, md, icc, taken
vars == <<tag, form, first, second, cut, phase, res, md, icc, taken>>
input == <<tag, form, first, second, cut>>

Init == /\ tag \in Tags /\ form \in Forms /\ first \in Firsts /\ second \in Seconds
        /\ cut \in 0..(20 + P1(first) + S2(second))
        /\ phase = "sig" /\ res = "run" /\ md = <<0, 0>> /\ icc = "none" /\ taken = 0

Fail(n) == res' = "fail" /\ taken' = n /\ UNCHANGED <<input, phase, md, icc>>
Ok(n, d, i) == res' = "ok" /\ taken' = n /\ md' = d /\ icc' = i /\ UNCHANGED <<input, phase>>
Go(p) == phase' = p /\ UNCHANGED <<input, res, md, icc, taken>>

VerifySignature ==
    /\ res = "run" /\ phase = "sig"
    /\ IF cut < 8 THEN Fail(cut)
       ELSE IF tag # "RIFF" THEN Fail(8)
       ELSE IF cut < 12 THEN Fail(cut)
       ELSE IF form # "WEBP" THEN Fail(12)
       ELSE Go("fmt")

ReadFormat ==
    /\ res = "run" /\ phase = "fmt"
    /\ IF cut < 20 THEN Fail(cut)
       ELSE IF first = "JUNK" THEN Fail(20)
       ELSE Go("body")

ParseSimple ==
    /\ res = "run" /\ phase = "body" /\ first \in {"VP8ok", "VP8bad"}
    /\ IF cut < 30 THEN Fail(cut)                    \* three bytes of frame tag, start code, two 16-bit fields
       ELSE IF first = "VP8bad" THEN Fail(30)
       ELSE Ok(30, Dims(first), "none")

ParseLossless ==
    /\ res = "run" /\ phase = "body" /\ first \in {"VP8Lok", "VP8Lbad"}
    /\ IF cut < 21 THEN Fail(cut)
       ELSE IF first = "VP8Lbad" THEN Fail(21)       \* the signature byte is judged before anything else is read
       ELSE IF cut < 25 THEN Fail(cut)
       ELSE Ok(25, Dims(first), "none")

ParseExtended ==
    /\ res = "run" /\ phase = "body" /\ first \in {"VP8Xicc", "VP8Xnoicc", "VP8X12"}
    /\ IF first = "VP8X12" THEN Fail(20)             \* declared length other than 10
       ELSE IF cut < 30 THEN Fail(cut)
       ELSE IF first = "VP8Xnoicc" THEN Ok(30, Dims(first), "none")
       ELSE /\ md' = Dims(first) /\ phase' = "iccp" /\ UNCHANGED <<input, res, icc, taken>>

\* from here on the dimensions are safe: whatever goes wrong costs only the profile
ReadICCP ==
    /\ res = "run" /\ phase = "iccp"
    /\ LET a == cut - 30 IN
       IF a < 8 THEN Ok(cut, md, "err")
       ELSE IF second = "EXIF2" THEN Ok(38, md, "err")          \* "no expected ICCP chunk"
       ELSE IF a < 8 + IccLen(second) THEN Ok(cut, md, "err")
       ELSE Ok(38 + IccLen(second), md, IF second = "ICCP3" THEN "q3" ELSE "q4")

Next == VerifySignature \/ ReadFormat \/ ParseSimple \/ ParseLossless \/ ParseExtended \/ ReadICCP
Spec == Init /\ [][Next]_vars

-----------------------------------------------------------------------------
TypeOK == taken \in 0..cut /\ phase \in {"sig", "fmt", "body", "iccp"} /\ res \in {"run", "ok", "fail"}
\* success needs a right header and a recognised, intact first chunk
OkJustified == res = "ok" => /\ tag = "RIFF" /\ form = "WEBP" /\ first \in {"VP8ok", "VP8Lok", "VP8Xicc", "VP8Xnoicc"}
                             /\ md = Dims(first) /\ cut >= 25
\* a profile is reported only for an extended file with the flag set, and then it is the ICCP chunk's data, whole
ProfileJustified == (res = "ok" /\ icc \in {"q3", "q4"}) =>
                        /\ first = "VP8Xicc" /\ second = (IF icc = "q3" THEN "ICCP3" ELSE "ICCP4")
                        /\ taken = 38 + IccLen(second)
ProfileErrorOnlyWhenAsked == (res = "ok" /\ icc = "err") => first = "VP8Xicc"
\* nothing beyond the profile's last byte is taken - not even the pad byte; without a profile nothing beyond the dimensions
NoBody == res # "run" => taken <= (IF first = "VP8Xicc" /\ second \in {"ICCP3", "ICCP4"} THEN 38 + IccLen(second) ELSE 38)
\* once the dimensions of an extended file are known, no end of input can take them away again
DimsSurvive == (first = "VP8Xicc" /\ tag = "RIFF" /\ form = "WEBP" /\ cut >= 30 /\ res # "run") => res = "ok"
Terminates == <>(res # "run")

PrintCase == (res # "run") =>
    PrintT(ToJson([tag |-> tag, form |-> form, first |-> first, second |-> second, cut |-> cut, res |-> res,
                   w |-> IF res = "ok" THEN md[1] ELSE 0, h |-> IF res = "ok" THEN md[2] ELSE 0,
                   icc |-> IF res = "ok" THEN icc ELSE "none", taken |-> taken]))
=============================================================================
