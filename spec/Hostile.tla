------------------------------- MODULE Hostile -------------------------------
(***************************************************************************)
(* C09: hostile input.  This module defines                                 *)
(*  - the CASE MATRIX: every length / count / offset field of every         *)
(*    structure the parsers read, crossed with a boundary value domain      *)
(*    given symbolically (the harness resolves a class against the field's  *)
(*    original value v and width: "wrap_v" is 2^w - v, and so on), plus     *)
(*    pairs for fields that the code adds together;                         *)
(*  - the BUDGET CONTRACT an observation must satisfy: the call returned,   *)
(*    no panic escaped, allocation is bounded by a fixed linear function of *)
(*    the input length, and so is time.                                     *)
(* The constants are chosen so that no implementation respecting the        *)
(* property is rejected: deflate expands at most ~1032:1 and a growing      *)
(* buffer copies about 3x its final size (c = 4096 bytes per input byte);   *)
(* bufio windows, tee copies, the zlib window and maps are covered by       *)
(* d = 4 MiB.  The defects this is aimed at ask for 2^31..2^32 bytes for a   *)
(* 100-byte input.                                                          *)
(***************************************************************************)
EXTENDS Integers, Sequences, FiniteSets, TLC, Json

AllocPerByte == 4096
AllocFixed == 4 * 1024 * 1024
TimeFixedMs == 1000          \* generous: the excluded failure mode is 2^32 iterations
TimePerKiBMs == 2

\* field name -> width in bytes, per structure
Fields ==
  [ png  |-> [ len_IHDR |-> 4, len_anc |-> 4, len_iCCP |-> 4, len_IDAT |-> 4, len_IEND |-> 4 ],
    jpeg |-> [ len_APP0 |-> 2, len_APP1 |-> 2, len_DQT |-> 2, len_SOF |-> 2, len_ICC |-> 2,
               len_DHT |-> 2, len_SOS |-> 2, icc_seq |-> 1, icc_total |-> 1, sof_ncomp |-> 1 ],
    webp |-> [ riff_size |-> 4, len_VP8X |-> 4, len_ICCP |-> 4, len_VP8 |-> 4, len_VP8L |-> 4 ],
    icc  |-> [ profile_size |-> 4, tag_count |-> 4, tag_off_desc |-> 4, tag_size_desc |-> 4,
               tag_off_other |-> 4, tag_size_other |-> 4, desc_count |-> 4, desc_ucount |-> 4,
               mluc_count |-> 4, mluc_recsize |-> 4, mluc_len |-> 4, mluc_off |-> 4 ] ]

\* symbolic boundary values; v = the field's value in the seed, W = 2^(8*width)
SmallConsts == {0, 1, 2, 3, 4, 7, 8, 9, 11, 12, 13, 14, 15, 16, 17, 127, 128, 131, 132, 133, 143, 144, 255, 256}
Classes(width) ==
    { <<"const", c>> : c \in { c \in SmallConsts : width > 1 \/ c < 256 } } \cup
    { <<"v", d>> : d \in {-1, 1, 12} } \cup                        \* v-1, v+1, v+12
    { <<"max", d>> : d \in {0, -1, -7, -8, -11, -15, -131} } \cup  \* W-1+d
    { <<"half", d>> : d \in {-1, 0, 1} } \cup                      \* W/2 + d  (signed boundary)
    { <<"wrap_v", d>> : d \in {0, -1, 1} } \cup                    \* W - v + d (sums that wrap)
    (IF width = 4 THEN { <<"const", 65535>>, <<"const", 65536>>, <<"const", 16777216>> } ELSE {})

\* fields the code adds together: the second is driven to make the sum wrap
SumPairs == { <<"icc", "tag_off_desc", "tag_size_desc">>, <<"icc", "tag_off_other", "tag_size_other">>,
              <<"icc", "mluc_off", "mluc_len">>, <<"icc", "tag_count", "tag_off_desc">>,
              \* an outer declared size paired with an inner one (validating one untrusted number against
              \* another proves nothing about the input's real length)
              <<"webp", "riff_size", "len_ICCP">>, <<"icc", "profile_size", "tag_size_desc">>,
              <<"icc", "profile_size", "tag_off_desc">>, <<"webp", "riff_size", "len_VP8X">> }
PairClasses == { <<a, b>> : a \in { <<"max", 0>>, <<"max", -15>>, <<"half", 0>>, <<"v", 0>> },
                            b \in { <<"wrap_a", 0>>, <<"wrap_a", 1>>, <<"wrap_a", 16>>, <<"max", 0>>,
                                    <<"half", 0>>, <<"const", 268435456>> } }      \* large, but smaller than the outer number

\* a count that drives a loop, paired with the size that drives its step: the work
\* done must follow the input length, not the product of the two declared numbers
LoopPairs == { <<"icc", "mluc_count", "mluc_recsize">>, <<"icc", "tag_count", "tag_size_desc">>,
               <<"icc", "mluc_count", "mluc_len">>, <<"jpeg", "icc_total", "icc_seq">> }
LoopClasses == { <<a, b>> : a \in { <<"max", 0>>, <<"half", -1>>, <<"const", 65535>>, <<"const", 255>> },
                            b \in { <<"const", 0>>, <<"const", 1>>, <<"const", 11>>, <<"const", 13>>, <<"v", 0>> } }

Structs == DOMAIN Fields
Cases ==
    UNION { UNION { { [kind |-> "field", struct |-> s, field |-> f, class |-> c, class2 |-> <<"none", 0>>, field2 |-> "none"] :
                      c \in Classes(Fields[s][f]) } : f \in DOMAIN Fields[s] } : s \in Structs } \cup
    { [kind |-> "pair", struct |-> p[1], field |-> p[2], class |-> pc[1], field2 |-> p[3], class2 |-> pc[2]] :
        p \in SumPairs, pc \in PairClasses } \cup
    { [kind |-> "pair", struct |-> p[1], field |-> p[2], class |-> pc[1], field2 |-> p[3], class2 |-> pc[2]] :
        p \in LoopPairs, pc \in LoopClasses }

(* Budget contract on an observation e = [n, alloc, wall_ms, panic, died].   *)
Budget(n) == AllocPerByte * n + AllocFixed
\* the same bound in KiB (exact: both constants are multiples of 1024); TLC's integers are 32-bit
BudgetKiB(n) == (AllocPerByte \div 1024) * n + AllocFixed \div 1024
WithinBudget(e) ==
    /\ ~e.died                      \* the process survived (no fatal out-of-memory)
    /\ ~e.panic                     \* no panic escaped to the caller
    /\ e.alloc_kib <= BudgetKiB(e.n) + 1
    /\ e.wall_ms <= TimeFixedMs + TimePerKiBMs * (e.n \div 1024)

=============================================================================
