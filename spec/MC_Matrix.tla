------------------------------ MODULE MC_Matrix ------------------------------
(* Self-test of Matrix.tla: Adj(A) A = det(A) I, inverse identities, the RGB->XYZ *)
(* construction maps (1,1,1) to the white point exactly, Bradford A->A = I and     *)
(* (B->A)(A->B) = I exactly in rationals.  A failure is an error of the oracle.    *)
EXTENDS Matrix
VARIABLE x
Init == x = 1
Next == x < 40 /\ x' = x + 1
Spec == Init /\ [][Next]_x
E(n) == IFromInt(((x * 7919 + n * 104729) % 2001) - 1000)
A == << <<E(1), E(2), E(3)>>, <<E(4), E(5), E(6)>>, <<E(7), E(8), E(9)>> >>
ScaledI(d) == Mat(LAMBDA r, c : IF r = c THEN d ELSE IZero)
AdjIdentity == MatMul(Adj(A), A) = ScaledI(Det(A)) /\ MatMul(A, Adj(A)) = ScaledI(Det(A))
TransposeTwice == Transpose(Transpose(A)) = A
\* chromaticities over D = 1000: a proper triangle with the white inside
D == IFromInt(1000)
pr == [x |-> IFromInt(640), y |-> IFromInt(330)]
pg == [x |-> IFromInt(300 - (x % 9) * 10), y |-> IFromInt(600)]
pb == [x |-> IFromInt(150), y |-> IFromInt(60 + (x % 7))]
pw == [x |-> IFromInt(313), y |-> IFromInt(329)]
WhiteMaps ==
    LET M == RGB2XYZ(pr, pg, pb, pw, D)  W == WhiteXYZ(pw, D)
    IN \A r \in Idx : IMul(ISum3(M.num[r][1], M.num[r][2], M.num[r][3]), W.den) = IMul(W.num[r], M.den)
wa == << IFromInt(9642 + x), IFromInt(10000), IFromInt(8251) >>
wb == << IFromInt(9505), IFromInt(10000), IFromInt(10888 - x) >>
SameRat(U, V) == \A r \in Idx : \A c \in Idx : IMul(U.num[r][c], V.den) = IMul(V.num[r][c], U.den)
BradfordIdentities ==
    LET ab == Adaptation(wa, wb)  ba == Adaptation(wb, wa)  aa == Adaptation(wa, wa)
        prod == [num |-> MatMul(ba.num, ab.num), den |-> IMul(ba.den, ab.den)]
        ident == [num |-> IdentI, den |-> IFromInt(1)]
        mapped == MatVec(ab.num, wa)
    IN /\ SameRat(aa, ident) /\ SameRat(prod, ident)
       /\ \A r \in Idx : mapped[r] = IMul(wb[r], ab.den)         \* A -> B maps A's white onto B's
SelfTest == AdjIdentity /\ TransposeTwice /\ WhiteMaps /\ BradfordIdentities
=============================================================================
