SPECIFICATION Spec
INVARIANT PrintCase
CHECK_DEADLOCK FALSE
