SPECIFICATION Spec
INVARIANT EntryOK
