SPECIFICATION Spec
CONSTANTS NChunks = 4
  Design = "private"
INVARIANTS Isolation PrintSchedule
CHECK_DEADLOCK FALSE
