--------------------------- MODULE TraceImageConv ---------------------------
(* Trace validation for C15: pixel observations of the conversion helpers are *)
(* judged by PixelConv!PixelOK, structural observations by PixelConv!StructOK.*)
EXTENDS PixelConv, Json
Trace == ndJsonDeserialize("trace.ndjson")
BlockSize == 400
VARIABLES k
NBlocks == (Len(Trace) + BlockSize - 1) \div BlockSize
Accept(e) == IF e.kind = "pixel" THEN PixelOK(e) ELSE StructOK(e)
Judge(n) == IF Accept(Trace[n]) THEN TRUE ELSE PrintT(ToJson([reject |-> n]))
Init == k = 0
Next == \/ /\ k = 0
           /\ \E b \in 0..(NBlocks - 1) : k' = b * BlockSize + 1
           /\ Judge(k')
        \/ /\ k > 0 /\ k < Len(Trace) /\ k % BlockSize # 0
           /\ k' = k + 1
           /\ Judge(k')
Spec == Init /\ [][Next]_k
=============================================================================
