--------------------------------- MODULE Num ---------------------------------
(***************************************************************************)
(* Exact and outward-rounded arithmetic in TLA+, so that TLC can judge     *)
(* real-valued properties (C01-C04, C12-C14, C20) against the standards'   *)
(* formulas without sharing any floating-point code with the library.      *)
(*                                                                         *)
(*  Nat   little-endian sequence of limbs in 0..B-1, B = 10^3, no high     *)
(*        zero limbs; zero is <<>>.  Column sums of up to 2000 limb        *)
(*        products stay below 2^31.                                        *)
(*  Int   [s |-> 1 | -1, n |-> Nat]   (zero has s = 1)                     *)
(*  Flt   [m |-> Nat of at most P limbs, e |-> limb exponent]:             *)
(*        value m * B^e, m > 0.  Multiplication rounds the mantissa DOWN   *)
(*        or UP on request, so products and powers of positive numbers     *)
(*        are bracketed, never approximated.                               *)
(* No division anywhere: every judgement is  product <= product  or        *)
(* |a*q - p| <= t*q  in integers.                                          *)
(***************************************************************************)
EXTENDS Integers, Sequences, TLC

B == 1000
P == 8          \* mantissa limbs of a Flt (24 decimal digits)
S18 == <<0, 0, 0, 0, 0, 0, 1>>   \* 10^18: the usual fixed-point scale of recorded observations

---------------------------------------------------------------------------
(* naturals *)
RECURSIVE Strip(_)
Strip(a) == IF a = <<>> THEN <<>>
            ELSE IF a[Len(a)] = 0 THEN Strip(SubSeq(a, 1, Len(a) - 1)) ELSE a

RECURSIVE Carry(_, _, _)
\* cols: sequence of non-negative column sums; returns limbs (not yet stripped)
Carry(cols, i, c) ==
    IF i > Len(cols) THEN (IF c = 0 THEN <<>> ELSE <<c % B>> \o Carry(cols, i, c \div B))
    ELSE LET v == cols[i] + c IN <<v % B>> \o Carry(cols, i + 1, v \div B)
Norm(cols) == Strip(Carry(cols, 1, 0))

RECURSIVE FromInt(_)
FromInt(n) == IF n = 0 THEN <<>> ELSE <<n % B>> \o FromInt(n \div B)

Limb(a, i) == IF i >= 1 /\ i <= Len(a) THEN a[i] ELSE 0
MaxI(x, y) == IF x > y THEN x ELSE y
MinI(x, y) == IF x < y THEN x ELSE y

Add(a, b) == Norm([i \in 1..MaxI(Len(a), Len(b)) |-> Limb(a, i) + Limb(b, i)])

\* -1, 0, 1
RECURSIVE CmpFrom(_, _, _)
CmpFrom(a, b, i) == IF i = 0 THEN 0
                    ELSE IF a[i] < b[i] THEN -1 ELSE IF a[i] > b[i] THEN 1 ELSE CmpFrom(a, b, i - 1)
Cmp(a, b) == IF Len(a) < Len(b) THEN -1 ELSE IF Len(a) > Len(b) THEN 1 ELSE CmpFrom(a, b, Len(a))
LE(a, b) == Cmp(a, b) <= 0

\* a - b for a >= b
RECURSIVE SubFrom(_, _, _, _)
SubFrom(a, b, i, borrow) ==
    IF i > Len(a) THEN <<>>
    ELSE LET v == a[i] - Limb(b, i) - borrow
         IN IF v < 0 THEN <<v + B>> \o SubFrom(a, b, i + 1, 1) ELSE <<v>> \o SubFrom(a, b, i + 1, 0)
Sub(a, b) == Strip(SubFrom(a, b, 1, 0))
AbsDiff(a, b) == IF LE(b, a) THEN Sub(a, b) ELSE Sub(b, a)

ColSum(a, b, k) ==      \* sum of a[i]*b[j] with i + j = k + 1
    LET lo == MaxI(1, k + 1 - Len(b))  hi == MinI(Len(a), k)
        F[i \in (lo - 1)..hi] == IF i < lo THEN 0 ELSE F[i - 1] + a[i] * b[k + 1 - i]
    IN F[hi]
Mul(a, b) == IF a = <<>> \/ b = <<>> THEN <<>>
             ELSE Norm([k \in 1..(Len(a) + Len(b) - 1) |-> ColSum(a, b, k)])
MulSmall(a, n) == Mul(a, FromInt(n))

\* floor(a / 2)
RECURSIVE HalfFrom(_, _, _)
HalfFrom(a, i, rem) == IF i = 0 THEN <<>>
                       ELSE LET cur == rem * B + a[i] IN HalfFrom(a, i - 1, cur % 2) \o <<cur \div 2>>
Half(a) == Strip(HalfFrom(a, Len(a), 0))

RECURSIVE Pow(_, _)
Pow(a, n) == IF n = 0 THEN <<1>> ELSE IF n = 1 THEN a
             ELSE IF n % 2 = 0 THEN LET h == Pow(a, n \div 2) IN Mul(h, h)
             ELSE Mul(a, Pow(a, n - 1))

\* B^k as a Nat; shifting by whole limbs
RECURSIVE Zeros(_)
Zeros(k) == IF k = 0 THEN <<>> ELSE <<0>> \o Zeros(k - 1)
ShiftL(a, k) == IF a = <<>> THEN <<>> ELSE Zeros(k) \o a

\* floor(n / d) for d > 0, by bisection (used for one-off constant tables only)
RECURSIVE DivBisect(_, _, _, _)
DivBisect(lo, hi, n, d) ==        \* invariant: lo d <= n < hi d
    IF LE(hi, Add(lo, <<1>>)) THEN lo
    ELSE LET mid == Half(Add(lo, hi)) IN
         IF LE(Mul(mid, d), n) THEN DivBisect(mid, hi, n, d) ELSE DivBisect(lo, mid, n, d)
DivFloor(n, d) == IF Cmp(n, d) < 0 THEN <<>>
                  ELSE DivBisect(<<>>, Zeros(Len(n) - Len(d) + 1) \o <<1>>, n, d)


---------------------------------------------------------------------------
(* signed integers *)
I(s, n) == [s |-> IF n = <<>> THEN 1 ELSE s, n |-> n]
IFromInt(v) == IF v < 0 THEN I(-1, FromInt(-v)) ELSE I(1, FromInt(v))
INeg(a) == I(-a.s, a.n)
IAdd(a, b) == IF a.s = b.s THEN I(a.s, Add(a.n, b.n))
              ELSE IF LE(b.n, a.n) THEN I(a.s, Sub(a.n, b.n)) ELSE I(b.s, Sub(b.n, a.n))
ISub(a, b) == IAdd(a, INeg(b))
IMul(a, b) == I(a.s * b.s, Mul(a.n, b.n))
ICmp(a, b) == IF a.s # b.s THEN (IF a.s < b.s THEN -1 ELSE 1)
              ELSE IF a.s = 1 THEN Cmp(a.n, b.n) ELSE Cmp(b.n, a.n)
ILE(a, b) == ICmp(a, b) <= 0
IAbs(a) == I(1, a.n)
IZero == I(1, <<>>)

---------------------------------------------------------------------------
(* outward-rounded floats for products and powers of positive numbers *)
F(m, e) == [m |-> m, e |-> e]
FFromNat(a) == F(a, 0)
AnyNonZero(a, k) == \E i \in 1..k : a[i] # 0
Round(m, e, up) ==
    IF Len(m) <= P THEN F(m, e)
    ELSE LET k == Len(m) - P
             top == SubSeq(m, k + 1, Len(m))
         IN IF up /\ AnyNonZero(m, k) THEN F(Add(top, <<1>>), e + k) ELSE F(top, e + k)
FRound(a, up) == Round(a.m, a.e, up)
FMul(a, b, up) == Round(Mul(a.m, b.m), a.e + b.e, up)
RECURSIVE FPow(_, _, _)
FPow(a, n, up) == IF n = 1 THEN FRound(a, up)
                  ELSE IF n % 2 = 0 THEN LET h == FPow(a, n \div 2, up) IN FMul(h, h, up)
                  ELSE FMul(FRound(a, up), FPow(a, n - 1, up), up)
\* compare positive floats: -1, 0, 1
FCmp(a, b) ==
    LET ha == Len(a.m) + a.e  hb == Len(b.m) + b.e
    IN IF ha < hb THEN -1 ELSE IF ha > hb THEN 1
       ELSE LET lo == MinI(a.e, b.e)
            IN Cmp(ShiftL(a.m, a.e - lo), ShiftL(b.m, b.e - lo))

(* Is  prod(L)  <=  prod(R)  possibly true?  L, R: sequences of <<Nat, power>>  *)
(* with positive bases.  The left product is rounded down and the right one up, *)
(* so FALSE means the inequality is certainly false; TRUE means it holds up to  *)
(* the rounding of a 24-digit mantissa (relative 10^-21), far inside every      *)
(* tolerance used.                                                              *)
RECURSIVE FProd(_, _, _)
FProd(L, i, up) == IF i = Len(L) THEN FPow(FFromNat(L[i][1]), L[i][2], up)
                   ELSE FMul(FPow(FFromNat(L[i][1]), L[i][2], up), FProd(L, i + 1, up), up)
HasZero(L) == \E i \in 1..Len(L) : L[i][1] = <<>>
ProdLE(L, R) == IF HasZero(L) THEN TRUE ELSE IF HasZero(R) THEN FALSE
                ELSE FCmp(FProd(L, 1, FALSE), FProd(R, 1, TRUE)) <= 0
=============================================================================
