SPECIFICATION Spec
CONSTANTS
  Procs = {"g1","g2","g3"}
  Design = "once_only"
INVARIANTS NoRace RetOK BuiltOnce NoReturnBeforePublish PrintSchedules
