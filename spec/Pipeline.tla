------------------------------- MODULE Pipeline -------------------------------
(***************************************************************************)
(* C04: the documented cross-space pixel pipeline                          *)
(*   encoded --Decode--> linear --ToXYZ--> xyz --Adapt?--> xyz' --FromXYZ--> linear' --Encode--> encoded' *)
(* against an independent colorimetric reference assembled from the pieces *)
(* the other modules define exactly: decode tables verified against the    *)
(* published curves (DecodeTables / Colour), the exact composite matrix    *)
(*   C = XYZ2RGB(dst) * Bradford(white src -> white dst, if they differ) * RGB2XYZ(src) *)
(* from the declared chromaticities (Matrix / Spaces), and the encoder's   *)
(* stated tolerance through the decode relation at half-codes (Colour).    *)
(***************************************************************************)
EXTENDS Spaces, Colour, DecodeTables

S12 == <<0, 0, 0, 0, 1>>
\* the real pipeline works in float32 between the stages; its linear value may differ from
\* the exact reference by the decode tolerance (3e-7 per channel, C01) through the matrix plus
\* float32 evaluation of three 3x3 products: allowed widening of the reference, 5e-6
Widen == <<0, 0, 0, 0, 5>>                 \* 5 * 10^-6 at scale 10^18

WhiteOf(sp) == Chroma(DeclOf(sp).w)
SameWhite(a, b) == WhiteOf(a).x = WhiteOf(b).x /\ WhiteOf(a).y = WhiteOf(b).y
\* white XYZ direction (x, y, 1-x-y) over y; Adaptation needs both whites at a common scale:
\* a = (xa, ya, D-xa-ya) / ya, b likewise  =>  (a.den / b.den) scaling as in ExactAdapt
WhiteXYZVec(sp) == [vec |-> ChromaVec(WhiteOf(sp), D40), den |-> WhiteOf(sp).y]
RatMul(Aq, Bq) == RatMat(MatMul(Aq.num, Bq.num), IMul(Aq.den, Bq.den))
InvOf(M) == RatMat(Scale(Adj(M.num), M.den), Det(M.num))             \* (num/den)^-1 = den adj(num) / det(num)
AdaptOf(s, d) == LET a == WhiteXYZVec(s)  b == WhiteXYZVec(d)  R == Adaptation(a.vec, b.vec)
                 IN RatMat(Scale(R.num, a.den), IMul(R.den, b.den))
\* |coefficient| as a fixed-point bracket at scale 10^21: value in sg * [q, q+1] / 10^21
S21 == Pow(<<10>>, 21)
\* |num| / den with both truncated to the leading limbs of den (outward): the quotient lies in
\* [floor(nlo 10^21 / dhi), floor(nhi 10^21 / dlo) + 1] / 10^21 - a bracket a unit or two wide,
\* obtained by dividing 12-limb numbers instead of 90-limb ones
Keep == 12
DropLow(a, k) == IF k <= 0 THEN a ELSE IF k >= Len(a) THEN <<>> ELSE SubSeq(a, k + 1, Len(a))
Fix1(C, r, c) ==
    LET k == Len(C.den.n) - Keep
        nlo == DropLow(C.num[r][c].n, k)   nhi == Add(nlo, <<1>>)
        dlo == DropLow(C.den.n, k)         dhi == Add(dlo, <<1>>)
    IN [sg |-> C.num[r][c].s, q |-> DivFloor(Mul(nlo, S21), dhi), qh |-> Add(DivFloor(Mul(nhi, S21), dlo), <<1>>)]
FixOf(C) == << << Fix1(C, 1, 1), Fix1(C, 1, 2), Fix1(C, 1, 3) >>,
               << Fix1(C, 2, 1), Fix1(C, 2, 2), Fix1(C, 2, 3) >>,
               << Fix1(C, 3, 1), Fix1(C, 3, 2), Fix1(C, 3, 3) >> >>
\* The composite matrices, computed once in the initial state.  TLC passes operator
\* arguments and LET definitions unevaluated and re-evaluates them at every use, so every
\* intermediate table is bound as a VALUE by quantifying over a singleton set.
VARIABLE ptab
PInit ==
    \E M \in { tabs.m } :
    \E N \in { [srgb |-> InvOf(M.srgb), adobergb |-> InvOf(M.adobergb), prophotorgb |-> InvOf(M.prophotorgb), displayp3 |-> InvOf(M.displayp3)] } :
    \E toD50 \in { AdaptOf("srgb", "prophotorgb") } :           \* D65 -> D50 (sRGB, Adobe RGB, Display P3 share D65)
    \E toD65 \in { AdaptOf("prophotorgb", "srgb") } :
    \E fromPP \in { RatMul(toD65, M.prophotorgb) } :             \* ProPhoto linear -> XYZ(D65)
    \E C \in { [s \in SpaceNames |-> [d \in SpaceNames |->
                  IF s = "prophotorgb" THEN (IF d = "prophotorgb" THEN RatMul(N[d], M[s]) ELSE RatMul(N[d], fromPP))
                  ELSE IF d = "prophotorgb" THEN RatMul(N[d], RatMul(toD50, M[s])) ELSE RatMul(N[d], M[s])]] } :
       /\ SameWhite("srgb", "adobergb") /\ SameWhite("srgb", "displayp3") /\ ~SameWhite("srgb", "prophotorgb")
       /\ ptab = [s \in SpaceNames |-> [d \in SpaceNames |-> FixOf(C[s][d])]]
CFix == ptab

\* bounds of  coefficient * decoded value,  decoded in [dl, dl+1] / 10^12 (non-negative),
\* coefficient in sg * [q, qh] / 10^21: an Int at scale 10^33
TermLo(cf, dl) == IF cf.sg = 1 THEN I(1, Mul(cf.q, dl)) ELSE I(-1, Mul(cf.qh, Add(dl, <<1>>)))
TermHi(cf, dl) == IF cf.sg = 1 THEN I(1, Mul(cf.qh, Add(dl, <<1>>))) ELSE I(-1, Mul(cf.q, dl))
S33 == Pow(<<10>>, 33)
Widen33 == Mul(Pow(<<10>>, 27), <<5>>)        \* 5 * 10^-6 at scale 10^33

\* e = [src, dst, in = <<r, g, b, a>>, out = <<r, g, b, a>>]
PixelOK(e) ==
    LET cf == CFix[e.src][e.dst]
        d == [j \in Idx |-> DecodeLo[CurveOf(e.src)][e.in[j] + 1]]
        chan(r) ==
            LET lo == ISub(ISum3(TermLo(cf[r][1], d[1]), TermLo(cf[r][2], d[2]), TermLo(cf[r][3], d[3])), I(1, Widen33))
                hi == IAdd(ISum3(TermHi(cf[r][1], d[1]), TermHi(cf[r][2], d[2]), TermHi(cf[r][3], d[3])), I(1, Widen33))
                o == e.out[r]
            IN /\ o \in 0..255
               \* clip, not wrap: certainly <= 0 gives 0, certainly >= 1 gives 255
               /\ (hi.s = -1 \/ hi.n = <<>>) => o = 0
               /\ (lo.s = 1 /\ LE(S33, lo.n)) => o = 255
               \* the encoder's stated tolerance around some value of the reference interval
               /\ EncLowOKR(CurveOf(e.dst), 255, 511, o, IF hi.s = 1 THEN hi.n ELSE <<>>, S33)
               /\ EncHighOKR(CurveOf(e.dst), 255, 511, o, IF lo.s = 1 THEN lo.n ELSE <<>>, S33)
    IN /\ e.out[4] = e.in[4]                                            \* alpha unchanged
       /\ chan(1) /\ chan(2) /\ chan(3)
=============================================================================
