---- MODULE IccArith_TTrace_1790981413 ----
EXTENDS Sequences, TLCExt, IccArith, Toolbox, Naturals, TLC

_expression ==
    LET IccArith_TEExpression == INSTANCE IccArith_TEExpression
    IN IccArith_TEExpression!expression
----

_trace ==
    LET IccArith_TETrace == INSTANCE IccArith_TETrace
    IN IccArith_TETrace!trace
----

_inv ==
    ~(
        TLCGet("level") = Len(_TETrace)
        /\
        inp = ([count |-> 0, avail |-> 1])
        /\
        alloc = (65535)
        /\
        outcome = ("err")
    )
----

_init ==
    /\ alloc = _TETrace[1].alloc
    /\ outcome = _TETrace[1].outcome
    /\ inp = _TETrace[1].inp
----

_next ==
    /\ \E i,j \in DOMAIN _TETrace:
        /\ \/ /\ j = i + 1
              /\ i = TLCGet("level")
        /\ alloc  = _TETrace[i].alloc
        /\ alloc' = _TETrace[j].alloc
        /\ outcome  = _TETrace[i].outcome
        /\ outcome' = _TETrace[j].outcome
        /\ inp  = _TETrace[i].inp
        /\ inp' = _TETrace[j].inp

\* Uncomment the ASSUME below to write the states of the error trace
\* to the given file in Json format. Note that you can pass any tuple
\* to `JsonSerialize`. For example, a sub-sequence of _TETrace.
    \* ASSUME
    \*     LET J == INSTANCE Json
    \*         IN J!JsonSerialize("IccArith_TTrace_1790981413.json", _TETrace)

=============================================================================

 Note that you can extract this module `IccArith_TEExpression`
  to a dedicated file to reuse `expression` (the module in the 
  dedicated `IccArith_TEExpression.tla` file takes precedence 
  over the module `IccArith_TEExpression` below).

---- MODULE IccArith_TEExpression ----
EXTENDS Sequences, TLCExt, IccArith, Toolbox, Naturals, TLC

expression == 
    [
        \* To hide variables of the `IccArith` spec from the error trace,
        \* remove the variables below.  The trace will be written in the order
        \* of the fields of this record.
        alloc |-> alloc
        ,outcome |-> outcome
        ,inp |-> inp
        
        \* Put additional constant-, state-, and action-level expressions here:
        \* ,_stateNumber |-> _TEPosition
        \* ,_allocUnchanged |-> alloc = alloc'
        
        \* Format the `alloc` variable as Json value.
        \* ,_allocJson |->
        \*     LET J == INSTANCE Json
        \*     IN J!ToJson(alloc)
        
        \* Lastly, you may build expressions over arbitrary sets of states by
        \* leveraging the _TETrace operator.  For example, this is how to
        \* count the number of times a spec variable changed up to the current
        \* state in the trace.
        \* ,_allocModCount |->
        \*     LET F[s \in DOMAIN _TETrace] ==
        \*         IF s = 1 THEN 0
        \*         ELSE IF _TETrace[s].alloc # _TETrace[s-1].alloc
        \*             THEN 1 + F[s-1] ELSE F[s-1]
        \*     IN F[_TEPosition - 1]
    ]

=============================================================================



Parsing and semantic processing can take forever if the trace below is long.
 In this case, it is advised to uncomment the module below to deserialize the
 trace from a generated binary file.

\*
\*---- MODULE IccArith_TETrace ----
\*EXTENDS IOUtils, IccArith, TLC
\*
\*trace == IODeserialize("IccArith_TTrace_1790981413.bin", TRUE)
\*
\*=============================================================================
\*

---- MODULE IccArith_TETrace ----
EXTENDS IccArith, TLC

trace == 
    <<
    ([inp |-> [count |-> 0, avail |-> 1],alloc |-> 0,outcome |-> "run"]),
    ([inp |-> [count |-> 0, avail |-> 1],alloc |-> 65535,outcome |-> "err"])
    >>
----


=============================================================================

---- CONFIG IccArith_TTrace_1790981413 ----
CONSTANTS
    Design = "wrap32"
    Part = "textdesc"

INVARIANT
    _inv

CHECK_DEADLOCK
    \* CHECK_DEADLOCK off because of PROPERTY or INVARIANT above.
    FALSE

INIT
    _init

NEXT
    _next

CONSTANT
    _TETrace <- _trace

ALIAS
    _expression
=============================================================================
\* Generated on Fri Oct 02 22:50:14 UTC 2026