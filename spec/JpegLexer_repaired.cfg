SPECIFICATION Spec
CONSTANTS
  Design = "repaired"
  Alphabet = {255, 0, 3, 216, 218, 225, 193}
  MaxLen = 6
INVARIANTS TypeOK ErrorIsLast PrintCase
PROPERTIES Progress FillAccepted
CHECK_DEADLOCK FALSE
