----------------------------- MODULE Interleave -----------------------------
(***************************************************************************)
(* Independent readers stay independent (C16's "every header, whatever     *)
(* else the process is doing"; C11's "every call returns the value it      *)
(* returns when executed alone", for the parsers).                         *)
(*                                                                         *)
(* Two parser instances, each consuming its own input in NChunks pieces    *)
(* (one piece = one delivery of its source), run on two goroutines; every  *)
(* interleaving of their deliveries is a behaviour.  A parser stages what  *)
(* it consumes and decodes its result from the staging area when its last  *)
(* piece has arrived.                                                      *)
(*   Design = "private"  each instance stages in memory of its own         *)
(*          = "shared"   instances stage in one package-level buffer       *)
(* Isolation: a finished instance's result is made of its own input only.  *)
(* TLC shows Isolation for "private", refutes it for "shared" (the         *)
(* counterexample is the schedule A..., B whole, A...), and prints every   *)
(* complete schedule; the harness forces each one on the real readers with *)
(* gated sources (binding G) and the results are judged by IccHeader /     *)
(* the loaders' solo outcome.                                              *)
(***************************************************************************)
EXTENDS Integers, Sequences, TLC, Json

CONSTANTS NChunks, Design
Readers == {"A", "B"}

VARIABLES pos,      \* reader -> pieces consumed
          shared,   \* the package-level staging area: piece index -> whose piece lies there ("-" = nobody's)
          priv,     \* reader -> its own staging area
          result,   \* reader -> <<>> while running, else the owners of the pieces it decoded
          sched     \* the schedule so far (history, for generation)
vars == <<pos, shared, priv, result, sched>>

Empty == [i \in 1..NChunks |-> "-"]
Init == /\ pos = [r \in Readers |-> 0]
        /\ shared = Empty
        /\ priv = [r \in Readers |-> Empty]
        /\ result = [r \in Readers |-> <<>>]
        /\ sched = <<>>

Deliver(r) ==
    /\ pos[r] < NChunks
    /\ LET i == pos[r] + 1
           sh == IF Design = "shared" THEN [shared EXCEPT ![i] = r] ELSE shared
           pv == IF Design = "private" THEN [priv EXCEPT ![r][i] = r] ELSE priv
       IN /\ shared' = sh /\ priv' = pv
          /\ pos' = [pos EXCEPT ![r] = i]
          /\ result' = IF i = NChunks
                         THEN [result EXCEPT ![r] = IF Design = "shared" THEN sh ELSE pv[r]]
                         ELSE result
          /\ sched' = Append(sched, r)

Next == \E r \in Readers : Deliver(r)
Spec == Init /\ [][Next]_vars

Isolation == \A r \in Readers : result[r] # <<>> => result[r] = [i \in 1..NChunks |-> r]
Finished == \A r \in Readers : pos[r] = NChunks
PrintSchedule == Finished => PrintT(ToJson([sched |-> sched]))
=============================================================================
