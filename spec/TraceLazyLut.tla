---------------------------- MODULE TraceLazyLut ----------------------------
(***************************************************************************)
(* Trace validation with unlogged steps: each recorded trial is the         *)
(* sequence of hook events <<goroutine, hook>> (entry / build / publish /   *)
(* ret) observed on the real code; TLC must find a behaviour of LazyLut     *)
(* (Design as configured, normally "once_only") whose hook history is       *)
(* exactly that sequence, inferring the unlogged steps (atomic load, lock,  *)
(* store, unlock, reads).  Trials are chained with a reset action.          *)
(* Acceptance: the state t = Len(Trials) + 1 is reachable, signalled by     *)
(* violating NotAllAccepted (the counterexample is the witness behaviour).  *)
(***************************************************************************)
EXTENDS LazyLut, Json
Trials == ndJsonDeserialize("trace.ndjson")
VARIABLES t, l
tvars == <<vars, t, l>>

Ev == Trials[t].events
Active == { g \in Procs : \E i \in 1..Len(Ev) : Ev[i][1] = g }

TraceInit == Init /\ t = 1 /\ l = 1

Consume(g) ==   \* a step of goroutine g; if it passes a hook, that is the next logged event
    /\ t <= Len(Trials)
    /\ g \in Active
    /\ Step(g)
    /\ IF hist' # hist
         THEN /\ l <= Len(Ev)
              /\ Ev[l][1] = g /\ Ev[l][2] = hist'[Len(hist')][2]
              /\ l' = l + 1
         ELSE l' = l
    /\ t' = t

NextTrial ==    \* all events of this trial explained and every participant returned
    /\ t <= Len(Trials) /\ l = Len(Ev) + 1
    /\ \A g \in Active : pc[g] = "done"
    /\ PrintT(<<"accepted trial", t>>)
    /\ t' = t + 1 /\ l' = 1
    /\ pc' = [g \in Procs |-> "start"]
    /\ vc' = [g \in Procs |-> [p \in Procs |-> IF p = g THEN 1 ELSE 0]]
    /\ lut' = "nil" /\ table' = "unbuilt" /\ done' = 0 /\ mu' = "free"
    /\ relDone' = Zero /\ relMu' = Zero
    /\ wr' = [x \in Locs |-> <<"none", 0>>] /\ rd' = [x \in Locs |-> {}]
    /\ raced' = FALSE /\ saw' = [g \in Procs |-> "n/a"] /\ builds' = 0 /\ hist' = <<>>

TraceNext == (\E g \in Procs : Consume(g)) \/ NextTrial
TraceSpec == TraceInit /\ [][TraceNext]_tvars

NotAllAccepted == t <= Len(Trials)
\* the design-level properties hold in every state of every witness behaviour
TraceNoRace == ~raced
TraceRetOK == RetOK
=============================================================================
