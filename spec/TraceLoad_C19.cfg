SPECIFICATION Spec
CONSTANT Prop = "C19"
