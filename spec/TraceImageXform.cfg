SPECIFICATION Spec
