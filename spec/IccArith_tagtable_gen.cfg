SPECIFICATION Spec
CONSTANTS
  Design = "repaired"
  Part = "tagtable"
INVARIANTS AllocBounded NoEscapedPanic WellFormedAccepted EmptyTableAccepted PrintCase
