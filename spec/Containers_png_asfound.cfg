\* png: AS FOUND design (expected to violate Conforms); every file of the bounded grammar; outcomes printed for replay (binding G)
SPECIFICATION Spec
CONSTANTS
  Format = "png"
  ReadMode = "single"
  IccErrSticky = FALSE
  VP8Height = "dropped"
  MaxLetters = 2
INVARIANTS Conforms NeverOtherBytes
