SPECIFICATION Spec
CONSTANTS
  Design = "wrap32"
  Part = "tagtable"
INVARIANTS AllocBounded NoEscapedPanic WellFormedAccepted EmptyTableAccepted
