SPECIFICATION Spec
INVARIANT SelfTest
