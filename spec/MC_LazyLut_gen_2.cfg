SPECIFICATION Spec
CONSTANTS
  Procs = {"g1","g2"}
  Design = "once_only"
INVARIANTS NoRace RetOK BuiltOnce NoReturnBeforePublish PrintSchedules
