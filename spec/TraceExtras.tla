----------------------------- MODULE TraceExtras -----------------------------
EXTENDS Extras
Trace == ndJsonDeserialize("trace.ndjson")
BlockSize == 400
VARIABLES k
ASSUME TablesOK
NBlocks == (Len(Trace) + BlockSize - 1) \div BlockSize
Judge(n) == IF ExtraOK(Trace[n]) THEN TRUE ELSE PrintT(ToJson([reject |-> n]))
Init == k = 0
Next == \/ /\ k = 0
           /\ \E b \in 0..(NBlocks - 1) : k' = b * BlockSize + 1
           /\ Judge(k')
        \/ /\ k > 0 /\ k < Len(Trace) /\ k % BlockSize # 0
           /\ k' = k + 1
           /\ Judge(k')
Spec == Init /\ [][Next]_k
=============================================================================
