SPECIFICATION Spec
