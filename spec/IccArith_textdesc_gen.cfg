SPECIFICATION Spec
CONSTANTS
  Design = "repaired"
  Part = "textdesc"
INVARIANTS AllocBounded NoEscapedPanic WellFormedAccepted EmptyTableAccepted PrintCase
