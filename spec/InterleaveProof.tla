-------------------------- MODULE InterleaveProof --------------------------
(* TLAPS proof that private staging gives Isolation for ANY number of       *)
(* deliveries (the TLC runs fix NChunks = 4).  Self-contained restatement   *)
(* of the "private" design of Interleave.tla without the history variable.  *)
EXTENDS Naturals, TLAPS
CONSTANT NChunks
ASSUME NPos == NChunks \in Nat /\ NChunks >= 1
Readers == {"A", "B"}
VARIABLES pos, priv, done
vars == <<pos, priv, done>>

Init == /\ pos = [r \in Readers |-> 0]
        /\ priv = [r \in Readers |-> [i \in 1..NChunks |-> "-"]]
        /\ done = [r \in Readers |-> FALSE]

Deliver(r) ==
    /\ pos[r] < NChunks
    /\ priv' = [priv EXCEPT ![r][pos[r] + 1] = r]
    /\ pos' = [pos EXCEPT ![r] = pos[r] + 1]
    /\ done' = [done EXCEPT ![r] = (pos[r] + 1 = NChunks)]

Next == \E r \in Readers : Deliver(r)
Spec == Init /\ [][Next]_vars

TypeOK == /\ pos \in [Readers -> 0..NChunks]
          /\ priv \in [Readers -> [1..NChunks -> Readers \cup {"-"}]]
          /\ done \in [Readers -> BOOLEAN]

\* what a reader has staged so far is its own; a finished reader has staged everything
Inv == /\ TypeOK
       /\ \A r \in Readers : \A i \in 1..NChunks : i <= pos[r] => priv[r][i] = r
       /\ \A r \in Readers : done[r] => pos[r] = NChunks

Isolation == \A r \in Readers : done[r] => \A i \in 1..NChunks : priv[r][i] = r

THEOREM Safe == Spec => []Isolation
<1>1. Init => Inv
  BY NPos DEF Init, Inv, TypeOK, Readers
<1>2. Inv /\ [Next]_vars => Inv'
  <2> SUFFICES ASSUME Inv, [Next]_vars PROVE Inv'
    OBVIOUS
  <2>1. CASE UNCHANGED vars
    BY <2>1 DEF Inv, TypeOK, vars
  <2>2. ASSUME NEW r \in Readers, Deliver(r) PROVE Inv'
    <3>1. TypeOK'
      BY <2>2, NPos DEF Inv, TypeOK, Deliver, Readers
    <3>2. \A q \in Readers : \A i \in 1..NChunks : i <= pos'[q] => priv'[q][i] = q
      BY <2>2, NPos DEF Inv, TypeOK, Deliver, Readers
    <3>3. \A q \in Readers : done'[q] => pos'[q] = NChunks
      BY <2>2, NPos DEF Inv, TypeOK, Deliver, Readers
    <3> QED BY <3>1, <3>2, <3>3 DEF Inv
  <2> QED BY <2>1, <2>2 DEF Next
<1>3. Inv => Isolation
  BY NPos DEF Inv, Isolation, TypeOK
<1> QED BY <1>1, <1>2, <1>3, PTL DEF Spec
=============================================================================
