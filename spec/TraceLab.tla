------------------------------- MODULE TraceLab -------------------------------
(* Trace validation for C13. *)
EXTENDS Lab
Trace == ndJsonDeserialize("trace.ndjson")
BlockSize == 100
VARIABLES k
NBlocks == (Len(Trace) + BlockSize - 1) \div BlockSize
Judge(n) == IF LabEventOK(Trace[n]) THEN TRUE ELSE PrintT(ToJson([reject |-> n]))
Init == k = 0
Next == \/ /\ k = 0
           /\ \E b \in 0..(NBlocks - 1) : k' = b * BlockSize + 1
           /\ Judge(k')
        \/ /\ k > 0 /\ k < Len(Trace) /\ k % BlockSize # 0
           /\ k' = k + 1
           /\ Judge(k')
Spec == Init /\ [][Next]_k
=============================================================================
