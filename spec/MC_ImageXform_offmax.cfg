\* all interleavings of up to 3 workers on small images
SPECIFICATION Spec
CONSTANTS
  MaxW = 2
  MaxH = 3
  MaxP = 3
  Origins <- OriginsSmall
  OffsetRule = "max"
  Stripe = "P"
  Sequential = FALSE
INVARIANTS WriteOnce InSubImage Exact InPlaceSafe
PROPERTY Terminates
