--------------------------- MODULE TraceImageXform ---------------------------
(* Trace validation for C10: the harness records, with position-coded colours *)
(* and a marking transform, which source pixel the REAL TransformImageColor   *)
(* left in which cell of the destination's parent; TLC recomputes Expected    *)
(* from the configuration and accepts or rejects.                             *)
EXTENDS ImageXformContract, Json
Trace == ndJsonDeserialize("trace.ndjson")
BlockSize == 400
VARIABLES k
NBlocks == (Len(Trace) + BlockSize - 1) \div BlockSize
Judge(n) == IF XformOK(Trace[n]) THEN TRUE ELSE PrintT(ToJson([reject |-> n]))
Init == k = 0
Next == \/ /\ k = 0
           /\ \E b \in 0..(NBlocks - 1) : k' = b * BlockSize + 1
           /\ Judge(k')
        \/ /\ k > 0 /\ k < Len(Trace) /\ k % BlockSize # 0
           /\ k' = k + 1
           /\ Judge(k')
Spec == Init /\ [][Next]_k
=============================================================================
