SPECIFICATION Spec
CONSTANTS
  Procs = {"g1","g2"}
  Design = "plain_flag"
VIEW View
INVARIANTS NoRace RetOK BuiltOnce
PROPERTY AllReturn
