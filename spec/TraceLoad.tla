------------------------------ MODULE TraceLoad ------------------------------
(* Trace validation of loader observations against LoadContract (tree-shaped *)
(* exploration, rejects printed; see TraceContainers for the scheme).        *)
EXTENDS LoadContract, Json, TLC

CONSTANT Prop
Trace == ndJsonDeserialize("trace.ndjson")
BlockSize == 400
VARIABLES k
NBlocks == (Len(Trace) + BlockSize - 1) \div BlockSize

Accept(e) == CASE Prop = "C07" -> ReplayOK(e)
               [] Prop = "C08" -> ScheduleIndependent(e)
               [] Prop = "C18" -> NoOverRead(e)
               [] Prop = "C19" -> AutoEquivalent(e)

Detail(e) == IF Prop = "C08" THEN Culprits(e) ELSE {}
Judge(n) == IF Accept(Trace[n]) THEN TRUE
            ELSE PrintT(ToJson([reject |-> n, detail |-> Detail(Trace[n])]))

Init == k = 0
Next == \/ /\ k = 0
           /\ \E b \in 0..(NBlocks - 1) : k' = b * BlockSize + 1
           /\ Judge(k')
        \/ /\ k > 0 /\ k < Len(Trace) /\ k % BlockSize # 0
           /\ k' = k + 1
           /\ Judge(k')
Spec == Init /\ [][Next]_k
==============================================================================
