SPECIFICATION Spec
CONSTANTS
  MaxN = 7
  BUF = 3
  ReadMode = "full"
  HandOver = "replay"
  Progs <- MCProgs
INVARIANTS SeesFromFirstByte RewindIsPrefix ReplayWhole ChainReadAhead AutoJustified AutoExact
PROPERTY Terminates
