-------------------------- MODULE MC_ImageXformWide --------------------------
(* Wide and tall configurations (rows longer than any staging buffer a worker   *)
(* might use: 513, 1025, 4097 pixels; 300 rows) are beyond stepping pixel by     *)
(* pixel; the contract itself - Expected(cfg), the map the stepped model is      *)
(* checked against in the small configurations - is printed for them directly   *)
(* and the real transforms are compared with it byte for byte (binding G).       *)
EXTENDS ImageXformContract, Json, TLC
VARIABLE cfg
\* Expected(c) as a sequence in row-major order (a recursive set-to-sequence conversion overflows
\* the stack at this size); PrintWide checks that it is Expected(c), element for element
WritesSeq(c) == [i \in 1..(c.sw * c.sh) |->
                   LET x == c.sx + ((i - 1) % c.sw)  y == c.sy + ((i - 1) \div c.sw)
                   IN <<Cell(c, c.dx + (x - c.sx), c.dy + (y - c.sy)), x, y>>]
WideConfigs ==
    { [sw |-> d[1], sh |-> d[2], sx |-> so[1], sy |-> so[2], dx |-> dor[1], dy |-> dor[2],
       ew |-> e, eh |-> 0, ml |-> m[1], mr |-> m[2], mt |-> m[3], mb |-> m[4], p |-> p, inplace |-> ip] :
        d \in {<<513, 2>>, <<1025, 1>>, <<4097, 1>>, <<2, 300>>, <<512, 3>>},
        so \in {<<0, 0>>, <<-3, 2>>}, dor \in {<<0, 0>>, <<5, -1>>}, e \in {0, 1},
        m \in {<<0, 0, 0, 0>>, <<1, 2, 0, 1>>}, p \in {1, 3}, ip \in BOOLEAN }
\* a destination strictly larger than the source whose rectangle contains the source's, the two
\* origins differing (the source may be a sub-image of the destination's parent): the result still
\* lands at the destination's origin, not at the source's coordinates
ContainedConfigs ==
    { [sw |-> 5, sh |-> 4, sx |-> so[1], sy |-> so[2], dx |-> dor[1], dy |-> dor[2],
       ew |-> e[1], eh |-> e[2], ml |-> m[1], mr |-> m[2], mt |-> m[3], mb |-> m[4], p |-> p, inplace |-> FALSE] :
        so \in {<<2, 3>>, <<1, 1>>, <<-1, 0>>}, dor \in {<<0, 0>>, <<-2, -1>>},
        e \in {<<4, 4>>, <<2, 5>>, <<6, 1>>}, m \in {<<0, 0, 0, 0>>, <<1, 2, 0, 1>>}, p \in {1, 3} }
WideInit == cfg \in { c \in WideConfigs : c.inplace => (c.dx = c.sx /\ c.dy = c.sy /\ c.ew = 0) } \cup ContainedConfigs
WideSpec == WideInit /\ [][FALSE]_cfg
PrintWide ==
    LET ws == WritesSeq(cfg)
    IN /\ { <<ws[i][1], <<ws[i][2], ws[i][3]>>>> : i \in DOMAIN ws } = Expected(cfg)
       /\ PrintT(ToJson([cfg |-> cfg, stride |-> StrideOf(cfg), base |-> Base(cfg), ncells |-> NCells(cfg), writes |-> ws]))
=============================================================================
