---------------------------- MODULE TraceHostile ----------------------------
(* Trace validation for C09: every observation (one public call on one       *)
(* hostile input: allocation, wall time, escaped panic, process death) must   *)
(* satisfy Hostile!WithinBudget.                                              *)
EXTENDS Hostile
Trace == ndJsonDeserialize("trace.ndjson")
BlockSize == 400
VARIABLES k
NBlocks == (Len(Trace) + BlockSize - 1) \div BlockSize
Judge(n) == IF WithinBudget(Trace[n]) THEN TRUE ELSE PrintT(ToJson([reject |-> n]))
Init == k = 0
Next == \/ /\ k = 0
            /\ \E b \in 0..(NBlocks - 1) : k' = b * BlockSize + 1
            /\ Judge(k')
         \/ /\ k > 0 /\ k < Len(Trace) /\ k % BlockSize # 0
            /\ k' = k + 1
            /\ Judge(k')
Spec == Init /\ [][Next]_k
=============================================================================
