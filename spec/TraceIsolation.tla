--------------------------- MODULE TraceIsolation ---------------------------
(* Trace validation of the forced interleavings of spec/Interleave.tla on the  *)
(* metadata loaders (C11): each event is one loader's outcome under a schedule *)
(* together with the outcome of the same call executed alone.                  *)
EXTENDS Integers, Sequences, TLC, Json
Trace == ndJsonDeserialize("trace.ndjson")
BlockSize == 400
VARIABLES k
NBlocks == (Len(Trace) + BlockSize - 1) \div BlockSize
\* "every call returns the value it returns when executed alone" (and does not panic)
Accept(e) == e.got = e.solo /\ e.got # "panic"
Judge(n) == IF Accept(Trace[n]) THEN TRUE ELSE PrintT(ToJson([reject |-> n]))
Init == k = 0
Next == \/ /\ k = 0
           /\ \E b \in 0..(NBlocks - 1) : k' = b * BlockSize + 1
           /\ Judge(k')
        \/ /\ k > 0 /\ k < Len(Trace) /\ k % BlockSize # 0
           /\ k' = k + 1
           /\ Judge(k')
Spec == Init /\ [][Next]_k
=============================================================================
