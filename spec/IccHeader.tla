------------------------------ MODULE IccHeader ------------------------------
(***************************************************************************)
(* ICC.1:2010 section 7.2 profile header, as a table of (offset, length)   *)
(* and the contract of C16: every exposed field is the big-endian value at *)
(* the offset the specification assigns to it.  Headers are functions      *)
(* 0..127 -> 0..255 (JSON: sequences of 128 numbers, index+1); fields are  *)
(* byte tuples, never integers, so nothing overflows TLC's 32-bit ints.    *)
(***************************************************************************)
EXTENDS Integers, Sequences, FiniteSets, TLC

\* field name -> <<offset, length>>  (ICC.1:2010 Table 17)
Layout == [ size         |-> <<0, 4>>,   cmm          |-> <<4, 4>>,
            version      |-> <<8, 4>>,   class        |-> <<12, 4>>,
            space        |-> <<16, 4>>,  pcs          |-> <<20, 4>>,
            date         |-> <<24, 12>>, magic        |-> <<36, 4>>,
            platform     |-> <<40, 4>>,  flags        |-> <<44, 4>>,
            manufacturer |-> <<48, 4>>,  model        |-> <<52, 4>>,
            attributes   |-> <<56, 8>>,  intent       |-> <<64, 4>>,
            illuminant   |-> <<68, 12>>, creator      |-> <<80, 4>>,
            id           |-> <<84, 16>>, reserved     |-> <<100, 28>> ]
FieldNames == DOMAIN Layout

\* the table partitions the 128 bytes (checked by TLC as an ASSUME in MC_IccHeader)
Covers(f, b) == b >= Layout[f][1] /\ b < Layout[f][1] + Layout[f][2]
FieldOfByte(b) == CHOOSE f \in FieldNames : Covers(f, b)
IsPartition == \A b \in 0..127 : Cardinality({ f \in FieldNames : Covers(f, b) }) = 1

\* h is a sequence of 128 bytes; byte at offset o is h[o + 1]
Bytes(h, f) == SubSeq(h, Layout[f][1] + 1, Layout[f][1] + Layout[f][2])
U16(h, o) == h[o + 1] * 256 + h[o + 2]

Acsp == <<97, 99, 115, 112>>      \* 'acsp'
Accepted(h) == Bytes(h, "magic") = Acsp

\* dateTimeNumber: six uint16 (year, month, day, hours, minutes, seconds)
DateOf(h) == [j \in 1..6 |-> U16(h, 24 + 2 * (j - 1))]
DaysIn(y, m) == CASE m \in {1, 3, 5, 7, 8, 10, 12} -> 31
                  [] m \in {4, 6, 9, 11} -> 30
                  [] OTHER -> IF (y % 4 = 0 /\ y % 100 # 0) \/ y % 400 = 0 THEN 29 ELSE 28
DateValid(d) == /\ d[2] \in 1..12 /\ d[3] \in 1..DaysIn(d[1], d[2])
                /\ d[4] \in 0..23 /\ d[5] \in 0..59 /\ d[6] \in 0..59

\* Creation time as exposed (a time.Time in UTC): the civil date-time the six numbers
\* denote, with out-of-range components carried the way time.Date carries them (month
\* into year; day, hour, minute, second linearly).  Compared as days since 1970-01-01 and
\* second of the day, so that every bit of every component is accounted for - also the
\* patterns that are not valid calendar dates.
DaysFromCivil(y0, m) ==            \* days from 1970-01-01 to the first of month m (1..12) of year y0
    LET y == IF m <= 2 THEN y0 - 1 ELSE y0
        era == y \div 400
        yoe == y - era * 400
        mp == (m + 9) % 12
        doy == (153 * mp + 2) \div 5
        doe == yoe * 365 + yoe \div 4 - yoe \div 100 + doy
    IN era * 146097 + doe - 719468
UnixOf(d) ==
    LET m0 == d[2] - 1
        y == d[1] + m0 \div 12
        m == (m0 % 12) + 1
        S == 3600 * d[4] + 60 * d[5] + d[6]
    IN << DaysFromCivil(y, m) + (d[3] - 1) + S \div 86400, S % 86400 >>

\* profile flags: bit 0 (least significant bit of the last byte) = embedded,
\* bit 1 = cannot be used independently of the embedded colour data
Bit(byte, n) == (byte \div (2 ^ n)) % 2 = 1
Embedded(h) == Bit(h[47 + 1], 0)
Depends(h) == Bit(h[47 + 1], 1)

\* version: major = byte 8; minor and bug-fix are the two BCD nibbles of byte 9
VersionString(major, minorrev) ==
    ToString(major) \o "." \o ToString(minorrev \div 16) \o "." \o ToString(minorrev % 16)

(* The contract: what ReadProfile must expose for an accepted header.       *)
Expected(h) ==
    [ size |-> Bytes(h, "size"), cmm |-> Bytes(h, "cmm"),
      major |-> h[9], minor |-> h[10],
      class |-> Bytes(h, "class"), space |-> Bytes(h, "space"), pcs |-> Bytes(h, "pcs"),
      platform |-> Bytes(h, "platform"),
      embedded |-> Embedded(h), depends |-> Depends(h),
      manufacturer |-> Bytes(h, "manufacturer"), model |-> Bytes(h, "model"),
      attributes |-> Bytes(h, "attributes"), intent |-> Bytes(h, "intent"),
      illuminant |-> Bytes(h, "illuminant"), creator |-> Bytes(h, "creator"),
      id |-> Bytes(h, "id"),
      version |-> VersionString(h[9], h[10]) ]

\* an observation e = [hdr, ok, obs (without date), date] is accepted iff
HeaderOK(e) ==
    /\ e.ok = Accepted(e.hdr)
    /\ e.ok => /\ e.obs = Expected(e.hdr)
               /\ DateValid(DateOf(e.hdr)) => e.date = DateOf(e.hdr)
               /\ e.unix = UnixOf(DateOf(e.hdr))

VersionOK(e) == e.str = VersionString(e.major, e.minor)

(* Design lemma (role B), checked by TLC on the specification itself: each   *)
(* header bit feeds exactly the field the table assigns it to.  For the zero *)
(* header z (with the signature) and z with bit k of byte b set, Expected    *)
(* differs exactly in the exposed fields fed by byte b.                      *)
Influence(b, k) ==   \* the keys of Expected() that bit k of byte b feeds
    LET f == FieldOfByte(b) IN
    CASE f = "version" -> IF b = 8 THEN {"major", "version"} ELSE IF b = 9 THEN {"minor", "version"} ELSE {}
      [] f = "flags" -> IF b = 47 /\ k = 0 THEN {"embedded"} ELSE IF b = 47 /\ k = 1 THEN {"depends"} ELSE {}
      [] f \in {"date", "magic", "reserved"} -> {}
      [] OTHER -> {f}
=============================================================================
