SPECIFICATION Spec
CONSTANTS
  Procs = {"g1","g2"}
  Design = "once_only"
VIEW View
INVARIANTS NoRace RetOK BuiltOnce
PROPERTY AllReturn
