---------------------------- MODULE MC_AutoChain ----------------------------
EXTENDS AutoChain
\* parser shapes of the three loaders, scaled: a signature field, byte reads,
\* a field larger than the bufio window (iCCP / APP2 / ICCP payload)
MCProgs == { <<>>, <<<<"B">>>>, <<<<"R", 2>>, <<"B">>>>, <<<<"B">>, <<"B">>, <<"F", BUF + 1>>>>,
             <<<<"F", 3>>, <<"R", 2>>>>, <<<<"R", BUF>>>> }
=============================================================================
