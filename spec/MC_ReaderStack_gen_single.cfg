\* behaviours for replay on the real tee/bufio stack (model of the standard library vs the standard library)
SPECIFICATION Spec
CONSTANTS
  MaxN = 44
  BUF = 16
  MaxLen = 0
  ReadMode = "single"
  Wiring = "tee_below_bufio"
  Progs <- GenProgs
  Deliv <- GenDeliv
INVARIANTS TypeOK ReplayComplete ReadAheadBounded PrintBehaviour
