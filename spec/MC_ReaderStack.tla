--------------------------- MODULE MC_ReaderStack ---------------------------
(* Bounded instance of ReaderStack: all programs of up to MaxLen requests   *)
(* over an alphabet that hits every bufio path (byte, small field, field    *)
(* = buffer size and one larger: the direct-read path, ReadFull small and   *)
(* larger than the buffer).                                                 *)
EXTENDS ReaderStack, Json
CONSTANT MaxLen
Alphabet == { <<"B">>, <<"R", 2>>, <<"R", 3>>, <<"R", BUF>>, <<"R", BUF + 1>>,
              <<"F", 2>>, <<"F", BUF + 2>> }
MCProgs == UNION { [1..l -> Alphabet] : l \in 0..MaxLen }
AnyDeliv == 0..MaxN
\* generation for replay on the real bufio.Reader (whose smallest buffer is 16 bytes):
\* request programs shaped like the PNG / WebP / ICC parsers, scaled to BUF = 16
GenProgs == { << <<"R", 8>>, <<"B">>, <<"B">>, <<"B">>, <<"B">>, <<"R", 4>>, <<"B">>, <<"F", 20>> >>,
              << <<"R", 4>>, <<"B">>, <<"B">>, <<"F", 4>>, <<"R", 4>>, <<"R", BUF>>, <<"B">> >>,
              << <<"B">>, <<"B">>, <<"R", BUF + 1>>, <<"B">>, <<"F", 3>> >>,
              << <<"F", BUF + 5>>, <<"R", 2>>, <<"B">>, <<"B">>, <<"R", 3>> >>,
              << <<"B">>, <<"F", 2>>, <<"F", BUF>>, <<"B">>, <<"R", BUF + 3>>, <<"B">> >> }
GenDeliv == {1, 3, 5, BUF - 1, BUF, BUF + 1}
Finished == outcome # "run"
PrintBehaviour == Finished =>
    PrintT(ToJson([prog |-> prog, n |-> n, fail |-> failKind, sched |-> sched, outcome |-> outcome,
                   pulled |-> pulled, consumed |-> consumed, tee |-> tee, mode |-> ReadMode, buf |-> BUF]))
\* history variable sched is output only: hide it from the fingerprint
View == <<n, failKind, prog, pc, got, pulled, consumed, berr, tee, outcome>>
=============================================================================
