--------------------------- MODULE MC_ReaderStack ---------------------------
(* Bounded instance of ReaderStack: all programs of up to MaxLen requests   *)
(* over an alphabet that hits every bufio path (byte, small field, field    *)
(* = buffer size and one larger: the direct-read path, ReadFull small and   *)
(* larger than the buffer).                                                 *)
EXTENDS ReaderStack
CONSTANT MaxLen
Alphabet == { <<"B">>, <<"R", 2>>, <<"R", 3>>, <<"R", BUF>>, <<"R", BUF + 1>>,
              <<"F", 2>>, <<"F", BUF + 2>> }
MCProgs == UNION { [1..l -> Alphabet] : l \in 0..MaxLen }
\* history variable sched is output only: hide it from the fingerprint
View == <<n, failKind, prog, pc, got, pulled, consumed, berr, tee, outcome>>
=============================================================================
