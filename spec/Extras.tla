------------------------------- MODULE Extras -------------------------------
(***************************************************************************)
(* Behaviour of prism that none of the twenty listed properties speaks     *)
(* about, specified so that the specification covers the public surface:   *)
(*                                                                         *)
(*  1. meta.Data as a two-variable state machine (profile bytes / error)   *)
(*  2. the ICC enumerations: signatures of ICC.1:2010 tables 18-20, 23 and *)
(*     how each value renders                                              *)
(*  3. linear.RGB.Luminance, matrix.Dot / Vector3.MulS, ciexyz ToV /       *)
(*     ColorFromV, and the table builders of linear/lut for arbitrary      *)
(*     curves                                                              *)
(*                                                                         *)
(* Checked by bin/extras (not part of MANIFEST.json: no listed property    *)
(* depends on it, and a rejection here is reported as EXTRA-REJECT, never  *)
(* as a VIOLATION of a listed property).                                   *)
(***************************************************************************)
EXTENDS Matrix, Json

-----------------------------------------------------------------------------
(* 1. meta.Data.  Abstract state <<data, err>>; data and err are identities  *)
(* chosen by the harness ("nil" for none).  parse[d] is what the ICC reader  *)
(* makes of the bytes with identity d when given them directly.              *)
MDInit == << "nil", "nil" >>
MDStep(st, op) ==
    CASE op[1] = "setdata" -> << op[2], "nil" >>          \* also clears a recorded error
      [] op[1] = "seterr"  -> << "nil", op[2] >>          \* also drops recorded bytes
      [] OTHER -> st
MDExpect(st, op, parse) ==
    CASE op[1] = "getdata"    -> << st[1], st[2] >>
      [] op[1] = "getprofile" -> IF st[1] = "nil" THEN << "nil", st[2] >> ELSE parse[st[1]]
      [] OTHER -> << >>
RECURSIVE MDRun(_, _, _, _, _)
MDRun(st, ops, obs, parse, i) ==
    IF i > Len(ops) THEN TRUE
    ELSE /\ obs[i] = MDExpect(st, ops[i], parse)
         /\ MDRun(MDStep(st, ops[i]), ops, obs, parse, i + 1)
MetaDataOK(e) == Len(e.obs) = Len(e.ops) /\ MDRun(MDInit, e.ops, e.obs, e.parse, 1)

-----------------------------------------------------------------------------
(* 2. Enumerations.  A signature is four bytes; names as the library prints. *)
Ascii == " !\"#$%&'()*+,-./0123456789:;<=>?@ABCDEFGHIJKLMNOPQRSTUVWXYZ[\\]^_`abcdefghijklmnopqrstuvwxyz{|}~"
ASSUME Len(Ascii) = 95
ByteOf(ch) == 31 + CHOOSE i \in 1..95 : SubSeq(Ascii, i, i) = ch
Sig(s) == [k \in 1..4 |-> ByteOf(SubSeq(s, k, k))]
CharOf(b) == IF b = 0 THEN " " ELSE SubSeq(Ascii, b - 31, b - 31)      \* NUL prints as a space
SigString(bs) == "'" \o CharOf(bs[1]) \o CharOf(bs[2]) \o CharOf(bs[3]) \o CharOf(bs[4]) \o "'"
Printable(bs) == \A k \in 1..4 : bs[k] = 0 \/ bs[k] \in 32..126

ClassNames == << <<"scnr", "Input">>, <<"mntr", "Display">>, <<"prtr", "Output">>, <<"link", "Device link">>,
                 <<"spac", "Color space">>, <<"abst", "Abstract">>, <<"nmcl", "Named color">> >>
SpaceNames == << <<"XYZ ", "XYZ">>, <<"Lab ", "Lab">>, <<"Luv ", "Luv">>, <<"YCbr", "YCbCr">>, <<"Yxy ", "Yxy">>,
                 <<"RGB ", "RGB">>, <<"GRAY", "Gray">>, <<"HSV ", "HSV">>, <<"HLS ", "HLS">>, <<"CMYK", "CMYK">>,
                 <<"CMY ", "CMY">>, <<"2CLR", "2 color">>, <<"3CLR", "3 color">>, <<"4CLR", "4 color">>,
                 <<"5CLR", "5 color">>, <<"6CLR", "6 color">>, <<"7CLR", "7 color">>, <<"8CLR", "8 color">>,
                 <<"9CLR", "9 color">>, <<"ACLR", "10 color">>, <<"BCLR", "11 color">>, <<"CCLR", "12 color">>,
                 <<"DCLR", "13 color">>, <<"ECLR", "14 color">>, <<"FCLR", "15 color">> >>
PlatformNames == << <<"APPL", "Apple Computer, Inc.">>, <<"MSFT", "Microsoft Corporation">>,
                    <<"SGI ", "Silicon Graphics, Inc.">>, <<"SUNW", "Sun Microsystems, Inc.">> >>
IntentNames == << "Perceptual", "Relative colorimetric", "Saturation", "Absolute colorimetric" >>

Lookup(tab, bs) == { i \in 1..Len(tab) : Sig(tab[i][1]) = bs }
Num32(bs) == ((bs[1] * 256 + bs[2]) * 256 + bs[3]) * 256 + bs[4]      \* bs[1] < 128 in the harness (TLC integers)
NamedOK(tab, e) ==
    LET hit == Lookup(tab, e.bytes) IN
    IF hit # {} THEN e.str = tab[CHOOSE i \in hit : TRUE][2]
    ELSE e.str = "Unknown (" \o SigString(e.bytes) \o ")"
EnumOK(e) ==
    CASE e.type = "signature" -> e.str = SigString(e.bytes)
      [] e.type = "class" -> NamedOK(ClassNames, e)
      [] e.type = "space" -> NamedOK(SpaceNames, e)
      [] e.type = "platform" ->
           IF e.bytes = <<0, 0, 0, 0>> THEN e.str = "None"
           ELSE LET hit == Lookup(PlatformNames, e.bytes) IN
                IF hit # {} THEN e.str = PlatformNames[CHOOSE i \in hit : TRUE][2]
                ELSE e.str = "Unknown (" \o ToString(Num32(e.bytes)) \o ")"
      [] e.type = "intent" ->
           LET n == Num32(e.bytes) IN
           IF n < 4 THEN e.str = IntentNames[n + 1] ELSE e.str = "Unknown (" \o ToString(n) \o ")"
\* the tables themselves: distinct signatures, distinct names
TablesOK == \A tab \in {ClassNames, SpaceNames, PlatformNames} :
              \A i, j \in 1..Len(tab) : i # j => tab[i][1] # tab[j][1] /\ tab[i][2] # tab[j][2]

-----------------------------------------------------------------------------
(* 3. Small numeric functions, over exact dyadic inputs [s, m, k] = s m / 2^k *)
(* (m in limbs) and observations at scale 10^18.                              *)
Obs(o) == I(o.s, o.lo)
DyInt(d, K) == I(d.s, Mul(d.m, Pow2(K - d.k)))          \* d * 2^K as an integer (K >= d.k)
MaxK(ds) == LET ks == { ds[i].k : i \in 1..Len(ds) } IN CHOOSE k \in ks : \A j \in ks : j <= k
TolE(n) == Pow(<<10>>, 18 - n)                          \* 10^-n at scale 10^18
\* |obs - num/den| <= tol (absolute) + rel * |num/den|   with rel = 1/relDen
NearAR(o, num, den, tol, relDen) ==
    LE(Mul(IAbs(ISub(IMul(Obs(o), den), IMul(num, I(1, S18)))).n, relDen),
       Add(Mul(Mul(tol, den.n), relDen), Mul(IAbs(num).n, S18)))

\* Luminance = 0.2126 R + 0.7152 G + 0.0722 B (float32 arithmetic: 1e-6 of the magnitudes)
LuminanceOK(e) ==
    LET K == MaxK(e.v)
        r == DyInt(e.v[1], K)  g == DyInt(e.v[2], K)  b == DyInt(e.v[3], K)
        num == ISum3(IMul(IFromInt(2126), r), IMul(IFromInt(7152), g), IMul(IFromInt(722), b))
        mag == ISum3(IMul(IFromInt(2126), IAbs(r)), IMul(IFromInt(7152), IAbs(g)), IMul(IFromInt(722), IAbs(b)))
        den == I(1, Mul(FromInt(10000), Pow2(K)))
    IN LE(Mul(IAbs(ISub(IMul(Obs(e.o), den), IMul(num, I(1, S18)))).n, Pow(<<10>>, 6)),
          Add(Mul(mag.n, S18), Mul(den.n, <<1>>)))         \* |o - exact| <= 1e-6 * sum of magnitudes (+ 1e-18)

\* Dot(a, b) in float64: relative 1e-14 of the sum of magnitudes; MulS exact to 1e-15 relative
DotOK(e) ==
    LET Ka == MaxK(e.a)  Kb == MaxK(e.b)
        p(i) == IMul(DyInt(e.a[i], Ka), DyInt(e.b[i], Kb))
        num == ISum3(p(1), p(2), p(3))
        mag == ISum3(IAbs(p(1)), IAbs(p(2)), IAbs(p(3)))
        den == I(1, Pow2(Ka + Kb))
    IN LE(Mul(IAbs(ISub(IMul(Obs(e.o), den), IMul(num, I(1, S18)))).n, Pow(<<10>>, 14)),
          Add(Mul(mag.n, S18), Mul(den.n, Pow(<<10>>, 14))))   \* + one unit of the 10^-18 recording scale
MulSOK(e) ==
    LET K == MaxK(e.v)
        den == I(1, Pow2(K + e.s.k))
    IN \A i \in 1..3 :
         LET num == IMul(DyInt(e.v[i], K), I(e.s.s, e.s.m)) IN
         LE(Mul(IAbs(ISub(IMul(Obs(e.o[i]), den), IMul(num, I(1, S18)))).n, Pow(<<10>>, 15)),
            Add(Mul(IAbs(num).n, S18), Mul(den.n, Pow(<<10>>, 15))))

\* ColorFromV rounds each float64 to the nearest float32 (relative 2^-24 < 6e-8); ToV is exact
FromVOK(e) == \A i \in 1..3 :
    LET num == I(e.v[i].s, e.v[i].m)  den == I(1, Pow2(e.v[i].k)) IN
    LE(Mul(IAbs(ISub(IMul(Obs(e.o[i]), den), IMul(num, I(1, S18)))).n, FromInt(16000000)),
       Add(Mul(IAbs(num).n, S18), Mul(den.n, FromInt(16000000))))
ToVOK(e) == \A i \in 1..3 : e.o[i] = e.v[i]              \* the same dyadic number, exactly

\* linear/lut builders with an arbitrary curve: entry i is the quantiser applied to curve(i/steps).
\* The harness passes curves whose float32 values it records exactly (c = curve(float32(i)/steps)),
\* so the law is entry = clip(round-half-up(c * n)) up to the quantiser's float32 slack of C02.
RECURSIVE ToSmall(_)
ToSmall(a) == IF a = <<>> THEN 0 ELSE a[1] + B * ToSmall(Tail(a))      \* limbs -> TLC integer (small values only)
BuilderOK(e) ==
    LET c == I(e.c.s, e.c.m)  den == Pow2(e.c.k)          \* c = curve value, exact
        n == e.n                                           \* maximum code
        den2 == Mul(<<2>>, den)
        \* t / den2 = c n + 1/2 ; round-half-up is its floor
        t == IAdd(IMul(IMul(c, IFromInt(2)), IFromInt(n)), I(1, den))
        neg == t.s = -1 \/ t.n = <<>>
        qn == IF neg THEN <<>> ELSE DivFloor(t.n, den2)
        r == IF neg THEN <<>> ELSE Sub(t.n, Mul(qn, den2))             \* remainder in [0, den2)
        q == IF LE(FromInt(n), qn) THEN n ELSE ToSmall(qn)
        \* the float32 product c * n carries an error of up to n 2^-24: within n 2^-22 of a tie
        \* (the slack declared for C02's quantisers) either neighbour is accepted
        nearLow == ~neg /\ LE(Mul(r, Pow2(22)), Mul(FromInt(n), den2))             \* just above a tie
        nearHigh == ~neg /\ LE(Mul(Sub(den2, r), Pow2(22)), Mul(FromInt(n), den2)) \* just below a tie
    IN /\ e.out >= 0 /\ e.out <= n
       /\ \/ e.out = q
          \/ nearLow /\ e.out = q - 1
          \/ nearHigh /\ e.out = q + 1 /\ q < n
FromBuilderOK(e) == e.o = e.c                              \* decode builders store the curve's value, exactly

\* icc.Version: major, then the two BCD nibbles of the minor / bug-fix byte (ICC.1:2010 7.2.4)
VersionOK(e) == e.str = ToString(e.major) \o "." \o ToString(e.minor \div 16) \o "." \o ToString(e.minor % 16)

ExtraOK(e) ==
    CASE e.kind = "mdops" -> MetaDataOK(e)
      [] e.kind = "version" -> VersionOK(e)
      [] e.kind = "enum" -> EnumOK(e)
      [] e.kind = "luminance" -> LuminanceOK(e)
      [] e.kind = "dot" -> DotOK(e)
      [] e.kind = "muls" -> MulSOK(e)
      [] e.kind = "fromv" -> FromVOK(e)
      [] e.kind = "tov" -> ToVOK(e)
      [] e.kind = "builder" -> BuilderOK(e)
      [] e.kind = "frombuilder" -> FromBuilderOK(e)
=============================================================================
