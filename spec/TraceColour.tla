----------------------------- MODULE TraceColour -----------------------------
(* Trace validation of the colour functions: every recorded call of the real  *)
(* code is judged by the relation Colour.tla gives for its kind.              *)
EXTENDS Colour, Json
Trace == ndJsonDeserialize("trace.ndjson")
BlockSize == 200
VARIABLES k
NBlocks == (Len(Trace) + BlockSize - 1) \div BlockSize
Accept(e) == CASE e.kind = "decode" -> DecodeOK(e)
               [] e.kind = "linearise" -> LineariseOK(e) /\ e.alpha = 65535
               [] e.kind = "encode" -> EncodeOK(e)
               [] e.kind = "run" -> RunOK(e)
               [] e.kind = "sweep" -> SweepOK(e)
               [] e.kind = "agree" -> AgreeOK(e)
               [] e.kind = "alpha" -> AlphaOK(e)
               [] e.kind = "alphanorm" -> AlphaNormOK(e)
               [] e.kind = "firstuse" -> FirstUseOK(e)
               [] e.kind = "tablehash" -> TableHashOK(e)
Judge(n) == IF Accept(Trace[n]) THEN TRUE ELSE PrintT(ToJson([reject |-> n]))
Init == k = 0
Next == \/ /\ k = 0
           /\ \E b \in 0..(NBlocks - 1) : k' = b * BlockSize + 1
           /\ Judge(k')
        \/ /\ k > 0 /\ k < Len(Trace) /\ k % BlockSize # 0
           /\ k' = k + 1
           /\ Judge(k')
Spec == Init /\ [][Next]_k
=============================================================================
