SPECIFICATION Spec
