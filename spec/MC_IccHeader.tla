---------------------------- MODULE MC_IccHeader ----------------------------
(* TLC checks the specification's own field table: it partitions the header, *)
(* and every one of the 1024 header bits, flipped in an all-zeros and in an  *)
(* all-ones header, changes exactly the exposed fields Influence() names.    *)
EXTENDS IccHeader
VARIABLE pos
ASSUME IsPartition

Base(fill) == [j \in 1..128 |-> IF j \in 37..40 THEN Acsp[j - 36] ELSE fill]
Pow2(k) == 2 ^ k
Flip(h, b, k) == [h EXCEPT ![b + 1] = IF Bit(h[b + 1], k) THEN h[b + 1] - Pow2(k) ELSE h[b + 1] + Pow2(k)]
Changed(h1, h2) == { key \in DOMAIN Expected(h1) : Expected(h1)[key] # Expected(h2)[key] }

Lemma(b, k) ==
    \A fill \in {0, 255} :
       LET h == Base(fill) IN
       IF b \in 36..39 THEN ~Accepted(Flip(h, b, k))     \* any signature bit: rejected
       ELSE /\ Accepted(Flip(h, b, k))
            /\ Changed(h, Flip(h, b, k)) = Influence(b, k)
            /\ (FieldOfByte(b) = "date") =>
                 /\ DateOf(Flip(h, b, k)) # DateOf(h)
                 /\ UnixOf(DateOf(Flip(h, b, k))) # UnixOf(DateOf(h))     \* ... and moves the exposed instant
            /\ (FieldOfByte(b) # "date") => UnixOf(DateOf(Flip(h, b, k))) = UnixOf(DateOf(h))

\* the calendar arithmetic itself, on dates whose day number is public knowledge
ASSUME UnixOf(<<1970, 1, 1, 0, 0, 0>>) = <<0, 0>>
ASSUME UnixOf(<<2000, 3, 1, 0, 0, 0>>) = <<11017, 0>>
ASSUME UnixOf(<<2001, 9, 9, 1, 46, 40>>) = <<11574, 6400>>          \* 10^9 seconds
ASSUME UnixOf(<<1969, 12, 31, 23, 59, 59>>) = <<-1, 86399>>
ASSUME UnixOf(<<1900, 3, 1, 0, 0, 0>>)[1] - UnixOf(<<1900, 2, 28, 0, 0, 0>>)[1] = 1   \* 1900 is not a leap year
ASSUME UnixOf(<<2000, 3, 1, 0, 0, 0>>)[1] - UnixOf(<<2000, 2, 28, 0, 0, 0>>)[1] = 2   \* 2000 is
ASSUME \A y \in {0, 1, 1999, 2024, 65535} :
          /\ UnixOf(<<y, 13, 1, 0, 0, 0>>) = UnixOf(<<y + 1, 1, 1, 0, 0, 0>>)          \* month carries into year
          /\ UnixOf(<<y, 0, 1, 0, 0, 0>>) = UnixOf(<<y - 1, 12, 1, 0, 0, 0>>)
          /\ UnixOf(<<y, 1, 32, 0, 0, 0>>) = UnixOf(<<y, 2, 1, 0, 0, 0>>)              \* day, hour, minute, second carry
          /\ UnixOf(<<y, 1, 0, 0, 0, 0>>) = UnixOf(<<y - 1, 12, 31, 0, 0, 0>>)
          /\ UnixOf(<<y, 5, 5, 24, 60, 60>>) = UnixOf(<<y, 5, 6, 1, 1, 0>>)

Init == pos = 0
Next == pos < 1023 /\ pos' = pos + 1
Spec == Init /\ [][Next]_pos
EachBitFeedsItsField == Lemma(pos \div 8, pos % 8)
=============================================================================
