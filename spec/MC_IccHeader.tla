---------------------------- MODULE MC_IccHeader ----------------------------
(* TLC checks the specification's own field table: it partitions the header, *)
(* and every one of the 1024 header bits, flipped in an all-zeros and in an  *)
(* all-ones header, changes exactly the exposed fields Influence() names.    *)
EXTENDS IccHeader
VARIABLE pos
ASSUME IsPartition

Base(fill) == [j \in 1..128 |-> IF j \in 37..40 THEN Acsp[j - 36] ELSE fill]
Pow2(k) == 2 ^ k
Flip(h, b, k) == [h EXCEPT ![b + 1] = IF Bit(h[b + 1], k) THEN h[b + 1] - Pow2(k) ELSE h[b + 1] + Pow2(k)]
Changed(h1, h2) == { key \in DOMAIN Expected(h1) : Expected(h1)[key] # Expected(h2)[key] }

Lemma(b, k) ==
    \A fill \in {0, 255} :
       LET h == Base(fill) IN
       IF b \in 36..39 THEN ~Accepted(Flip(h, b, k))     \* any signature bit: rejected
       ELSE /\ Accepted(Flip(h, b, k))
            /\ Changed(h, Flip(h, b, k)) = Influence(b, k)
            /\ (FieldOfByte(b) = "date") =>
                 DateOf(Flip(h, b, k)) # DateOf(h)

Init == pos = 0
Next == pos < 1023 /\ pos' = pos + 1
Spec == Init /\ [][Next]_pos
EachBitFeedsItsField == Lemma(pos \div 8, pos % 8)
=============================================================================
