SPECIFICATION Spec
CONSTANTS NChunks = 4
  Design = "shared"
INVARIANT Isolation
CHECK_DEADLOCK FALSE
