---------------------------- MODULE MC_PixelConv ----------------------------
(* TLC checks the transcription itself before it judges the code: the split   *)
(* multiply/divide helpers against the direct formula wherever that fits in   *)
(* 31 bits, consistency of the 8- and 16-bit YCbCr forms, premultiplication   *)
(* bounded by alpha for all 2^16 (channel, alpha) pairs, 8-bit round trip.    *)
EXTENDS PixelConv
VARIABLE x
Lattice == { 0, 1, 2, 15, 16, 17, 63, 64, 100, 127, 128, 129, 200, 254, 255 } \cup { 8 * j : j \in 0..31 }
Init == x = 0
Next == x < 255 /\ x' = x + 1
Spec == Init /\ [][Next]_x
Lemmas ==
    /\ \A a \in 0..255 : PremulBounded(x, a)
    /\ RoundTrip8(x)
    /\ \A cb \in Lattice, cr \in Lattice : YCbCrConsistent(x, cb, cr)
    \* helpers vs direct formulas on operands small enough not to overflow
    /\ \A b \in { 0, 1, 255, 256, 257, 1000, 30000, 32767 } :
          MulDiv16(x * 128, b) = ((x * 128) * b) \div M16
    /\ \A a \in { x * 128 + 1, x * 257, 65535 } :
          (a > 0 /\ x * 100 <= a) => UnPremul(x * 100, a) = ((x * 100) * 65535) \div a
    \* opaque and transparent ends of un-premultiplication
    /\ Conv("NRGBA", "NRGBA", <<x, 255 - x, 7, 255>>) = <<x, 255 - x, 7, 255>>
    /\ Conv("RGBA64", "NRGBA", <<0, 0, 0, 0>>) = <<0, 0, 0, 0>>
    /\ Conv("Gray", "RGBA64", <<x>>) = <<x * 257, x * 257, x * 257, 65535>>
=============================================================================
