\* all interleavings of up to 3 workers on small images
SPECIFICATION Spec
CONSTANTS
  MaxW = 2
  MaxH = 3
  MaxP = 3
  Origins <- OriginsSmall
  OffsetRule = "min"
  Stripe = "P+1"
  Sequential = FALSE
INVARIANTS WriteOnce InSubImage Exact InPlaceSafe
PROPERTY Terminates
