-------------------------------- MODULE MC_Num --------------------------------
(* Self-test of Num.tla: identities checked by TLC before Num judges anything. *)
(* A failure here is an error of the oracle (exit 2), never a verdict.         *)
EXTENDS Num
VARIABLE x
Small == { 0, 1, 2, 9, 10, 9999, 10000, 10001, 12345, 46340, 99999999 \div 3, 2147483 }
Big == { FromInt(7), FromInt(9999), <<999, 999, 999>>, <<1, 0, 0, 0, 1>>, <<234, 678, 12, 456, 890, 12>>,
         <<0, 0, 0, 0, 0, 0, 0, 1>>, <<321, 0, 999, 1, 999, 999, 999, 999, 999, 77>> }
Init == x = 0
Next == x < 30 /\ x' = x + 1
Spec == Init /\ [][Next]_x
A == (x * 7919 + 13) % 46000
Bb == (x * 104729 + 7) % 46000
Direct ==
    /\ Add(FromInt(A), FromInt(Bb)) = FromInt(A + Bb)
    /\ Mul(FromInt(A), FromInt(Bb)) = FromInt(A * Bb)
    /\ (A >= Bb => Sub(FromInt(A), FromInt(Bb)) = FromInt(A - Bb))
    /\ Half(FromInt(A)) = FromInt(A \div 2) /\ Half(Mul(FromInt(A), FromInt(46000))) = Mul(FromInt(A), FromInt(23000))
    /\ DivFloor(FromInt(A * 45000 + Bb), FromInt(Bb + 1)) = FromInt((A * 45000 + Bb) \div (Bb + 1))
    /\ Cmp(FromInt(A), FromInt(Bb)) = (IF A < Bb THEN -1 ELSE IF A > Bb THEN 1 ELSE 0)
    /\ Pow(FromInt(A % 200), 4) = FromInt((A % 200) * (A % 200) * (A % 200) * (A % 200))
    /\ IAdd(IFromInt(A - 23000), IFromInt(Bb - 23000)) = IFromInt(A + Bb - 46000)
    /\ IMul(IFromInt(A - 23000), IFromInt(Bb - 23000)) = IFromInt((A - 23000) * (Bb - 23000))
    /\ ICmp(IFromInt(A - 23000), IFromInt(Bb - 23000)) = (IF A < Bb THEN -1 ELSE IF A > Bb THEN 1 ELSE 0)
Algebra ==
    \A a \in Big, b \in Big :
       LET c == FromInt(A + 1) IN
       /\ Sub(Add(a, b), b) = a
       /\ Mul(a, b) = Mul(b, a)
       /\ Mul(Mul(a, b), c) = Mul(a, Mul(b, c))
       /\ Mul(a, Add(b, c)) = Add(Mul(a, b), Mul(a, c))
       /\ Cmp(Add(a, c), a) = 1
Powers ==
    \A a \in Big :
       /\ Mul(Pow(a, 5), Pow(a, 7)) = Pow(a, 12)
       /\ LET n == 2 + (x % 19)
              ex == Pow(a, n)
          IN /\ FCmp(FPow(FFromNat(a), n, FALSE), FFromNat(ex)) <= 0
             /\ FCmp(FPow(FFromNat(a), n, TRUE), FFromNat(ex)) >= 0
             \* the bracket is tight: up <= down * (1 + 10^-15)
             /\ LET d == FPow(FFromNat(a), n, FALSE)  u == FPow(FFromNat(a), n, TRUE)
                IN FCmp(F(Mul(u.m, <<0, 0, 0, 0, 0, 1>>), u.e), F(Mul(d.m, <<1, 0, 0, 0, 0, 1>>), d.e)) <= 0
       /\ ProdLE(<< <<a, 3>>, <<FromInt(A + 2), 2>> >>, << <<Mul(a, FromInt(A + 2)), 2>>, <<a, 1>> >>)
       /\ (Len(a) <= 3 => ~ProdLE(<< <<Add(a, <<1>>), 7>> >>, << <<a, 7>> >>))
SelfTest == Direct /\ Algebra /\ Powers
=============================================================================
