\* generation: every configuration, workers run one after another, cases printed
SPECIFICATION Spec
CONSTANTS
  MaxW = 3
  MaxH = 3
  MaxP = 5
  Origins <- OriginsGen
  OffsetRule = "min"
  Stripe = "P"
  Sequential = TRUE
INVARIANTS WriteOnce InSubImage Exact InPlaceSafe PrintCase
