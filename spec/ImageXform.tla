------------------------------ MODULE ImageXform ------------------------------
(***************************************************************************)
(* linear.TransformImageColor (and the image conversion helpers of         *)
(* prism.go, which share its skeleton): P workers stripe the rows of the   *)
(* source; worker w handles rows srcMin.Y + w, + P, ...; every pixel p of  *)
(* the source is read and the result written to the destination at         *)
(* dstMin + (p - srcMin).  The destination may be a sub-image of a larger  *)
(* parent (stride > width), and may be the source itself (in place).       *)
(*                                                                         *)
(* The backing array of the destination's PARENT is modelled as a linear   *)
(* array of pixel cells, exactly as image.PixOffset computes it:           *)
(*   cell(x, y) = base + (y - dMinY) * stride + (x - dMinX)                *)
(* so that an origin or stride slip lands in a wrong cell (possibly a      *)
(* parent pixel outside the sub-image) instead of being masked.            *)
(*                                                                         *)
(* OffsetRule selects the design: "min" (the code: dst.Min - src.Min),     *)
(* "max" and "none" are mutant designs; Stripe = "P" (the code) or "P+1".  *)
(***************************************************************************)
EXTENDS ImageXformContract

CONSTANTS MaxW, MaxH, Origins, MaxP, OffsetRule, Stripe, Sequential

VARIABLES
    cfg,      \* the configuration, fixed in Init (record, see Configs)
    pos,      \* per worker: <<row, col>> of the next source pixel, or <<"done">>
    writes,   \* cell index -> source pixel <<x, y>> last written there
    wcount,   \* cell index -> number of writes
    reads,    \* source pixels read so far (in-place: with the write count of their cell at that time)
    bad       \* a read saw a cell that had already been overwritten (in place)

vars == <<cfg, pos, writes, wcount, reads, bad>>

\* cfg: sw, sh (source size), sx, sy (source origin), dx, dy (destination origin),
\* ew, eh (destination is larger by), ml, mr, mt, mb (parent margins), p (workers), inplace
Configs ==
    { [sw |-> w, sh |-> h, sx |-> so[1], sy |-> so[2], dx |-> dor[1], dy |-> dor[2],
       ew |-> e[1], eh |-> e[2], ml |-> m[1], mr |-> m[2], mt |-> m[3], mb |-> m[4], p |-> p, inplace |-> FALSE] :
        w \in 0..MaxW, h \in 0..MaxH, so \in Origins, dor \in Origins,
        e \in {<<0, 0>>, <<1, 0>>, <<0, 1>>, <<1, 1>>},
        \* (ml, mr, mt, mb); <<0,0,0,1>> / <<0,0,1,0>>: full-width bands (stride = width, parent rows below / above)
        m \in {<<0, 0, 0, 0>>, <<1, 0, 1, 0>>, <<0, 1, 0, 1>>, <<1, 1, 1, 1>>, <<0, 0, 0, 1>>, <<0, 0, 1, 0>>}, p \in 1..MaxP } \cup
    { [sw |-> w, sh |-> h, sx |-> so[1], sy |-> so[2], dx |-> so[1], dy |-> so[2],
       ew |-> 0, eh |-> 0, ml |-> m[1], mr |-> m[2], mt |-> m[3], mb |-> m[4], p |-> p, inplace |-> TRUE] :
        w \in 0..MaxW, h \in 0..MaxH, so \in Origins,
        m \in {<<0, 0, 0, 0>>, <<1, 1, 1, 1>>, <<0, 0, 0, 1>>, <<0, 0, 1, 0>>}, p \in 1..MaxP }

\* destination coordinates written for source pixel (j, i)
OffX(c) == CASE OffsetRule = "min" -> c.dx - c.sx
             [] OffsetRule = "max" -> (c.dx + DW(c)) - (c.sx + c.sw)
             [] OffsetRule = "none" -> 0
OffY(c) == CASE OffsetRule = "min" -> c.dy - c.sy
             [] OffsetRule = "max" -> (c.dy + DH(c)) - (c.sy + c.sh)
             [] OffsetRule = "none" -> 0
Step == IF Stripe = "P" THEN cfg.p ELSE cfg.p + 1

Workers == 0..(MaxP - 1)
Active == 0..(cfg.p - 1)

FirstPos(c, w) == IF c.sw = 0 \/ c.sy + w >= c.sy + c.sh THEN <<"done">> ELSE <<c.sy + w, c.sx>>

Init ==
    /\ cfg \in Configs
    /\ pos = [w \in Workers |-> IF w < cfg.p THEN FirstPos(cfg, w) ELSE <<"done">>]
    /\ writes = [k \in {} |-> <<0, 0>>] /\ wcount = [k \in {} |-> 0]
    /\ reads = {} /\ bad = FALSE

Get(f, k) == IF k \in DOMAIN f THEN f[k] ELSE 0
Put(f, k, v) == [j \in DOMAIN f \cup {k} |-> IF j = k THEN v ELSE f[j]]

WorkerPixel(w) ==
    /\ w \in Active /\ pos[w] # <<"done">>
    /\ Sequential => \A v \in Active : v < w => pos[v] = <<"done">>
    /\ LET i == pos[w][1]  j == pos[w][2]
           k == Cell(cfg, j + OffX(cfg), i + OffY(cfg))
           next == IF j + 1 < cfg.sx + cfg.sw THEN <<i, j + 1>>
                   ELSE IF i + Step < cfg.sy + cfg.sh THEN <<i + Step, cfg.sx>>
                   ELSE <<"done">>
       IN /\ reads' = reads \cup {<<j, i>>}
          \* in place the source pixel lives in cell Cell(j, i) of the same array:
          \* it must not have been overwritten before it is read
          /\ bad' = (bad \/ (cfg.inplace /\ Get(wcount, Cell(cfg, j, i)) > 0))
          /\ writes' = Put(writes, k, <<j, i>>)
          /\ wcount' = Put(wcount, k, Get(wcount, k) + 1)
          /\ pos' = [pos EXCEPT ![w] = next]
    /\ UNCHANGED cfg

Next == \E w \in Workers : WorkerPixel(w)
Spec == Init /\ [][Next]_vars /\ \A w \in Workers : WF_vars(WorkerPixel(w))

AllDone == \A w \in Workers : pos[w] = <<"done">>

-------------------------------------------------------------------------------
(* C11 (workers own disjoint rows): no cell is ever written twice.           *)
WriteOnce == \A k \in DOMAIN wcount : wcount[k] <= 1

(* C10 "only there": every write lands on a pixel of the destination itself, *)
(* never on a parent pixel outside the sub-image, never outside the array.   *)
InDst(c, k) == \E x \in c.dx..(c.dx + DW(c) - 1), y \in c.dy..(c.dy + DH(c) - 1) : Cell(c, x, y) = k
InSubImage == \A k \in DOMAIN writes : k \in 0..(NCells(cfg) - 1) /\ InDst(cfg, k)

(* C10 "everywhere": at the end the written cells are exactly the images of   *)
(* the source pixels under p |-> dstMin + (p - srcMin), each holding its own  *)
(* source pixel.                                                              *)
Exact == AllDone => { <<k, writes[k]>> : k \in DOMAIN writes } = Expected(cfg)

(* in place: every pixel is read before it is overwritten *)
InPlaceSafe == ~bad

Terminates == <>AllDone
================================================================================
