------------------------------ MODULE Containers ------------------------------
(***************************************************************************)
(* PNG / JPEG / WebP metadata extraction at chunk (segment) granularity.   *)
(*                                                                         *)
(*  - the GRAMMAR: abstract files as sequences of abstract chunks;          *)
(*  - the CONTRACT (C05, C06): Allowed(f), the set of outcomes a loader     *)
(*    may report for file f, defined on the grammar alone;                  *)
(*  - the IMPL-SHAPED parsers: one action per chunk / segment consumed,     *)
(*    with the early-exit and stop-at-pixel-data transitions of the code,   *)
(*    and design switches for the defects found (as_found vs repaired).     *)
(*                                                                         *)
(* TLC checks  impl outcome \in Allowed(file)  for every file of a bounded  *)
(* grammar, and prints every (file, Allowed, impl outcome) once; the Go     *)
(* harness concretises each file into real bytes and runs the real loaders  *)
(* (binding G).  Payload contents are opaque identities (pid).              *)
(***************************************************************************)
EXTENDS ContainersContract, Json

CONSTANTS
    Format,        \* "png" | "jpeg" | "webp": which grammar this run explores
    ReadMode,      \* "single" (as found) | "full" (repaired): fixed-size field reads
    IccErrSticky,  \* FALSE (as found) | TRUE (repaired): JPEG ICC error survives early exit
    VP8Height,     \* "dropped" (as found) | "set" (repaired)
    MaxLetters     \* JPEG: number of free segments around the SOF

VARIABLES
    file,     \* the abstract file (sequence of chunk records), fixed in Init
    i,        \* index of the next chunk to parse
    mdx,      \* basic metadata extracted
    md,       \* <<w, h, bpc>>
    icc,      \* <<"none">> | <<"data", ids>> | <<"err">>
    st,       \* parser-private state (JPEG reassembly slots)
    res       \* "run" | "ok" | "fail" | "reported"

vars == <<file, i, mdx, md, icc, st, res>>

(* PNG parser, one action per chunk (pngmeta.extractMetadata). *)
AllPng == mdx /\ icc # None
PngStep ==
    /\ Format = "png" /\ res = "run"
    /\ IF i > Len(file) THEN      \* EOF at a chunk header: leave the loop
          /\ res' = IF mdx THEN "ok" ELSE "fail"
          /\ UNCHANGED <<file, i, mdx, md, icc, st>>
       ELSE LET c == file[i] IN
         CASE c.t = "IHDR" ->
                /\ md' = <<c.w, c.h, c.d>> /\ mdx' = TRUE
                /\ res' = IF icc # None THEN "ok" ELSE "run"     \* early exit
                /\ i' = i + 1 /\ UNCHANGED <<file, icc, st>>
           [] c.t = "iCCP" ->
                IF c.name = 80 \/ c.method # 0 \/ (c.cross /\ ReadMode = "single")
                THEN res' = "fail" /\ UNCHANGED <<file, i, mdx, md, icc, st>>
                ELSE /\ icc' = IF c.z \in OkZ THEN Data(<<c.pid>>) ELSE Err
                     /\ res' = IF mdx /\ c.z \in OkZ THEN "ok" ELSE "run"
                     /\ i' = i + 1 /\ UNCHANGED <<file, mdx, md, st>>
           [] c.t \in {"IDAT", "IEND"} ->
                /\ res' = IF mdx THEN "ok" ELSE "fail"
                /\ UNCHANGED <<file, i, mdx, md, icc, st>>
           [] OTHER ->
                /\ i' = i + 1 /\ UNCHANGED <<file, mdx, md, icc, st, res>>

-------------------------------------------------------------------------------
(* JPEG parser (jpegmeta.extractMetadata): st = [slots, got, total] where   *)
(* slots maps chunk number -> pid (0 = empty); total = -1 before the first. *)
JpegInitSt == [slots |-> <<>>, got |-> 0, total |-> -1]
JAll(mdx2, st2) == mdx2 /\ st2.total >= 0 /\ st2.got = st2.total
JFinish(mdx2, icc2, st2) == \* code after the loop
    IF ~mdx2 THEN <<"fail", icc2>>
    ELSE IF (IF st2.total < 0 THEN 0 ELSE st2.total) # st2.got
         THEN <<"ok", IF icc2 = Err THEN Err ELSE Err>>     \* incomplete
    ELSE IF st2.total < 0 THEN <<"ok", IF icc2 = Err /\ IccErrSticky THEN Err ELSE None>>
    ELSE IF icc2 = Err /\ IccErrSticky THEN <<"ok", Err>>
    ELSE <<"ok", Data([k \in 1..st2.total |-> st2.slots[k]])>>
JpegStep ==
    /\ Format = "jpeg" /\ res = "run"
    /\ IF i > Len(file) THEN   \* EOF inside the segment loop: "unexpected EOF"
          res' = "fail" /\ UNCHANGED <<file, i, mdx, md, icc, st>>
       ELSE LET c == file[i] IN
         CASE c.t = "SOF" ->
                /\ md' = <<c.w, c.h, c.p>> /\ mdx' = TRUE /\ i' = i + 1
                /\ IF JAll(TRUE, st)
                     THEN LET r == JFinish(TRUE, icc, st) IN res' = r[1] /\ icc' = r[2]
                     ELSE res' = "run" /\ icc' = icc
                /\ UNCHANGED <<file, st>>
           [] c.t = "SOS" ->
                LET r == JFinish(mdx, icc, st) IN
                /\ res' = r[1] /\ icc' = r[2] /\ UNCHANGED <<file, i, mdx, md, st>>
           [] c.t = "ICC" ->
                /\ i' = i + 1 /\ UNCHANGED <<file, mdx, md>>
                /\ IF icc # None THEN UNCHANGED <<icc, st, res>>      \* already data or error
                   ELSE LET tot == IF st.total < 0 THEN c.total ELSE st.total
                            sl == IF st.total < 0 THEN [k \in 1..c.total |-> 0] ELSE st.slots
                        IN IF st.total >= 0 /\ c.total # st.total
                             THEN icc' = Err /\ UNCHANGED <<st, res>>
                           ELSE IF c.seq = 0 \/ c.seq > tot
                             THEN icc' = Err /\ st' = [st EXCEPT !.total = tot, !.slots = sl]
                                  /\ UNCHANGED res
                           ELSE IF sl[c.seq] # 0
                             THEN icc' = Err /\ st' = [st EXCEPT !.total = tot, !.slots = sl]
                                  /\ UNCHANGED res
                           ELSE LET st2 == [slots |-> [sl EXCEPT ![c.seq] = c.pid],
                                            got |-> st.got + 1, total |-> tot]
                                IN /\ st' = st2
                                   /\ IF JAll(mdx, st2)
                                        THEN LET r == JFinish(mdx, icc, st2) IN res' = r[1] /\ icc' = r[2]
                                        ELSE res' = "run" /\ icc' = icc
           [] OTHER -> i' = i + 1 /\ UNCHANGED <<file, mdx, md, icc, st, res>>

-------------------------------------------------------------------------------
WebpStep ==
    /\ Format = "webp" /\ res = "run"
    /\ LET c == file[1] IN
       /\ mdx' = TRUE /\ res' = "ok" /\ i' = 2 /\ UNCHANGED <<file, st>>
       /\ CASE c.t = "VP8"  -> /\ md' = IF VP8Height = "set" THEN <<c.w, c.h, 8>> ELSE <<c.h, 0, 8>>
                               /\ icc' = None
            [] c.t = "VP8L" -> md' = <<c.w, c.h, 8>> /\ icc' = None
            [] c.t = "VP8X" ->
                 /\ md' = <<c.w, c.h, 8>>
                 /\ icc' = IF ~c.iccf THEN None
                           ELSE IF Len(file) >= 2 /\ file[2].t = "ICCP" THEN Data(<<file[2].pid>>)
                           ELSE Err

-------------------------------------------------------------------------------
Init == /\ file \in Files(Format, MaxLetters)
        /\ i = 1 /\ mdx = FALSE /\ md = <<0, 0, 0>> /\ icc = None
        /\ st = JpegInitSt /\ res = "run"

ImplOutcome == IF res = "ok" THEN Outcome(TRUE, md, icc) ELSE Fail

Report == /\ res \in {"ok", "fail"}
          /\ PrintT(ToJson([fmt |-> Format, file |-> file, allowed |-> Allowed(Format, file),
                            impl |-> ImplOutcome]))
          /\ res' = "reported" /\ UNCHANGED <<file, i, mdx, md, icc, st>>

Next == PngStep \/ JpegStep \/ WebpStep \/ Report
Spec == Init /\ [][Next]_vars

(* C05 + C06 on the design: whatever the parser reports is allowed by the   *)
(* contract (checked when it finishes).                                     *)
Conforms == res \in {"ok", "fail"} => ImplOutcome \in Allowed(Format, file)

(* C06 "never different bytes", stated directly on the JPEG reassembly:      *)
(* data is only ever reported when it is the clean profile of some prefix.  *)
NeverOtherBytes ==
    (Format = "jpeg" /\ res = "ok" /\ icc[1] = "data") =>
        \E n \in 1..Len(file) : LET I == IccOf(UpToSos(SubSeq(file, 1, n))) IN
                                  Clean(I) /\ icc = Data(AssembleIds(I))
================================================================================
