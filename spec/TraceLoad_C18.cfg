SPECIFICATION Spec
CONSTANT Prop = "C18"
