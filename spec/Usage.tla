------------------------------- MODULE Usage -------------------------------
(***************************************************************************)
(* The ways a client may use a loader, as far as the io.Reader contract    *)
(* and the documentation of Load allow.  What Load returns (C05, C06) and  *)
(* what the returned stream replays (C07, C19) may depend on none of them. *)
(* TLC enumerates the whole product; the harness runs every combination    *)
(* on a set of files (binding G), instead of rotating through the options  *)
(* with indices that might correlate.                                      *)
(*                                                                         *)
(*  presentation  what the source value offers besides Read, and where it  *)
(*                is positioned                                            *)
(*  delivery      how the source segments its data (C08 owns the           *)
(*                exhaustive treatment of segmentations)                   *)
(*  fault         how the source ends: EOF, EOF together with the last     *)
(*                bytes, an I/O error, an I/O error with the last bytes    *)
(*  drain         how the client consumes the returned stream              *)
(***************************************************************************)
EXTENDS TLC, Json, Sequences

Presentations == {"plain", "rich0", "rich5"}      \* rich = Seek, ReadAt, WriteTo, ReadByte, Len, Size; 5 = after 5 foreign bytes
Deliveries == {"full", "fixed1", "fixed3", "fixed7", "fixed4096", "fixed4097"}
Faults == {"eof", "eof-with-data", "ioerr", "ioerr-with-data", "uxeof", "uxeof-with-data"}
Drains == {"read1", "read7", "read512", "read4096", "read32775", "copy", "read12-then-copy", "read1-then-copy"}

VARIABLE u
Init == u \in [p : Presentations, d : Deliveries, f : Faults, dr : Drains]
Next == FALSE /\ u' = u
Spec == Init /\ [][Next]_u
PrintCase == PrintT(ToJson(u))
=============================================================================
