--------------------------- MODULE MC_DecodeTables ---------------------------
(* Every generated table entry is verified with the exact relations: the value  *)
(* lies in [lo, lo+1] / 10^12.  (The table is data; this check makes it a       *)
(* consequence of Colour.tla.)                                                  *)
EXTENDS Colour, DecodeTables
VARIABLE c
S12 == <<0, 0, 0, 0, 1>>
Init == c = 0
Next == c < 255 /\ c' = c + 1
Spec == Init /\ [][Next]_c
EntryOK ==
    \A cv \in {"srgb", "adobergb", "prophotorgb"} :
       LET lo == DecodeLo[cv][c + 1] IN
       /\ EOTFGe(cv, FromInt(c), N8, lo, S12)
       /\ EOTFLe(cv, FromInt(c), N8, Add(lo, <<1>>), S12)
       \* and not a looser bracket than claimed: lo+2 is too high, lo-1... (tightness, up to rounding)
       /\ (c > 0 => ~EOTFGe(cv, FromInt(c), N8, Add(lo, <<3>>), S12))
       /\ (c > 0 => ~EOTFLe(cv, FromInt(c), N8, Monus(lo, <<2>>), S12))
=============================================================================
