SPECIFICATION Spec
CONSTANTS
  MaxOther = 2
  StringRead = "at_offset"
  EnglishPick = "nonempty_en"
INVARIANT Conforms
