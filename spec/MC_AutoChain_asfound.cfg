SPECIFICATION Spec
CONSTANTS
  MaxN = 7
  BUF = 3
  ReadMode = "single"
  HandOver = "replay"
  Progs <- MCProgs
INVARIANTS SeesFromFirstByte RewindIsPrefix ReplayWhole ChainReadAhead AutoJustified AutoExact
PROPERTY Terminates
