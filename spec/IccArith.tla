------------------------------ MODULE IccArith ------------------------------
(***************************************************************************)
(* Impl-shaped model of the length / offset arithmetic of the ICC reader   *)
(* (C09, ICC half; C17's tag slicing): the tag table, the v2 text          *)
(* description and the multi-localised record, over machine words that     *)
(* WRAP.  Word scaling (DESIGN 3.4): the 32-bit ring is modelled as        *)
(* Z_M with M = 2^16; field values come from the bands                     *)
(*    small  |  around M/2 (the signed boundary)  |  just below M          *)
(* on which the scaling map to 2^32 is a ring homomorphism, so every wrap  *)
(* and comparison in the model is a wrap / comparison of the real code.    *)
(*                                                                         *)
(* Design = "wrap32"   as found: sums and differences in wrapping words,   *)
(*                     buffers allocated from declared lengths, no guard   *)
(*        = "repaired" sums in wide arithmetic, buffers grow with the data *)
(*                     that arrives, out-of-range tags are errors          *)
(* The budget invariant is C09's: allocation bounded by a fixed linear     *)
(* function of the INPUT length, whatever the input declares; and no panic *)
(* escapes the public call.                                                *)
(***************************************************************************)
EXTENDS Integers, Sequences, FiniteSets, TLC, Json

CONSTANTS Design, Part        \* Part: "tagtable" | "textdesc" | "mluc"

M == 65536
W(x) == x % M                 \* wrap into the word ring (x >= 0)
WSub(a, b) == (a - b + M) % M

Small == {0, 1, 4, 12, 13, 131, 132, 133, 143, 144, 145, 156, 157, 200}
Mid == {M \div 2 - 1, M \div 2}
High == {M - 200, M - 157, M - 145, M - 144, M - 133, M - 132, M - 131, M - 13, M - 12, M - 1}
Words == Small \cup Mid \cup High

VARIABLES
    inp,      \* the hostile input: declared fields + how many data words really follow
    alloc,    \* words requested from the allocator so far
    outcome   \* "run" | "ok" | "err" | "panic_recovered" | "panic_escaped"
vars == <<inp, alloc, outcome>>

TagInputs == { [count |-> c, off |-> o, size |-> s, avail |-> a] :
                 c \in {0, 1, 2}, o \in Words, s \in Words, a \in {0, 4, 50, 200} }
TextInputs == { [count |-> c, avail |-> a] : c \in Words, a \in {0, 1, 12, 50} }
MlucInputs == { [rcount |-> c, rsize |-> z, len |-> l, off |-> o, avail |-> a] :
                  c \in {0, 1, M - 1}, z \in {0, 12, 16, M - 1}, l \in Words, o \in Words, a \in {16, 28, 60} }

Init == /\ inp \in (CASE Part = "tagtable" -> TagInputs [] Part = "textdesc" -> TextInputs [] Part = "mluc" -> MlucInputs)
        /\ alloc = 0 /\ outcome = "run"

Min(a, b) == IF a < b THEN a ELSE b

(* ---- readTagTable ------------------------------------------------------ *)
\* all `count` entries carry the same (off, size): enough to drive every sum
TagTable ==
    /\ Part = "tagtable" /\ outcome = "run"
    /\ LET tdo == 132 + 12 * inp.count                      \* offset of the tag data
       IN IF Design = "wrap32" THEN
            LET endw == IF inp.count = 0 THEN 0 ELSE W(inp.off + inp.size)
                len == WSub(endw, W(tdo))                     \* wraps when end < tdo
                start == WSub(inp.off, W(tdo))
                stop == W(start + inp.size)
            IN /\ alloc' = len                                \* make([]byte, declared) before reading
               /\ outcome' = IF inp.avail < len THEN "err"
                             ELSE IF inp.count > 0 /\ (start > stop \/ stop > len) THEN "panic_recovered"
                             ELSE "ok"
          ELSE
            LET end == IF inp.count = 0 THEN 0 ELSE inp.off + inp.size       \* no wrap
                len == IF end > tdo THEN end - tdo ELSE 0
            IN /\ alloc' = 2 * Min(len, inp.avail) + 1        \* a buffer that grows with what arrives
               /\ outcome' = IF inp.avail < len THEN "err"
                             ELSE IF inp.count > 0 /\ (inp.off < tdo \/ inp.off - tdo + inp.size > len) THEN "err"
                             ELSE "ok"
    /\ UNCHANGED inp

(* ---- parseTextDescription: avail words follow the 12-byte head ---------- *)
TextDesc ==
    /\ Part = "textdesc" /\ outcome = "run"
    /\ IF Design = "wrap32" THEN
         LET n == WSub(inp.count, 1)                          \* asciiCount - 1 wraps at 0
         IN alloc' = n /\ outcome' = IF inp.avail < n + 1 THEN "err" ELSE "ok"
       ELSE
         /\ alloc' = IF inp.count = 0 \/ inp.count > inp.avail THEN 0 ELSE inp.count - 1
         /\ outcome' = IF inp.count = 0 THEN "ok" ELSE IF inp.count > inp.avail THEN "err" ELSE "ok"
    /\ UNCHANGED inp

(* ---- parseMultiLocalisedUnicode: one record, tag data of avail words ---- *)
\* (reached through Profile.Description, which has no recover: a panic escapes)
Mluc ==
    /\ Part = "mluc" /\ outcome = "run"
    /\ IF inp.rcount = 0 THEN alloc' = 0 /\ outcome' = "ok"
       ELSE IF inp.avail < 28 THEN alloc' = 0 /\ outcome' = "err"     \* header + one record do not fit
       ELSE IF Design = "wrap32" THEN
         LET sum == W(inp.off + inp.len)                      \* 32-bit sum, then widened: too late
         IN IF sum > inp.avail THEN alloc' = 0 /\ outcome' = "err"
            ELSE IF inp.off > sum THEN alloc' = 0 /\ outcome' = "panic_escaped"     \* data[off : off+len] with low > high
            ELSE alloc' = inp.len /\ outcome' = "ok"
       ELSE
         IF inp.off + inp.len > inp.avail THEN alloc' = 0 /\ outcome' = "err"
         \* skipping to the next record reads rsize - 12 further bytes from the cursor (offset 28)
         ELSE IF inp.rsize > 12 /\ 28 + (inp.rsize - 12) > inp.avail THEN alloc' = inp.len /\ outcome' = "err"
         ELSE alloc' = inp.len /\ outcome' = "ok"
    /\ UNCHANGED inp

Next == TagTable \/ TextDesc \/ Mluc
Spec == Init /\ [][Next]_vars

-----------------------------------------------------------------------------
InputWords == CASE Part = "tagtable" -> 132 + 12 * inp.count + inp.avail
                [] Part = "textdesc" -> 12 + inp.avail
                [] Part = "mluc" -> inp.avail
\* every finished behaviour is printed for replay on the real reader (binding G)
PrintCase == outcome # "run" => PrintT(ToJson([part |-> Part, inp |-> inp, outcome |-> outcome, alloc |-> alloc]))
\* C09: allocation bounded by a fixed linear function of the input length
AllocBounded == alloc <= 4 * InputWords + 64
\* C09: no panic escapes to the caller
NoEscapedPanic == outcome # "panic_escaped"
\* C17: a well-formed structure (everything in range, no wrap needed) is accepted
WellFormedAccepted ==
    (Part = "tagtable" /\ outcome # "run" /\ inp.count > 0
       /\ inp.off >= 132 + 12 * inp.count /\ inp.off + inp.size <= 132 + 12 * inp.count + inp.avail) => outcome = "ok"
\* ... including the profile with no tags at all
EmptyTableAccepted == (Part = "tagtable" /\ outcome # "run" /\ inp.count = 0) => outcome = "ok"
=============================================================================
