SPECIFICATION Spec
