------------------------- MODULE ImageXformContract -------------------------
(* Geometry of a destination (sub-)image inside its parent's backing array   *)
(* and the CONTRACT of C10: which cell must hold which source pixel.         *)
(* Constant-level; shared by the impl-shaped model (ImageXform) and by the   *)
(* trace specification (TraceImageXform).                                    *)
EXTENDS Integers, Sequences, FiniteSets, TLC

DW(c) == c.sw + c.ew                   \* destination width / height
DH(c) == c.sh + c.eh
StrideOf(c) == c.ml + DW(c) + c.mr      \* parent width in cells
Base(c) == c.mt * StrideOf(c) + c.ml    \* cell of the destination's Min inside the parent
NCells(c) == StrideOf(c) * (c.mt + DH(c) + c.mb)
Cell(c, x, y) == Base(c) + (y - c.dy) * StrideOf(c) + (x - c.dx)      \* image.PixOffset / bpp

(* C10: destination pixel dstMin + (p - srcMin) holds source pixel p, for every p *)
Expected(c) == { <<Cell(c, c.dx + (x - c.sx), c.dy + (y - c.sy)), <<x, y>>>> :
                   x \in c.sx..(c.sx + c.sw - 1), y \in c.sy..(c.sy + c.sh - 1) }

\* an observation e = [cfg, observed = <<cell, x, y>>..., panic] is accepted iff
XformOK(e) == /\ ~e.panic
              /\ { <<e.observed[i][1], <<e.observed[i][2], e.observed[i][3]>>>> : i \in 1..Len(e.observed) }
                   = Expected(e.cfg)
=============================================================================
