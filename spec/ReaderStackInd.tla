--------------------------- MODULE ReaderStackInd ---------------------------
(***************************************************************************)
(* Unbounded-N argument for the core of ReaderStack (C07, C18): an         *)
(* inductive invariant checked by Apalache for every source length n and   *)
(* every buffer size BUF (symbolic integers), abstracting the parser to    *)
(* "consumes some buffered bytes" and bufio to its two ways of calling the *)
(* layer below:                                                            *)
(*   Fill    buffer empty, one Read of capacity BUF into the buffer         *)
(*   Direct  buffer empty, request k >= BUF read straight into the caller   *)
(* The tee sits below the bufio and copies what the source delivers.       *)
(*   IndInv:  0 <= consumed <= pulled <= n /\ tee = pulled /\               *)
(*            pulled - consumed <= BUF                                      *)
(* gives ReplayComplete (the rewind buffer always equals what the source   *)
(* delivered) and the read-ahead bound, for all n and BUF.                 *)
(***************************************************************************)
EXTENDS Integers

CONSTANTS
    \* @type: Int;
    BUF
VARIABLES
    \* @type: Int;
    n,
    \* @type: Int;
    pulled,
    \* @type: Int;
    consumed,
    \* @type: Int;
    tee

ConstInit == BUF \in Nat /\ BUF >= 1

Init == /\ n \in Nat /\ pulled = 0 /\ consumed = 0 /\ tee = 0

Fill == /\ consumed = pulled
        /\ \E d \in 0..BUF : d <= n - pulled /\ pulled' = pulled + d /\ tee' = tee + d
        /\ UNCHANGED <<n, consumed>>
Direct == /\ consumed = pulled
          /\ \E k \in Nat : k >= BUF /\ \E d \in 0..k :
                d <= n - pulled /\ pulled' = pulled + d /\ consumed' = consumed + d /\ tee' = tee + d
          /\ UNCHANGED n
Consume == /\ \E k \in 1..BUF : k <= pulled - consumed /\ consumed' = consumed + k
           /\ UNCHANGED <<n, pulled, tee>>
Next == Fill \/ Direct \/ Consume

IndInv == /\ n \in Nat /\ pulled \in Int /\ consumed \in Int /\ tee \in Int
          /\ 0 <= consumed /\ consumed <= pulled /\ pulled <= n
          /\ tee = pulled
          /\ pulled - consumed <= BUF
IndInit == IndInv
ReplayComplete == tee = pulled
ReadAhead == pulled - consumed <= BUF
=============================================================================
