\* png: repaired design; every file of the bounded grammar; outcomes printed for replay (binding G)
SPECIFICATION Spec
CONSTANTS
  Format = "png"
  ReadMode = "full"
  IccErrSticky = TRUE
  VP8Height = "set"
  MaxLetters = 2
INVARIANTS Conforms NeverOtherBytes
