SPECIFICATION Spec
INVARIANTS Direct Algebra Powers
