SPECIFICATION Spec
CONSTANTS
  Procs = {"g1","g2","g3"}
  Design = "nilcheck_once"
VIEW View
INVARIANTS NoRace RetOK BuiltOnce
PROPERTY AllReturn
