SPECIFICATION Spec
CONSTANT Stride = 257
INVARIANTS Lemmas Junctions
