SPECIFICATION Spec
CONSTANTS
  Procs = {"g1","g2","g3"}
  Design = "plain_flag"
VIEW View
INVARIANTS NoRace RetOK BuiltOnce
PROPERTY AllReturn
