SPECIFICATION Spec
