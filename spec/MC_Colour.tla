------------------------------ MODULE MC_Colour ------------------------------
(* Lemmas TLC checks on the transcription of the standards before it judges    *)
(* the code: on the grid c/65535 every curve lies below the identity (C14),    *)
(* is strictly increasing, maps 0 to 0 and 1 to 1, and the two segments of the *)
(* piecewise curves meet within 10^-6 (a mis-transcribed constant or threshold *)
(* shows up here, as an error of the oracle, not as a verdict on the code).    *)
EXTENDS Colour
CONSTANT Stride
VARIABLE c
Curves == {"srgb", "adobergb", "prophotorgb"}
\* the grid 0, Stride, 2 Stride, ... is walked in blocks of 64 points, each block from its own initial
\* state: a single chain of 65,536 states keeps one TLC worker busy for ~40 min, 1,024 chains all 16
Block == 64
Init == \E b \in 0..(65535 \div (Stride * Block)) : c = b * Stride * Block
Next == /\ c + Stride <= 65535
        /\ ((c \div Stride) + 1) % Block # 0
        /\ c' = c + Stride
Spec == Init /\ [][Next]_c
Lemmas ==
    /\ \A cv \in Curves : CurveBelowIdentity(cv, c)
    \* 0 |-> 0 and 1 |-> 1 exactly
    /\ EOTFLe("srgb", <<>>, N16, <<>>, S18) /\ EOTFGe("srgb", N16, N16, S18, S18) /\ EOTFLe("srgb", N16, N16, S18, S18)
    /\ EOTFGe("adobergb", N16, N16, S18, S18) /\ EOTFLe("adobergb", N16, N16, S18, S18)
    /\ EOTFGe("prophotorgb", N16, N16, S18, S18) /\ EOTFLe("prophotorgb", N16, N16, S18, S18)
    \* mid-grey sanity against published values: sRGB 0.5 -> 0.2140 (+-0.0001), Adobe 0.5 -> 0.2177, ProPhoto 0.5 -> 0.2872
    /\ EOTFLe("srgb", <<1>>, <<2>>, FromInt(2141), FromInt(10000)) /\ EOTFGe("srgb", <<1>>, <<2>>, FromInt(2139), FromInt(10000))
    /\ EOTFLe("adobergb", <<1>>, <<2>>, FromInt(2179), FromInt(10000)) /\ EOTFGe("adobergb", <<1>>, <<2>>, FromInt(2176), FromInt(10000))
    /\ EOTFLe("prophotorgb", <<1>>, <<2>>, FromInt(2873), FromInt(10000)) /\ EOTFGe("prophotorgb", <<1>>, <<2>>, FromInt(2871), FromInt(10000))
\* junction continuity: at x = 0.04045 both sRGB branches give 0.0031308 +- 10^-6;
\* at x = 1/32 both ProPhoto branches give 1/512 exactly
P4045 == FromInt(1000 * 4045 + 55 * 100000)
Q4045 == FromInt(1055 * 100000)
T7 == FromInt(10000000)
Junctions ==
    /\ ProdLE(<< <<P4045, 12>>, <<T7, 5>> >>, << <<FromInt(31318), 5>>, <<Q4045, 12>> >>)
    /\ ProdLE(<< <<FromInt(31298), 5>>, <<Q4045, 12>> >>, << <<P4045, 12>>, <<T7, 5>> >>)
    /\ LE(Mul(FromInt(31298), FromInt(1292000)), Mul(FromInt(4045), T7))
    /\ LE(Mul(FromInt(4045), T7), Mul(FromInt(31318), FromInt(1292000)))
    /\ ProdLE(<< <<FromInt(1), 9>>, <<FromInt(512), 5>> >>, << <<FromInt(32), 9>>, <<FromInt(1), 5>> >>)
    /\ ProdLE(<< <<FromInt(32), 9>>, <<FromInt(1), 5>> >>, << <<FromInt(1), 9>>, <<FromInt(512), 5>> >>)
=============================================================================
