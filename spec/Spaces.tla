------------------------------- MODULE Spaces -------------------------------
(***************************************************************************)
(* C03 and C20: the RGB <-> XYZ transform of each space is the one fixed   *)
(* by its declared primaries and white point, which equal the published    *)
(* standard values; generated primaries matrices and the 3x3 algebra.       *)
(* Observed floats arrive as [s, lo, hi]: sign and floor/ceil of |v| 10^18. *)
(* Exact inputs arrive as dyadic rationals [s, m, k] = s m / 2^k.           *)
(***************************************************************************)
EXTENDS Matrix, Json

K40 == 40
D40 == I(1, Pow2(K40))
Tol1e6 == <<0, 0, 0, 0, 1>>                 \* 10^-6 at scale 10^18
Tol2e6 == <<0, 0, 0, 0, 2>>
Obs(o) == I(o.s, o.lo)                       \* observed value (its floor; tolerances get +1 unit)
Chroma(d) == [x |-> AtScale(d.x, K40), y |-> AtScale(d.y, K40)]

(* Published chromaticities, in units of 10^-6 (IEC 61966-2-1; Adobe RGB (1998); *)
(* ISO 22028-2 ROMM; SMPTE EG 432-1 / Display P3), and the digits they are        *)
(* published with (the tolerance is half a unit of the last published digit).    *)
Published ==
  [ srgb        |-> [ rx |-> 640000, ry |-> 330000, gx |-> 300000, gy |-> 600000, bx |-> 150000, by |-> 60000,
                      wx |-> 312700, wy |-> 329000, digits |-> 4 ],
    adobergb    |-> [ rx |-> 640000, ry |-> 330000, gx |-> 210000, gy |-> 710000, bx |-> 150000, by |-> 60000,
                      wx |-> 312700, wy |-> 329000, digits |-> 4 ],
    prophotorgb |-> [ rx |-> 734699, ry |-> 265301, gx |-> 159597, gy |-> 840403, bx |-> 36598, by |-> 105,
                      wx |-> 345700, wy |-> 358500, digits |-> 4 ],
    displayp3   |-> [ rx |-> 680000, ry |-> 320000, gx |-> 265000, gy |-> 690000, bx |-> 150000, by |-> 60000,
                      wx |-> 312700, wy |-> 329000, digits |-> 4 ] ]
\* ROMM primaries are published with 6 digits
PrimDigits(space) == IF space = "prophotorgb" THEN 6 ELSE 4

\* |d - p 10^-6| <= 0.5 10^-digits   for a dyadic d = m / 2^k:
\*   |m 10^6 10^digits 2 - p 2^k 10^digits 2| <= 10^6 2^k
DeclaredIs(d, p, digits) ==
    d.s = 1 /\
    LE(AbsDiff(Mul(d.m, Mul(Pow(<<10>>, 6 + digits), <<2>>)), Mul(FromInt(p), Mul(Pow2(d.k), Mul(Pow(<<10>>, digits), <<2>>)))),
       Mul(Pow(<<10>>, 6), Pow2(d.k)))

Decl == ndJsonDeserialize("spaces.ndjson")
DeclOf(space) == Decl[CHOOSE i \in 1..Len(Decl) : Decl[i].space = space]
SpaceNames == {"srgb", "adobergb", "prophotorgb", "displayp3"}
\* exact matrices from the DECLARED chromaticities, computed once
\* TLC re-evaluates a defined function at every application, so the derived tables
\* live in a state variable: computed once when the initial state is built, then
\* carried unchanged (trace specifications conjoin TabsInit / UNCHANGED tabs).
VARIABLE tabs
MOf(sp) == LET d == DeclOf(sp) IN RGB2XYZ(Chroma(d.r), Chroma(d.g), Chroma(d.b), Chroma(d.w), D40)
WOf(sp) == WhiteXYZ(Chroma(DeclOf(sp).w), D40)
\* explicit records: their fields are evaluated once, eagerly
TabsInit == tabs = [m |-> [srgb |-> MOf("srgb"), adobergb |-> MOf("adobergb"),
                           prophotorgb |-> MOf("prophotorgb"), displayp3 |-> MOf("displayp3")],
                    w |-> [srgb |-> WOf("srgb"), adobergb |-> WOf("adobergb"),
                           prophotorgb |-> WOf("prophotorgb"), displayp3 |-> WOf("displayp3")]]
MExact == tabs.m
WExact == tabs.w

DeclaredOK(e) ==
    LET p == Published[e.space]  d == DeclOf(e.space) IN
    /\ DeclaredIs(d.r.x, p.rx, PrimDigits(e.space)) /\ DeclaredIs(d.r.y, p.ry, PrimDigits(e.space))
    /\ DeclaredIs(d.g.x, p.gx, PrimDigits(e.space)) /\ DeclaredIs(d.g.y, p.gy, PrimDigits(e.space))
    /\ DeclaredIs(d.b.x, p.bx, PrimDigits(e.space)) /\ DeclaredIs(d.b.y, p.by, PrimDigits(e.space))
    /\ DeclaredIs(d.w.x, p.wx, p.digits) /\ DeclaredIs(d.w.y, p.wy, p.digits)

T1(t) == Add(t, <<1>>)
\* ToXYZ coefficient (row r, column c), probed with a unit vector
CoefOK(e) == LET M == MExact[e.space] IN Near(Obs(e.o), M.num[e.r][e.c], M.den, T1(Tol1e6), S18)
\* linear (1,1,1) maps to the white point with Y = 1
WhiteOK(e) == LET W == WExact[e.space] IN
              \A r \in Idx : Near(Obs(e.o[r]), W.num[r], W.den, T1(Tol1e6), S18)
\* unit primary i maps to a colour of that primary's chromaticity:
\*   |X/(X+Y+Z) - x_i| <= 10^-6   <=>   |X D - x_i T| <= 10^-6 T D     (x_i = xi / D, T = X+Y+Z)
PrimChromaOK(e) ==
    LET d == DeclOf(e.space)
        p == Chroma(IF e.i = 1 THEN d.r ELSE IF e.i = 2 THEN d.g ELSE d.b)
        X == Obs(e.o[1])  Y == Obs(e.o[2])  Z == Obs(e.o[3])
        T == ISum3(X, Y, Z)
        ok(v, pv) == LE(Mul(IAbs(ISub(IMul(v, D40), IMul(pv, T))).n, Pow(<<10>>, 6)),
                        Add(Mul(T.n, D40.n), Mul(D40.n, <<3>>)))
    IN T.s = 1 /\ T.n # <<>> /\ ok(X, p.x) /\ ok(Y, p.y)

\* linearity: |o_r - sum_j M[r][j] v_j| <= (10^-6 + 4 2^-24) max(1, sum |v_j|)
\* v_j exact fixed-point Ints at scale 10^18; tolerance at scale 10^18: T = 1238419 10^6 (1.238419e-6)
TolLin == <<0, 0, 419, 238, 1>>
AbsSum(v) == Add(Add(v[1].n, v[2].n), v[3].n)
MaxS(a, s) == IF LE(a, s) THEN s ELSE a
LinOK(e) ==
    LET M == MExact[e.space]
        v == [j \in Idx |-> I(e.v[j].s, e.v[j].lo)]
        scale == MaxS(AbsSum(v), S18)              \* max(1, sum|v|) at scale 10^18
    IN \A r \in Idx :
         \* |o den S - sum num v| <= tol scale den   (o, v at scale S; tol at scale S)
         LE(IAbs(ISub(IMul(IMul(Obs(e.o[r]), M.den), I(1, S18)),
                      IMul(ISum3(IMul(M.num[r][1], v[1]), IMul(M.num[r][2], v[2]), IMul(M.num[r][3], v[3])), I(1, S18)))).n,
            Mul(Mul(T1(TolLin), scale), M.den.n))

\* round trips: |o - v| <= 2 10^-6 max(1, max |v_j|)
MaxAbs(v) == MaxS(MaxS(v[1].n, v[2].n), v[3].n)
RoundTripOK(e) ==
    LET v == [j \in Idx |-> I(e.v[j].s, e.v[j].lo)]
        scale == MaxS(MaxAbs(v), S18)
    IN \A r \in Idx : LE(Mul(IAbs(ISub(Obs(e.o[r]), v[r])).n, S18), Mul(T1(Tol2e6), scale))

-----------------------------------------------------------------------------
(* C20 *)
RowSum(A, r) == Add(Add(A[r][1].n, A[r][2].n), A[r][3].n)
NormInf(A) == MaxS(MaxS(RowSum(A, 1), RowSum(A, 2)), RowSum(A, 3))       \* of the numerator matrix
ObsMat(o) == Mat(LAMBDA r, c : Obs(o[r][c]))

\* a generated pair of matrices for arbitrary primaries p (dyadic chromaticities)
GenMatrixOK(e) ==
    LET pr == Chroma(e.p.r)  pg == Chroma(e.p.g)  pb == Chroma(e.p.b)  w == Chroma(e.p.w)
        \* the white's luminance YY = Q / 2^40 scales the whole matrix (the primaries' own
        \* luminances cancel: only their chromaticities matter)
        Q == AtScale(e.p.wyy, K40)
        M1 == RGB2XYZ(pr, pg, pb, w, D40)
        M == RatMat(Scale(M1.num, Q), IMul(M1.den, D40))
        W1 == WhiteXYZ(w, D40)
        W == [num |-> [r \in Idx |-> IMul(W1.num[r], Q)], den |-> IMul(W1.den, D40)]
        to == ObsMat(e.to)   from == ObsMat(e.from)
        Ninv == RInverse(M.num)          \* M^-1 = den adj(num) / det(num)
        \* condition number kappa = |M|inf |M^-1|inf = (normM / den) * (den normAdj / |det|) = normM normAdj / |det|
        kapNum == Mul(NormInf(M.num), NormInf(Ninv.num))
        kapDen == Ninv.den.n
        prod == MatMul(from, to)                                          \* at scale 10^36
        S36 == Mul(S18, S18)
        \* tolerance 10^-6 kappa (kappa >= 1): the generator works from float32 chromaticities
        NearK(O, num, den) == LE(Mul(IAbs(ISub(IMul(O, den), IMul(num, I(1, S18)))).n, kapDen),
                                 Mul(Mul(T1(Tol1e6), den.n), MaxS(kapNum, kapDen)))
        col(c) == << to[1][c], to[2][c], to[3][c] >>
        chromaOK(c, p) == LET T == ISum3(col(c)[1], col(c)[2], col(c)[3]) IN
             /\ T.s = 1 /\ T.n # <<>>
             /\ \A k \in 1..2 : LE(Mul(Mul(IAbs(ISub(IMul(col(c)[k], D40), IMul(IF k = 1 THEN p.x ELSE p.y, T))).n, Pow(<<10>>, 6)), kapDen),
                                   Mul(Add(Mul(T.n, D40.n), Mul(D40.n, <<3>>)), MaxS(kapNum, kapDen)))
    IN /\ ~e.panic                                                                            \* a non-degenerate triple is never refused
       /\ \A r \in Idx : NearK(ISum3(to[r][1], to[r][2], to[r][3]), W.num[r], W.den)        \* (1,1,1) -> white, Y = 1
       /\ chromaOK(1, pr) /\ chromaOK(2, pg) /\ chromaOK(3, pb)                             \* unit primaries keep their chromaticity
       \* from * to = I within 10^-9 kappa:  |prod - delta S36| kapDen <= 10^-9 S36 kapNum  (+ slack for the floors)
       /\ \A r \in Idx : \A c \in Idx :
            LE(Mul(IAbs(ISub(prod[r][c], IF r = c THEN I(1, S36) ELSE IZero)).n, Mul(kapDen, Pow(<<10>>, 9))),
               Add(Mul(S36, kapNum), Mul(Mul(S18, kapDen), Pow(<<10>>, 12))))

\* 3x3 algebra on matrices with dyadic entries a / 2^e.q (integers a given with sign)
IntMat(a) == Mat(LAMBDA r, c : I(a[r][c].s, a[r][c].n))
IntVec(a) == [r \in Idx |-> I(a[r].s, a[r].n)]
TolAlg == <<0, 0, 1>>                      \* 10^-12 at scale 10^18
InverseOK(e) ==   \* e.a entries times 2^q; exact inverse = adj(A) 2^q / det(A)
    LET A == IntMat(e.a)  inv == RInverse(A)  o == ObsMat(e.o)
        q == I(1, Pow2(e.q))
        \* tolerance 10^-6 (1 + |exact|):  T den = 10^-6 (den + |num| 2^q) at scale S
    IN \A r \in Idx : \A c \in Idx :
         LE(Mul(IAbs(ISub(IMul(o[r][c], inv.den), IMul(IMul(inv.num[r][c], q), I(1, S18)))).n, Pow(<<10>>, 6)),
            Add(Mul(S18, Add(inv.den.n, Mul(inv.num[r][c].n, q.n))), Mul(inv.den.n, Pow(<<10>>, 6))))
MulMOK(e) ==      \* o = A B, entries of A, B times 2^q  =>  exact = (A B) / 2^(2q)
    LET PP == MatMul(IntMat(e.a), IntMat(e.b))  o == ObsMat(e.o)  den == I(1, Pow2(2 * e.q))
    IN \A r \in Idx : \A c \in Idx : Near(o[r][c], PP[r][c], den, T1(TolAlg), S18)
MulVOK(e) ==
    LET PP == MatVec(IntMat(e.a), IntVec(e.v))  den == I(1, Pow2(2 * e.q))
    IN \A r \in Idx : Near(Obs(e.o[r]), PP[r], den, T1(TolAlg), S18)
TransposeOK(e) ==
    LET A == IntMat(e.a)  o == ObsMat(e.o)  den == I(1, Pow2(e.q))
    IN \A r \in Idx : \A c \in Idx : Near(o[r][c], A[c][r], den, <<1>>, S18)
SingularOK(e) == Det(IntMat(e.a)) = IZero /\ e.panicked


-----------------------------------------------------------------------------
(* C12: chromatic adaptation.  White points arrive as exact XYZ vectors:       *)
(* [v |-> <<dyadic, dyadic, dyadic>>] for the XYZ constructor, or derived from *)
(* xyY as (x Y, y Y, (1 - x - y) Y) / y for the xyY constructor; either way an  *)
(* integer vector A over a positive integer alpha.                             *)
K30 == 30
D30 == I(1, Pow2(K30))
WhiteVec(w) ==   \* [vec |-> integer vector, den |-> positive Int]
    IF w.form = "xyz"
      THEN [vec |-> << AtScale(w.v[1], K30), AtScale(w.v[2], K30), AtScale(w.v[3], K30) >>, den |-> D30]
      ELSE LET x == AtScale(w.v[1], K30)  y == AtScale(w.v[2], K30)  Q == AtScale(w.v[3], K30)
           IN [vec |-> << IMul(x, Q), IMul(y, Q), IMul(ISub(ISub(D30, x), y), Q) >>, den |-> IMul(y, D30)]
\* exact adaptation a -> b as a rational matrix:  (alpha / beta) Adaptation(A, B)
ExactAdapt(wa, wb) ==
    LET a == WhiteVec(wa)  b == WhiteVec(wb)  R == Adaptation(a.vec, b.vec)
    IN RatMat(Scale(R.num, a.den), IMul(R.den, b.den))
Tol1e9 == <<0, 0, 0, 1>>
\* observed 3x3 (float64 entries) times an exact rational vector, compared with another
MapsWhite(o, wa, wb, tol) ==
    LET a == WhiteVec(wa)  b == WhiteVec(wb)
        img == MatVec(o, a.vec)                      \* scale 10^18 * (a scale)
    IN \A r \in Idx :   \* |img_r / (S a.den) - b_r / b.den| <= tol/S
         LE(IAbs(ISub(IMul(img[r], b.den), IMul(IMul(b.vec[r], a.den), I(1, S18)))).n,
            Mul(Mul(tol, a.den.n), b.den.n))
NearMat(o, R, tol) == \A r \in Idx : \A c \in Idx : Near(o[r][c], R.num[r][c], R.den, tol, S18)
NearIdentProd(o1, o2, tol) ==     \* o1 * o2 = I within tol, both at scale 10^18
    LET pr == MatMul(o1, o2)  S36 == Mul(S18, S18)
    IN \A r \in Idx : \A c \in Idx :
         LE(IAbs(ISub(pr[r][c], IF r = c THEN I(1, S36) ELSE IZero)).n, Mul(tol, S18))
AdaptOK(e) ==
    LET ab == ObsMat(e.ab)  ba == ObsMat(e.ba)  aa == ObsMat(e.aa)
        tolM == IF e.a.form = "xyz" /\ e.b.form = "xyz" THEN T1(Tol1e9) ELSE T1(Tol1e6)
    IN /\ ~e.panic                                                   \* no physically valid white is refused
       /\ NearMat(ab, ExactAdapt(e.a, e.b), Mul(tolM, FromInt(e.mscale)))  \* equals the Bradford matrix (entries of size mscale)
       /\ MapsWhite(ab, e.a, e.b, Mul(T1(Tol1e6), FromInt(e.scale)))  \* A's white -> B's white (10^-6 of the luminance scale)
       /\ \A r \in Idx : \A c \in Idx :                               \* A -> A is the identity
            Near(aa[r][c], IF r = c THEN IFromInt(1) ELSE IZero, IFromInt(1), T1(Tol1e9), S18)
       /\ NearIdentProd(ba, ab, T1(Tol1e9))                           \* (B->A)(A->B) = I
       /\ \A r \in Idx : Near(Obs(e.applied[r]),                      \* Apply(white A) = white B (float32 path)
                              IMul(WhiteVec(e.b).vec[r], IFromInt(1)), WhiteVec(e.b).den, Mul(T1(Tol1e6), FromInt(IF e.scale = 1 THEN 1 ELSE e.scale \div 10)), S18)
       /\ e.same_xyy                                                   \* xyY and XYZ constructors agree
\* ColorFromXYY: (x Y / y, Y, (1 - x - y) Y / y) in float32.  The third component is a
\* difference (1 - x - y) scaled by Y / y = X + Y + Z, so the rounding of each component is
\* bounded relative to that sum, not to the component itself (Z may be small by cancellation):
\*   |o_r - v_r| <= 2.4e-7 (|X| + |Y| + |Z|) + 1e-9
XyyToXyzOK(e) ==
    LET w == WhiteVec(e.xyy)
        sum == Add(Add(w.vec[1].n, w.vec[2].n), w.vec[3].n)
    IN \A r \in Idx :
       LE(Mul(IAbs(ISub(IMul(Obs(e.o[r]), w.den), IMul(w.vec[r], I(1, S18)))).n, Pow(<<10>>, 9)),
          Add(Mul(Mul(sum, S18), FromInt(240)), Mul(Mul(w.den.n, S18), <<2>>)))
ComposeOK(e) ==   \* (B->C)(A->B) = A->C within 10^-9 (1 + |entry|)
    LET ab == ObsMat(e.ab)  bc == ObsMat(e.bc)  ac == ObsMat(e.ac)
        pr == MatMul(bc, ab)
    IN \A r \in Idx : \A c \in Idx :
         LE(IAbs(ISub(pr[r][c], IMul(ac[r][c], I(1, S18)))).n,
            Mul(T1(Tol1e9), Add(S18, ac[r][c].n)))
\* Apply acts linearly: |o - R_obs v| <= 10^-6 max(1, sum |v|)  (float32 result of a float64 product)
ApplyOK(e) ==
    LET R == ObsMat(e.m)
        v == [j \in Idx |-> I(e.v[j].s, e.v[j].lo)]
        pr == MatVec(R, v)                              \* scale 10^36
        scale == MaxS(AbsSum(v), S18)
    IN \A r \in Idx : LE(IAbs(ISub(IMul(Obs(e.o[r]), I(1, S18)), pr[r])).n, Mul(T1(Tol1e6), scale))

SpaceEventOK(e) ==
    CASE e.kind = "declared" -> DeclaredOK(e)
      [] e.kind = "coef" -> CoefOK(e)
      [] e.kind = "white" -> WhiteOK(e)
      [] e.kind = "primchroma" -> PrimChromaOK(e)
      [] e.kind = "lin" -> LinOK(e)
      [] e.kind = "rt" -> RoundTripOK(e)
      [] e.kind = "genmatrix" -> GenMatrixOK(e)
      [] e.kind = "inverse" -> InverseOK(e)
      [] e.kind = "mulm" -> MulMOK(e)
      [] e.kind = "mulv" -> MulVOK(e)
      [] e.kind = "transpose" -> TransposeOK(e)
      [] e.kind = "singular" -> SingularOK(e)
      [] e.kind = "adapt" -> AdaptOK(e)
      [] e.kind = "compose" -> ComposeOK(e)
      [] e.kind = "xyy2xyz" -> XyyToXyzOK(e)
      [] e.kind = "apply" -> ApplyOK(e)
=============================================================================
