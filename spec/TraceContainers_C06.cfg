SPECIFICATION Spec
CONSTANT Prop = "C06"
