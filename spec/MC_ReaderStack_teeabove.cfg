\* mutant design: tee wraps the bufio instead of the source
SPECIFICATION Spec
CONSTANTS
  MaxN = 9
  BUF = 4
  MaxLen = 3
  ReadMode = "full"
  Wiring = "tee_above_bufio"
  Progs <- MCProgs
  Deliv <- AnyDeliv
VIEW View
INVARIANTS TypeOK ReplayComplete FailJustified SuccessExact ReadAheadBounded
PROPERTY Terminates
