SPECIFICATION Spec
CONSTANT Stride = 1
INVARIANTS Lemmas Junctions
