------------------------------- MODULE Matrix -------------------------------
(***************************************************************************)
(* Exact 3x3 linear algebra over Num!Int for the colorimetric properties   *)
(* (C03, C04, C12, C20): the RGB <-> XYZ matrices fixed by primaries and   *)
(* white point, the Bradford adaptation, adjugate / determinant inverse.   *)
(* Matrices are <<row1, row2, row3>> of Int; a rational matrix is a pair   *)
(* [num |-> integer matrix, den |-> positive Int] (one common denominator).*)
(* Float inputs arrive as exact dyadic rationals m / 2^k.                  *)
(***************************************************************************)
EXTENDS Num

Idx == 1..3
Mat(f(_, _)) == [r \in Idx |-> [c \in Idx |-> f(r, c)]]
ISum3(a, b, c) == IAdd(IAdd(a, b), c)
MatMul(A, Bm) == Mat(LAMBDA r, c : ISum3(IMul(A[r][1], Bm[1][c]), IMul(A[r][2], Bm[2][c]), IMul(A[r][3], Bm[3][c])))
MatVec(A, v) == [r \in Idx |-> ISum3(IMul(A[r][1], v[1]), IMul(A[r][2], v[2]), IMul(A[r][3], v[3]))]
Transpose(A) == Mat(LAMBDA r, c : A[c][r])
Scale(A, s) == Mat(LAMBDA r, c : IMul(A[r][c], s))
Cof(A, r1, r2, c1, c2) == ISub(IMul(A[r1][c1], A[r2][c2]), IMul(A[r1][c2], A[r2][c1]))
\* adjugate: Adj(A) * A = det(A) * I
Adj(A) == << << Cof(A, 2, 3, 2, 3), INeg(Cof(A, 1, 3, 2, 3)), Cof(A, 1, 2, 2, 3) >>,
             << INeg(Cof(A, 2, 3, 1, 3)), Cof(A, 1, 3, 1, 3), INeg(Cof(A, 1, 2, 1, 3)) >>,
             << Cof(A, 2, 3, 1, 2), INeg(Cof(A, 1, 3, 1, 2)), Cof(A, 1, 2, 1, 2) >> >>
Det(A) == ISum3(IMul(A[1][1], Cof(A, 2, 3, 2, 3)), INeg(IMul(A[1][2], Cof(A, 2, 3, 1, 3))),
                IMul(A[1][3], Cof(A, 2, 3, 1, 2)))
IdentI == Mat(LAMBDA r, c : IF r = c THEN IFromInt(1) ELSE IZero)

\* rational matrix with positive denominator
RatMat(num, den) == IF den.s = 1 THEN [num |-> num, den |-> den]
                    ELSE [num |-> Scale(num, IFromInt(-1)), den |-> INeg(den)]
RInverse(A) == RatMat(Adj(A), Det(A))             \* A integer matrix with det # 0

\* |obs - num/den| <= tol   with obs = O/Sc, tol = T/Sc  (O Int, T Nat, den > 0)
\*   <=>  |O*den - num*Sc| <= T*den
Near(O, num, den, T, Sc) ==
    LE(IAbs(ISub(IMul(O, den), IMul(num, I(1, Sc)))).n, Mul(T, den.n))

\* exact dyadic input: [s, m, k] = s * m / 2^k  ->  integer at common denominator 2^K
Pow2(k) == Pow(<<2>>, k)
AtScale(d, K) == I(d.s, Mul(d.m, Pow2(K - d.k)))

-----------------------------------------------------------------------------
(* RGB -> XYZ from chromaticities (x, y) of three primaries and a white point, *)
(* all given as integers over the common denominator D = 2^K.                  *)
(*   column i is proportional to c_i = (X_i, Y_i, D - X_i - Y_i);              *)
(*   M = C diag(t),  t = adj(C) w / (det(C) Yw),  w = (Xw, Yw, D - Xw - Yw)    *)
(* so  M[r][i] = C[r][i] a_i / (det(C) Yw)  with a = adj(C) w, and the inverse *)
(*     N[i][r] = adj(C)[i][r] Yw / a_i.                                        *)
ChromaVec(p, D) == << p.x, p.y, ISub(ISub(D, p.x), p.y) >>
PrimMat(pr, pg, pb, D) ==
    LET cr == ChromaVec(pr, D)  cg == ChromaVec(pg, D)  cb == ChromaVec(pb, D)
    IN Mat(LAMBDA r, c : IF c = 1 THEN cr[r] ELSE IF c = 2 THEN cg[r] ELSE cb[r])
RGB2XYZ(pr, pg, pb, w, D) ==
    LET C == PrimMat(pr, pg, pb, D)
        a == MatVec(Adj(C), ChromaVec(w, D))
    IN RatMat(Mat(LAMBDA r, c : IMul(C[r][c], a[c])), IMul(Det(C), w.y))
\* XYZ of the white point itself: (Xw/Yw, 1, (D - Xw - Yw)/Yw) as a rational vector
WhiteXYZ(w, D) == [num |-> ChromaVec(w, D), den |-> w.y]

(* Bradford chromatic adaptation (published 4-decimal cone response matrix)   *)
Bradford == << << IFromInt(8951), IFromInt(2664), IFromInt(-1614) >>,
               << IFromInt(-7502), IFromInt(17135), IFromInt(367) >>,
               << IFromInt(389), IFromInt(-685), IFromInt(10296) >> >>     \* x 10^-4
\* adaptation from white a to white b (integer XYZ vectors over any common scale):
\*   R = B^-1 diag((B b)_i / (B a)_i) B
\*     = adj(B) diag(Bb_i * prod_{j # i} Ba_j) B / (det(B) * Ba_1 Ba_2 Ba_3)
Adaptation(a, b) ==
    LET Ba == MatVec(Bradford, a)  Bb == MatVec(Bradford, b)
        d == << IMul(Bb[1], IMul(Ba[2], Ba[3])), IMul(Bb[2], IMul(Ba[1], Ba[3])), IMul(Bb[3], IMul(Ba[1], Ba[2])) >>
        DB == Mat(LAMBDA r, c : IMul(d[r], Bradford[r][c]))
    IN RatMat(MatMul(Adj(Bradford), DB), IMul(Det(Bradford), IMul(Ba[1], IMul(Ba[2], Ba[3]))))
=============================================================================
