SPECIFICATION Spec
INVARIANT Lemmas
