--------------------------- MODULE TraceIccHeader ---------------------------
(* Trace validation for C16: observations of icc.ProfileReader.ReadProfile   *)
(* (kind "hdr") and of icc.Version.String (kind "ver") judged by IccHeader.  *)
EXTENDS IccHeader, Json
Trace == ndJsonDeserialize("trace.ndjson")
BlockSize == 400
VARIABLES k
NBlocks == (Len(Trace) + BlockSize - 1) \div BlockSize
Accept(e) == IF e.kind = "hdr" THEN HeaderOK(e) ELSE VersionOK(e)
Judge(n) == IF Accept(Trace[n]) THEN TRUE ELSE PrintT(ToJson([reject |-> n]))
Init == k = 0
Next == \/ /\ k = 0
           /\ \E b \in 0..(NBlocks - 1) : k' = b * BlockSize + 1
           /\ Judge(k')
        \/ /\ k > 0 /\ k < Len(Trace) /\ k % BlockSize # 0
           /\ k' = k + 1
           /\ Judge(k')
Spec == Init /\ [][Next]_k
=============================================================================
