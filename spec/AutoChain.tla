------------------------------ MODULE AutoChain ------------------------------
(***************************************************************************)
(* autometa.Load: a chain of up to three loaders, each of which wraps its  *)
(* input in  tee -> bufio -> parser  and hands  MultiReader(rewind, input) *)
(* to the next one (or to the caller).  Impl-shaped: one action per Read   *)
(* call on a stream; byte identities are explicit here (sequences), so     *)
(* "the next loader sees the input from its first byte, in order, nothing  *)
(* lost or duplicated" is a real invariant and not true by construction.   *)
(*                                                                         *)
(* stream 0 is the caller's source; stream s (s >= 1) is what loader s     *)
(* returns: MultiReader(rew[s], stream s-1).  Loader s reads stream s-1.   *)
(***************************************************************************)
EXTENDS Integers, Sequences, FiniteSets, TLC

CONSTANTS
    MaxN,       \* source length bound
    BUF,        \* bufio size
    ReadMode,   \* "single" | "full"
    HandOver,   \* "replay" (the code) | "original" (mutant: next loader gets the caller's reader)
    Progs       \* parser programs; loader s runs progs[s]; all of them fail except possibly the last

VARIABLES
    n, failKind,
    progs,      \* <<p1, p2, p3>> request programs of the three loaders
    wins,       \* which loader (1..3) succeeds if it sees enough data; 0 = none
    s,          \* loader currently running (1..3), 4 = chain finished
    pc, got,
    srcPos,     \* bytes the caller's source has delivered
    rew,        \* rew[k]: contents of loader k's rewind buffer (byte ids)
    roff,       \* roff[k]: read offset into rew[k] (MultiReader progress)
    win,        \* current loader's bufio window (sequence of byte ids not yet consumed)
    berr,
    seen,       \* bytes the current loader's parser has received, in order
    result      \* "run" | "ok" (some loader succeeded) | "none" (all failed)

vars == <<n, failKind, progs, wins, s, pc, got, srcPos, rew, roff, win, berr, seen, result>>

Min(a, b) == IF a < b THEN a ELSE b
Iota(a, b) == [k \in 1..(b - a + 1) |-> a + k - 1]     \* <<a, ..., b>>

Init ==
    /\ n \in 0..MaxN /\ failKind \in {"eof", "ioerr"}
    /\ progs \in Progs \X Progs \X Progs
    /\ wins \in 0..3
    /\ s = 1 /\ pc = 1 /\ got = 0 /\ srcPos = 0
    /\ rew = <<<<>>, <<>>, <<>>>> /\ roff = <<0, 0, 0>>
    /\ win = <<>> /\ berr = "none" /\ seen = <<>> /\ result = "run"

(* One Read(req) on stream k: the set of possible <<bytes, err, roff', srcPos'>>. *)
RECURSIVE StreamRead(_, _, _, _)
StreamRead(k, req, ro, sp) ==
    IF k = 0 \/ (HandOver = "original") THEN
        \* the caller's source: any count the io.Reader contract allows
        LET rem == n - sp IN
        IF rem = 0 THEN { <<<<>>, failKind, ro, sp>> }
        ELSE { t \in { <<Iota(sp + 1, sp + d), IF e THEN failKind ELSE "none", ro, sp + d>> :
                         d \in 1..Min(req, rem), e \in BOOLEAN } :
                 (t[2] # "none") => (t[4] = n) }      \* data + terminal condition only at the end
    ELSE IF ro[k] < Len(rew[k]) THEN
        \* MultiReader still inside the rewind buffer: bytes.Buffer hands out what it
        \* has, never crossing into the next reader within one call
        LET d == Min(req, Len(rew[k]) - ro[k]) IN
        { << SubSeq(rew[k], ro[k] + 1, ro[k] + d), "none", [ro EXCEPT ![k] = ro[k] + d], sp >> }
    ELSE StreamRead(k - 1, req, ro, sp)

Req == progs[s][pc]
Kind(r) == IF r[1] = "R" /\ ReadMode = "full" THEN "F" ELSE r[1]
Running == result = "run" /\ s <= 3 /\ pc <= Len(progs[s])

\* the loader's tee copies every byte its input stream delivers
Arrive(bytes) == rew' = [rew EXCEPT ![s] = rew[s] \o bytes]

LoaderDone(ok) ==
    \* loader s returns; on success the chain ends, on failure the next loader
    \* runs on stream s (its rewind buffer read from the start)
    IF ok /\ wins = s
      THEN result' = "ok" /\ s' = 4 /\ UNCHANGED <<pc, got, win, berr, seen>>
      ELSE /\ s' = s + 1 /\ pc' = 1 /\ got' = 0 /\ win' = <<>> /\ berr' = "none" /\ seen' = <<>>
           /\ result' = IF s = 3 THEN "none" ELSE "run"

(* To keep the module readable the bufio is modelled as in ReaderStack but  *)
(* with explicit contents; only the three calls the parsers make.           *)
ByteFromWindow ==
    /\ Running /\ Kind(Req) = "B" /\ win # <<>>
    /\ IF pc = Len(progs[s])
         THEN LoaderDone(TRUE)
         ELSE pc' = pc + 1 /\ got' = 0 /\ win' = Tail(win) /\ seen' = Append(seen, Head(win))
              /\ UNCHANGED <<s, result, berr>>
    /\ UNCHANGED <<n, failKind, progs, wins, srcPos, rew, roff>>

Fill ==  \* empty window, no stored error: one Read(BUF) on the input stream
    /\ Running /\ win = <<>> /\ berr = "none"
    /\ Kind(Req) \in {"B"} \/ (Kind(Req) \in {"R", "F"} /\ (Req[2] - got) < BUF)
    /\ \E t \in StreamRead(s - 1, BUF, roff, srcPos) :
          /\ win' = t[1] /\ berr' = t[2] /\ roff' = t[3] /\ srcPos' = t[4] /\ Arrive(t[1])
    /\ UNCHANGED <<n, failKind, progs, wins, s, pc, got, seen, result>>

StoredError ==  \* empty window, stored error: the request fails
    /\ Running /\ win = <<>> /\ berr # "none"
    /\ berr' = "none" /\ LoaderDone(FALSE)
    /\ UNCHANGED <<n, failKind, progs, wins, srcPos, rew, roff>>

FieldFromWindow ==  \* Read(p) with a non-empty window: copy what is there
    /\ Running /\ Kind(Req) \in {"R", "F"} /\ win # <<>>
    /\ LET want == Req[2] - got
           k == Min(want, Len(win))
       IN IF got + k = Req[2]
            THEN IF pc = Len(progs[s]) THEN LoaderDone(TRUE)
                 ELSE pc' = pc + 1 /\ got' = 0 /\ win' = SubSeq(win, k + 1, Len(win))
                      /\ seen' = seen \o SubSeq(win, 1, k) /\ UNCHANGED <<s, result, berr>>
          ELSE IF Kind(Req) = "R"      \* as found: short count => "unexpected EOF"
            THEN LoaderDone(FALSE)
          ELSE got' = got + k /\ win' = SubSeq(win, k + 1, Len(win)) /\ seen' = seen \o SubSeq(win, 1, k)
               /\ UNCHANGED <<s, pc, result, berr>>
    /\ UNCHANGED <<n, failKind, progs, wins, srcPos, rew, roff>>

DirectRead ==  \* empty window, request >= BUF: read straight into the caller's slice
    /\ Running /\ Kind(Req) \in {"R", "F"} /\ win = <<>> /\ berr = "none" /\ (Req[2] - got) >= BUF
    /\ \E t \in StreamRead(s - 1, Req[2] - got, roff, srcPos) :
          /\ roff' = t[3] /\ srcPos' = t[4] /\ Arrive(t[1])
          /\ LET k == Len(t[1]) IN
             IF got + k = Req[2] /\ (Kind(Req) = "F" \/ t[2] = "none")
               THEN IF pc = Len(progs[s]) THEN LoaderDone(TRUE)
                    ELSE pc' = pc + 1 /\ got' = 0 /\ seen' = seen \o t[1] /\ win' = <<>>
                         /\ UNCHANGED <<s, result, berr>>
             ELSE IF t[2] # "none" \/ Kind(Req) = "R"
               THEN LoaderDone(FALSE)
             ELSE got' = got + k /\ seen' = seen \o t[1] /\ UNCHANGED <<s, pc, win, result, berr>>
    /\ UNCHANGED <<n, failKind, progs, wins>>

EmptyProg == /\ result = "run" /\ s <= 3 /\ progs[s] = <<>> /\ LoaderDone(TRUE)
             /\ UNCHANGED <<n, failKind, progs, wins, srcPos, rew, roff>>

Next == ByteFromWindow \/ Fill \/ StoredError \/ FieldFromWindow \/ DirectRead \/ EmptyProg
Spec == Init /\ [][Next]_vars /\ WF_vars(Next)

-------------------------------------------------------------------------------
\* C19/C07: every loader's parser sees the input from its first byte, in order.
SeesFromFirstByte == seen = Iota(1, Len(seen))

\* C07: each rewind buffer holds exactly the first bytes of the input, in order
\* (nothing lost or duplicated), and together with the unread rest of the
\* streams below it the returned stream is the whole input.
RewindIsPrefix == \A k \in 1..3 : rew[k] = Iota(1, Len(rew[k]))

\* C07 at the end of the chain: what the caller gets back replays everything
\* the source delivered: the last rewind buffer, then the unread parts of the
\* earlier ones, then the source.
RECURSIVE Rest(_, _)
Rest(k, from) == \* bytes stream k will still deliver, starting after byte `from`
    IF k = 0 THEN Iota(srcPos + 1, n)
    ELSE SubSeq(rew[k], roff[k] + 1, Len(rew[k])) \o Rest(k - 1, from)
Returned == LET last == IF result = "ok" THEN wins ELSE 3 IN rew[last] \o Rest(last - 1, 0)
ReplayWhole == (result # "run" /\ HandOver = "replay") => Returned = Iota(1, n)

\* C18 for the chain: the caller's source is never pulled further than the
\* hungriest loader needed plus one bufio window.
RECURSIVE Sum(_, _)
Sum(p, i) == IF i > Len(p) THEN 0 ELSE (IF p[i][1] = "B" THEN 1 ELSE p[i][2]) + Sum(p, i + 1)
MaxNeed == LET m(a, b) == IF a > b THEN a ELSE b IN m(Sum(progs[1], 1), m(Sum(progs[2], 1), Sum(progs[3], 1)))
ChainReadAhead == srcPos <= MaxNeed + BUF

\* C08/C19 for the chain: the loader whose format the input has (wins) fails only
\* when the data really is insufficient for it, whatever the earlier loaders
\* consumed and however the streams segment the data.
AutoJustified == (result = "none" /\ wins > 0) => Sum(progs[wins], 1) > n
AutoExact == (result = "ok") => Sum(progs[wins], 1) <= n

Terminates == <>(result # "run")
================================================================================
