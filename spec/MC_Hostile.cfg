SPECIFICATION Spec
