------------------------------ MODULE PngLexer ------------------------------
(***************************************************************************)
(* The chunk loop of pngmeta.extractMetadata at BYTE granularity.          *)
(* Containers.tla has the same loop at chunk granularity (whole chunks,    *)
(* opaque payloads); this module adds what that abstraction leaves out:    *)
(* where inside a chunk the input may end, which of those ends leave the   *)
(* loop quietly (end of data at a chunk header, inside a length field, or  *)
(* - a property of io.ReadFull - exactly after one) and which are errors, what  *)
(* a declared length below the fixed fields does (IHDR of 5 bytes: the     *)
(* skip count Length-9 wraps and the loop reads to the end of the input),  *)
(* and how many bytes the parser has taken from its source at the moment   *)
(* it returns.                                                             *)
(*                                                                         *)
(* Input = PNG signature, then a sequence of chunk-aligned TOKENS (each a  *)
(* complete chunk with a fixed byte layout that the harness reproduces),   *)
(* cut after `cut` bytes.  State: token index, byte offset, what has been  *)
(* extracted so far.  One action per loop iteration of the code.           *)
(*                                                                         *)
(* Binding: generate-and-replay.  TLC prints every (tokens, cut) with the  *)
(* model's outcome; harness/cmd/drive/pnglexer.go builds the bytes, runs   *)
(* pngmeta.Load (and autometa.Load) over a one-byte-per-Read source, where *)
(* bufio takes exactly what the parser asks for, and compares result,      *)
(* dimensions, depth, ICC state and bytes taken from the source.           *)
(***************************************************************************)
EXTENDS Integers, Sequences, TLC, Json

CONSTANTS Tokens, MaxToks, CutToks       \* cut positions are enumerated for inputs of <= CutToks tokens

Sig == 8
\* declared data length of each token (the chunk occupies 8 + L + 4 bytes)
L(t) == CASE t = "IHDRa" -> 13 [] t = "IHDRb" -> 9 [] t = "IHDR5" -> 5
          [] t \in {"iCCP1", "iCCP2", "iCCPbad", "iCCPm1"} -> 17      \* name "a", NUL, method, 14 bytes of zlib
          [] t = "iCCP3" -> 3                                          \* name "a", NUL, method 0 and nothing else
          [] t = "iCCPn79" -> 95                                       \* the longest name allowed (79 bytes), NUL, method, 14 bytes of zlib
          [] t = "iCCPn80" -> 94                                       \* 80 name bytes without a terminator among them, 14 more
          [] t = "tEXt" -> 2 [] t \in {"IDAT", "IEND"} -> 0
Size(t) == 8 + L(t) + 4
\* what an IHDR token declares (width, height, depth) - distinct numbers, so a mix-up shows
Dims(t) == IF t = "IHDRa" THEN <<11, 12, 8>> ELSE <<21, 22, 16>>

RECURSIVE Total(_)
Total(s) == IF s = <<>> THEN 0 ELSE Size(Head(s)) + Total(Tail(s))
Strings(n) == UNION { [1..k -> Tokens] : k \in 0..n }

VARIABLES toks, cut, i, pos, mdx, md, icc, res, taken
vars == <<toks, cut, i, pos, mdx, md, icc, res, taken>>

Init == /\ toks \in Strings(MaxToks)
        /\ cut \in IF Len(toks) <= CutToks THEN 0..(Sig + Total(toks)) ELSE {Sig + Total(toks)}
        /\ i = 0 /\ pos = 0 /\ mdx = FALSE /\ md = <<0, 0, 0>> /\ icc = "none" /\ res = "run" /\ taken = 0

Fail(n) == res' = "fail" /\ taken' = n /\ UNCHANGED <<toks, cut, i, pos, mdx, md, icc>>
Done(n) == res' = (IF mdx THEN "ok" ELSE "fail") /\ taken' = n /\ UNCHANGED <<toks, cut, i, pos, mdx, md, icc>>

\* the eight signature bytes
ReadSig == /\ res = "run" /\ i = 0
           /\ IF cut < Sig THEN Fail(cut)
              ELSE i' = 1 /\ pos' = Sig /\ UNCHANGED <<toks, cut, mdx, md, icc, res, taken>>

\* one iteration of the parseChunks loop
Chunk ==
    /\ res = "run" /\ i >= 1
    /\ LET a == cut - pos IN                     \* bytes left
       IF a <= 4 THEN Done(cut)                  \* io.EOF from a ReadByte of the length field (even a partial one), or from
                                                 \* ReadFull of the type with nothing read: the loop is left quietly
       ELSE IF a < 8 THEN Fail(cut)              \* "unexpected EOF reading chunk type"
       ELSE LET t == toks[i]  end == pos + Size(t) IN
         CASE t \in {"IHDRa", "IHDRb"} ->
                IF a < Size(t) THEN Fail(cut)
                ELSE /\ md' = Dims(t) /\ mdx' = TRUE
                     /\ IF icc # "none"                                  \* early exit: everything is known
                        THEN res' = "ok" /\ taken' = end /\ UNCHANGED <<i, pos>>
                        ELSE i' = i + 1 /\ pos' = end /\ UNCHANGED <<res, taken>>
                     /\ UNCHANGED <<toks, cut, icc>>
           [] t = "IHDR5" -> Fail(cut)                                   \* Length-9 wraps: reads until the input ends
           [] t \in {"iCCPm1", "iCCP3"} ->                               \* unknown method / nothing after the method byte
                IF a < 11 THEN Fail(cut) ELSE Fail(pos + 11)
           [] t = "iCCPn80" ->                                            \* no terminator within 80 bytes
                IF a < 88 THEN Fail(cut) ELSE Fail(pos + 88)
           [] t \in {"iCCP1", "iCCP2", "iCCPbad", "iCCPn79"} ->
                IF a < Size(t) THEN Fail(cut)
                ELSE /\ icc' = (CASE t \in {"iCCP1", "iCCPn79"} -> "p1" [] t = "iCCP2" -> "p2" [] OTHER -> "err")
                     /\ IF mdx /\ t # "iCCPbad"
                        THEN res' = "ok" /\ taken' = end /\ UNCHANGED <<i, pos>>
                        ELSE i' = i + 1 /\ pos' = end /\ UNCHANGED <<res, taken>>
                     /\ UNCHANGED <<toks, cut, mdx, md>>
           [] t \in {"IDAT", "IEND"} -> Done(pos + 8)                    \* pixel data: stop at the header
           [] OTHER ->                                                    \* tEXt: skipped with its CRC
                IF a < Size(t) THEN Fail(cut)
                ELSE i' = i + 1 /\ pos' = end /\ UNCHANGED <<toks, cut, mdx, md, icc, res, taken>>

Next == ReadSig \/ Chunk
Spec == Init /\ [][Next]_vars

-----------------------------------------------------------------------------
TypeOK == /\ pos \in 0..cut /\ taken \in 0..cut /\ i \in 0..(Len(toks) + 1)
          /\ (i >= 1 => pos = Sig + Total(SubSeq(toks, 1, i - 1)))       \* the cursor is always on a chunk boundary
\* a running parser has room to move: some chunk remains or the input ends here
NoStall == (res = "run" /\ i > Len(toks)) => cut - pos = 0
\* success means a complete IHDR was seen, and the dimensions are those of the LAST complete IHDR read
OkHasHeader ==
    res = "ok" => /\ mdx
                  /\ \E k \in 1..Len(toks) : /\ toks[k] \in {"IHDRa", "IHDRb"} /\ md = Dims(toks[k])
                                             /\ Sig + Total(SubSeq(toks, 1, k)) <= taken
\* the parser never reads past the header of the first IDAT / IEND it reaches
StopsAtPixels ==
    \A k \in 1..Len(toks) : (toks[k] \in {"IDAT", "IEND"} /\ res # "run" /\ k <= i /\ Sig + Total(SubSeq(toks, 1, k - 1)) + 8 <= cut)
        => taken <= Sig + Total(SubSeq(toks, 1, k - 1)) + 8
\* with the header and a good profile both known, nothing after the later of the two is read
EarlyExit == (res = "ok" /\ icc \in {"p1", "p2"}) =>
                \/ taken = Sig + Total(SubSeq(toks, 1, i))               \* stopped right after chunk i
                \/ toks[i] \in {"IDAT", "IEND"} \/ cut - pos <= 4
\* a failed load reports nothing; a finished one has taken no more than there is
Sane == (res = "fail" \/ res = "ok") => taken <= cut

PrintCase == (res # "run") =>
    PrintT(ToJson([toks |-> toks, cut |-> cut, res |-> res,
                   w |-> IF res = "ok" THEN md[1] ELSE 0, h |-> IF res = "ok" THEN md[2] ELSE 0,
                   d |-> IF res = "ok" THEN md[3] ELSE 0, icc |-> IF res = "ok" THEN icc ELSE "none", taken |-> taken]))
=============================================================================
