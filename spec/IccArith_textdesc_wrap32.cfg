SPECIFICATION Spec
CONSTANTS
  Design = "wrap32"
  Part = "textdesc"
INVARIANTS AllocBounded NoEscapedPanic WellFormedAccepted EmptyTableAccepted
