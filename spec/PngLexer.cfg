SPECIFICATION Spec
CONSTANTS
  Tokens = {"IHDRa", "IHDRb", "IHDR5", "iCCP1", "iCCP2", "iCCPbad", "iCCPm1", "iCCP3", "iCCPn79", "iCCPn80", "tEXt", "IDAT", "IEND"}
  MaxToks = 4
  CutToks = 3
INVARIANTS TypeOK NoStall OkHasHeader StopsAtPixels EarlyExit Sane PrintCase
CHECK_DEADLOCK FALSE
